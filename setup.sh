#!/bin/bash
# Offline build of the framework: Lean library (models + all proofs) and the model driver.
set -e
HERE="$(cd "$(dirname "${BASH_SOURCE[0]}")" && pwd)"
cd "$HERE/lean"
lake build 2>&1 | tail -5
mkdir -p "$HERE/.cache" "$HERE/evidence"
/venv/bin/python - <<PY
import sys
sys.path.insert(0, "$HERE/harness")
import common
(common.CACHE / "built.digest").write_text(common.lean_sources_digest())
print("driver:", common.DRIVER.exists())
PY
