"""Tokenizer and declaration-skeleton extractors for the files pydjinni generates (owner: C02/C07 builder).

One lexer for C / C++ / Objective-C / C++-CLI / Java (identifiers, numbers, string and character literals,
punctuation; comments and preprocessor lines are blanked out first), a brace/statement tree on top of it, and
extractors that return the *declared API* of one generated file as a skeleton

    {kind, name, scope, mods, fields: [[type, name]], ctor: [[type, name]], methods: [{pre, ret, name, params, post}],
     items: [name], codes: [{name, fields, ctor}]}

Types are returned in canonical form (`canon_type`: identifier words and single punctuation characters joined by one
blank; the same rule as `Lang/CTok.lean`).  The extractors are strict: a statement inside an extracted region that
matches none of the expected declaration forms raises `ExtractError` (never silently skipped).

Also: JNI lookups (`jniFindClass/jniGetMethodID/jniGetStaticMethodID/jniGetFieldID/JniEnum/JniFlags/JniInterface`
string literals with their class context) and `JNIEXPORT` prototypes from generated JNI headers/sources; class
members from Java sources and from `javap -s -p` output.
"""
from __future__ import annotations

import re
from dataclasses import dataclass


class ExtractError(Exception):
    pass


# --------------------------------------------------------------------------------------------------------
# lexer
# --------------------------------------------------------------------------------------------------------

@dataclass
class Tok:
    kind: str   # id | num | str | chr | punct
    text: str
    start: int
    end: int

    def __repr__(self):
        return f"{self.text}"


_TOKEN = re.compile(r"""
    (?P<ws>\s+)
  | (?P<id>@?[A-Za-z_$][A-Za-z0-9_$]*)
  | (?P<num>[0-9][0-9A-Za-z_.]*)
  | (?P<str>"(?:[^"\\\n]|\\.)*")
  | (?P<chr>'(?:[^'\\\n]|\\.)*')
  | (?P<punct>::|->|\.\.\.|.)
""", re.X | re.S)


def blank_comments(text: str, hash_lines: bool = True) -> str:
    """Replace comments (and preprocessor lines) by blanks, keeping offsets and string literals."""
    out = list(text)
    i, n = 0, len(text)
    bol = True
    while i < n:
        c = text[i]
        if c == '"' or c == "'":
            j = i + 1
            while j < n and text[j] != c and text[j] != "\n":
                j += 2 if text[j] == "\\" else 1
            i = j + 1
            bol = False
            continue
        if text.startswith("//", i):
            j = text.find("\n", i)
            j = n if j < 0 else j
            for k in range(i, j):
                out[k] = " "
            i = j
            continue
        if text.startswith("/*", i):
            j = text.find("*/", i + 2)
            j = n if j < 0 else j + 2
            for k in range(i, j):
                if out[k] != "\n":
                    out[k] = " "
            i = j
            continue
        if hash_lines and c == "#" and bol:
            j = i
            while True:
                e = text.find("\n", j)
                e = n if e < 0 else e
                cont = e > 0 and text[e - 1] == "\\"
                for k in range(j, e):
                    out[k] = " "
                j = e + 1
                if not cont or e >= n:
                    break
            i = min(j, n)
            bol = True
            continue
        if c == "\n":
            bol = True
        elif not c.isspace():
            bol = False
        i += 1
    return "".join(out)


def lex(text: str) -> list[Tok]:
    toks = []
    for m in _TOKEN.finditer(text):
        k = m.lastgroup
        if k == "ws":
            continue
        toks.append(Tok(k, m.group(), m.start(), m.end()))
    return toks


_CANON = re.compile(r"[A-Za-z0-9_]+|\S")


def canon_type(s: str) -> str:
    return " ".join(_CANON.findall(s))


def span_text(text: str, toks: list[Tok]) -> str:
    if not toks:
        return ""
    return text[toks[0].start:toks[-1].end]


def ctype(text: str, toks: list[Tok]) -> str:
    return canon_type(span_text(text, toks))


# --------------------------------------------------------------------------------------------------------
# brace / statement tree
# --------------------------------------------------------------------------------------------------------

@dataclass
class Node:
    head: list[Tok]          # tokens before `;` or before `{`
    body: list | None        # child nodes if a `{…}` follows, else None
    raw: list[Tok] | None    # tokens inside the braces (for comma-separated bodies)
    tail: list[Tok] = None   # tokens between `}` and the terminating `;` (e.g. attributes after an enum body)


def parse_nodes(toks: list[Tok], i: int = 0, stop_at_rbrace: bool = False, tails: bool = True):
    """Split a token list into statements (terminated by `;` at depth 0) and blocks (`head { … } tail ;`)."""
    nodes = []
    head: list[Tok] = []
    depth = 0
    n = len(toks)
    while i < n:
        t = toks[i]
        if t.text in "([":
            depth += 1
        elif t.text in ")]":
            depth -= 1
        if t.text == "{" and depth == 0:
            # initialiser braces (`clazz { expr }`) are kept inside the statement
            if head and (head[-1].kind == "id" and not _is_block_head(head)):
                j = _match(toks, i)
                head.extend(toks[i:j + 1])
                i = j + 1
                continue
            j = _match(toks, i)
            inner = toks[i + 1:j]
            body, _ = parse_nodes(inner, 0, tails=tails)
            k = j + 1
            tail = []
            # `} attrs ;`   (C-family struct/enum/class definitions end with `;`, function bodies and Java classes do not)
            if tails and any(t.text in ("typedef", "enum", "struct", "class", "union") for t in head):
                m = k
                while m < n and toks[m].text not in ";{}" and _tail_ok(toks[m]):
                    m += 1
                if m < n and toks[m].text == ";":
                    tail = toks[k:m]
                    k = m + 1
            nodes.append(Node(head, body, inner, tail))
            head = []
            i = k
            continue
        if t.text == "}" and depth == 0 and stop_at_rbrace:
            break
        if t.text == ";" and depth == 0:
            if head:
                nodes.append(Node(head, None, None, []))
            head = []
            i += 1
            continue
        head.append(t)
        i += 1
    if head:
        nodes.append(Node(head, None, None, []))
    return nodes, i


def _tail_ok(t: Tok) -> bool:
    return t.kind in ("id", "str", "num") or t.text in "(),:._"


_BLOCK_WORDS = {"class", "struct", "enum", "namespace", "interface", "extern", "typedef", "NS_ENUM", "NS_OPTIONS", "NS_ERROR_ENUM",
                "property", "static", "else", "try", "do", "override", "noexcept", "const", "final", "sealed", "abstract", "Runnable"}


def _is_block_head(head: list[Tok]) -> bool:
    """Does `head {` open a declaration/function body (True) or a brace initialiser of a data member (False)?"""
    texts = [t.text for t in head]
    if any(w in texts for w in ("class", "struct", "enum", "namespace", "interface", "extern", "typedef", "property", "@interface")):
        return True
    if texts[-1] in (")", "override", "noexcept", "const", "final", "sealed", "abstract", "else", "try", "do", "static") or ")" in texts:
        return True
    # `Type name { init }`  — data member with brace initialiser
    return False


def _match(toks: list[Tok], i: int) -> int:
    open_, close = toks[i].text, {"{": "}", "(": ")", "[": "]", "<": ">"}[toks[i].text]
    d = 0
    for j in range(i, len(toks)):
        if toks[j].text == open_:
            d += 1
        elif toks[j].text == close:
            d -= 1
            if d == 0:
                return j
    raise ExtractError(f"unbalanced {open_} at offset {toks[i].start}")


def split_top(toks: list[Tok], sep: str = ",", angles: bool = True) -> list[list[Tok]]:
    """Split at separators outside (), [], {} and (in type contexts) <>."""
    out, cur, d = [], [], 0
    opens, closes = ("([{<", ")]}>") if angles else ("([{", ")]}")
    for t in toks:
        if t.text in opens:
            d += 1
        elif t.text in closes:
            d -= 1
        if t.text == sep and d == 0:
            out.append(cur)
            cur = []
        else:
            cur.append(t)
    if cur or out:
        out.append(cur)
    return [x for x in out if x]


def texts(toks) -> list[str]:
    return [t.text for t in toks]


def find_paren(toks: list[Tok]) -> int:
    """index of the first `(` outside angle brackets"""
    d = 0
    for i, t in enumerate(toks):
        if t.text == "<":
            d += 1
        elif t.text == ">":
            d -= 1
        elif t.text == "(" and d == 0:
            return i
    return -1


def strip_attrs(toks: list[Tok]) -> list[Tok]:
    """drop leading `[[…]]` / `[…]` attribute groups and access labels (`public :`)"""
    while toks:
        if toks[0].text == "[":
            j = _match(toks, 0)
            toks = toks[j + 1:]
        elif len(toks) >= 2 and toks[0].text in ("public", "private", "protected", "internal") and toks[1].text == ":":
            toks = toks[2:]
        else:
            break
    return toks


def typed_name(text: str, toks: list[Tok], drop_default: bool = True) -> list[str]:
    """`T… name [= default]` -> [canonical type, name]"""
    if drop_default:
        for i, t in enumerate(toks):
            if t.text == "=":
                toks = toks[:i]
                break
    if len(toks) < 2 or toks[-1].kind != "id":
        raise ExtractError("typed name expected: " + " ".join(texts(toks)))
    return [ctype(text, toks[:-1]), toks[-1].text]


def empty_skel(kind="none") -> dict:
    # fmods: the modifier words in front of every field, one entry per field ("final", ""); [] where the target does not record them.
    # codes: [{name, fields, ctor, fmods, methods}] (fmods / methods = modifiers and accessors of the fields of an error code)
    return {"kind": kind, "name": "", "scope": "", "mods": [], "fields": [], "ctor": [], "methods": [], "items": [], "codes": [], "fmods": []}


# --------------------------------------------------------------------------------------------------------
# C++ headers
# --------------------------------------------------------------------------------------------------------

def _ns_and_body(nodes):
    """(namespace, declarations inside it) — generated headers have at most one namespace block"""
    for nd in nodes:
        tx = texts(nd.head)
        if tx and tx[0] == "namespace" and nd.body is not None:
            return "".join(tx[1:]), nd.body, [x for x in nodes if x is not nd]
    return "", nodes, []


def _cpp_method(text: str, toks: list[Tok]) -> dict:
    pre = []
    toks = list(toks)
    while toks:
        if toks[0].text == "[":           # [[nodiscard]] / [[deprecated…]]
            j = _match(toks, 0)
            word = "".join(texts(toks[:j + 1]))
            if "nodiscard" in word:
                pre.append("[[nodiscard]]")
            toks = toks[j + 1:]
        elif toks[0].text in ("static", "virtual", "explicit"):
            pre.append(toks[0].text)
            toks = toks[1:]
        else:
            break
    p = find_paren(toks)
    if p < 1:
        raise ExtractError("method declaration expected: " + " ".join(texts(toks)))
    q = _match(toks, p)
    return {"pre": pre, "ret": ctype(text, toks[:p - 1]), "name": toks[p - 1].text,
            "params": [typed_name(text, x) for x in split_top(toks[p + 1:q])], "post": texts(toks[q + 1:])}


def cpp_skel(text: str) -> dict:
    src = blank_comments(text)
    nodes, _ = parse_nodes(lex(src))
    scope, decls, outside = _ns_and_body(nodes)
    sk = empty_skel()
    sk["scope"] = scope
    main = None
    for nd in decls:
        tx = texts(strip_attrs(nd.head))
        if nd.body is None:
            continue      # forward declarations, free function declarations (to_string, operators)
        if tx[:2] == ["enum", "class"]:
            head = [t for t in tx[2:]]
            # enum class [[deprecated]] Name : int
            name_toks = [t for t in strip_attrs(nd.head[2:])]
            name = name_toks[0].text
            under = texts(name_toks[2:]) if len(name_toks) > 2 else []
            sk.update(kind="flags" if under == ["unsigned"] else "enum", name=name)
            for it in split_top(nd.raw, angles=False):
                sk["items"].append(it[0].text)
            main = nd
        elif tx[0] == "struct" and "exception" in tx:
            sk.update(kind="error", name=tx[1])
            main = nd
        elif tx[0] == "struct" and main is None:
            nm = strip_attrs(nd.head[1:])
            sk.update(kind="struct", name=nm[0].text, mods=[t.text for t in nm[1:] if t.text == "final"])
            for st in nd.body:
                stx = texts(st.head)
                if stx[0] == "friend":
                    continue
                if st.body is not None or find_paren(st.head) >= 0 and stx[0] == sk["name"]:
                    p = find_paren(st.head)
                    q = _match(st.head, p)
                    sk["ctor"] = [typed_name(src, x) for x in split_top(st.head[p + 1:q])]
                    continue
                toks = st.head
                # `const T name [[deprecated]]`
                toks = [t for t in toks]
                while toks and toks[-1].text == "]":
                    j = len(toks) - 1
                    d = 0
                    while j >= 0:
                        if toks[j].text == "]":
                            d += 1
                        elif toks[j].text == "[":
                            d -= 1
                            if d == 0:
                                break
                        j -= 1
                    toks = toks[:j]
                sk["fields"].append(typed_name(src, toks))
            main = nd
        elif tx[0] == "class" and "::" in tx and sk["kind"] == "error":
            # class Err::Code final : public Err { public: const T name; explicit Code(params, std::string message = "") : … {} … }
            name = tx[tx.index("::") + 1]
            code = {"name": name, "fields": [], "ctor": []}
            for st in nd.body:
                h = strip_attrs(st.head)
                stx = texts(h)
                if not stx:
                    continue
                if stx[0] == "explicit":
                    p = find_paren(h)
                    q = _match(h, p)
                    params = [typed_name(src, x) for x in split_top(h[p + 1:q])]
                    if not params or params[-1][1] != "message":
                        raise ExtractError("error-code constructor without trailing message parameter")
                    code["ctor"] = params[:-1]
                elif "what" in stx:
                    continue
                elif stx[-1] == "message" and st.body is None:
                    continue
                elif st.body is None and find_paren(h) < 0:
                    code["fields"].append(typed_name(src, h))
                else:
                    raise ExtractError("unexpected member in error code class: " + " ".join(stx))
            sk["codes"].append(code)
        elif tx[0] == "class" and main is None:
            nm = strip_attrs(nd.head[1:])
            sk.update(kind="class", name=nm[0].text)
            for st in nd.body:
                h = strip_attrs(st.head)
                stx = texts(h)
                if not stx:
                    continue
                if "~" in stx:
                    continue
                # strip [[deprecated]] in front, keep [[nodiscard]]
                sk["methods"].append(_cpp_method(src, st.head if st.head[0].text != "public" else h))
            main = nd
        elif tx[0] in ("constexpr", "inline", "template", "std"):
            continue
        else:
            raise ExtractError("unexpected declaration in C++ header: " + " ".join(tx[:8]))
    return sk


# --------------------------------------------------------------------------------------------------------
# Java sources
# --------------------------------------------------------------------------------------------------------

JAVA_MODS = {"public", "private", "protected", "static", "final", "abstract", "native", "synchronized", "default"}


def _java_strip(toks: list[Tok]):
    """leading annotations (`@Override`, `@Deprecated`, `@FunctionalInterface`) and modifiers"""
    mods = []
    toks = list(toks)
    while toks:
        if toks[0].text in ("@Override", "@Deprecated", "@FunctionalInterface"):
            toks = toks[1:]
        elif toks[0].text in JAVA_MODS:
            mods.append(toks[0].text)
            toks = toks[1:]
        else:
            break
    return mods, toks


def java_class(text: str, node: Node, outer: str | None, pkg: str) -> dict:
    """{name (binary), kind, mods, extends, fields:[{name,type,mods}], ctors:[{params,mods}], methods:[{name,ret,params,mods,throws}], nested:[…]}"""
    mods, h = _java_strip(node.head)
    tx = texts(h)
    kind = tx[0]
    name = tx[1]
    binary = (outer + "$" + name) if outer else ((pkg.replace(".", "/") + "/") if pkg else "") + name
    cls = {"name": binary, "simple": name, "kind": kind, "mods": mods, "extends": None, "implements": [], "fields": [], "ctors": [], "methods": [],
           "nested": [], "items": []}
    if "extends" in tx:
        cls["extends"] = tx[tx.index("extends") + 1]
    body = node.body
    if kind == "enum":
        # items `A, B;` come first: a single statement (or the whole raw body when there is no `;`)
        first = node.raw
        end = next((i for i, t in enumerate(first) if t.text == ";"), len(first))
        for it in split_top(first[:end]):
            it = [t for t in it if not t.text.startswith("@")]
            cls["items"].append(it[0].text)
        return cls
    for st in body:
        m, r = _java_strip(st.head)
        rtx = texts(r)
        if not rtx:
            if st.body is not None and m == ["static"]:
                continue        # static initialiser
            raise ExtractError("empty Java member")
        if rtx[0] in ("class", "interface", "enum"):
            cls["nested"].append(java_class(text, Node(st.head, st.body, st.raw, st.tail), binary, pkg))
            continue
        p = find_paren(r)
        eq = next((i for i, t in enumerate(r) if t.text == "="), -1)
        if eq >= 0 and (p < 0 or eq < p):
            r = r[:eq]          # field with initialiser
            rtx = texts(r)
            p = -1
            st = Node(st.head, None, None, [])
        if p < 0:
            if st.body is not None:
                raise ExtractError("unexpected block in Java class: " + " ".join(rtx[:6]))
            ty, nm = typed_name(text, r)
            cls["fields"].append({"name": nm, "type": ty, "mods": m})
            continue
        q = _match(r, p)
        params = [typed_name(text, x) for x in split_top(r[p + 1:q])]
        after = texts(r[q + 1:])
        throws = []
        if after and after[0] == "throws":
            throws = [canon_type(" ".join(x)) for x in (" ".join(after[1:]).split(","))]
            throws = [x.replace(" ", "") for x in throws]
        elif after:
            raise ExtractError("unexpected tokens after Java parameter list: " + " ".join(after))
        if p == 1 and r[0].text == name:
            cls["ctors"].append({"params": params, "mods": m})
        else:
            cls["methods"].append({"name": r[p - 1].text, "ret": ctype(text, r[:p - 1]), "params": params, "mods": m, "throws": throws,
                                   "has_body": st.body is not None})
    return cls


def java_file(text: str) -> dict:
    """{package, classes: [top-level class dicts]}"""
    src = blank_comments(text, hash_lines=False)
    nodes, _ = parse_nodes(lex(src), tails=False)
    pkg = ""
    classes = []
    imports = {}
    for nd in nodes:
        tx = texts(nd.head)
        if tx[0] == "package":
            pkg = "".join(tx[1:])
        elif tx[0] == "import":
            if tx[1] != "static" and tx[-1] != "*":
                imports[tx[-1]] = "/".join(t for t in tx[1:] if t != ".")
            continue
        elif nd.body is not None:
            classes.append(java_class(src, nd, None, pkg))
        else:
            raise ExtractError("unexpected top-level Java statement: " + " ".join(tx[:6]))
    return {"package": pkg, "classes": classes, "imports": imports}


def java_skel(text: str) -> dict:
    jf = java_file(text)
    cls = jf["classes"][0]
    sk = empty_skel()
    sk["scope"] = jf["package"]
    sk["name"] = cls["simple"]
    cmods = [m for m in cls["mods"] if m in ("public", "final", "abstract")]
    if cls["kind"] == "enum":
        sk.update(kind="enum", items=cls["items"])       # enum or flags: decided by the caller (same Java form)
        return sk
    if cls["kind"] == "interface":
        sk.update(kind="function", mods=cmods)
        for m in cls["methods"]:
            sk["methods"].append({"pre": [x for x in m["mods"] if x in ("static", "abstract")], "ret": m["ret"], "name": m["name"], "params": m["params"], "post": m["throws"]})
        return sk
    if cls["extends"] == "Exception":
        sk.update(kind="error")
        for n in cls["nested"]:
            ctors = sorted(n["ctors"], key=lambda c: len(c["params"]))
            if len(ctors) != 2 or ctors[1]["params"][:-1] != ctors[0]["params"] or ctors[1]["params"][-1] != ["String", "message"]:
                raise ExtractError("error code class: constructors (params) and (params, String message) expected")
            sk["codes"].append({"name": n["simple"], "fields": [[f["type"], f["name"]] for f in n["fields"]], "ctor": ctors[0]["params"],
                                "fmods": [" ".join(f["mods"]) for f in n["fields"]],
                                "methods": [{"pre": [x for x in m["mods"] if x in ("public", "static", "abstract")], "ret": m["ret"], "name": m["name"],
                                             "params": m["params"], "post": m["throws"]} for m in n["methods"]]})
        return sk
    if "abstract" in cls["mods"] and not cls["fields"]:
        sk.update(kind="class", mods=cmods)
        for m in cls["methods"]:
            sk["methods"].append({"pre": [x for x in m["mods"] if x in ("public", "static", "abstract")], "ret": m["ret"], "name": m["name"],
                                  "params": m["params"], "post": m["throws"]})
        return sk
    # record
    sk.update(kind="struct", mods=cmods)
    strip_final = lambda ty: ty
    sk["fields"] = [[f["type"], f["name"]] for f in cls["fields"]]
    sk["fmods"] = [" ".join(f["mods"]) for f in cls["fields"]]
    if len(cls["ctors"]) != 1:
        raise ExtractError("record class: exactly one constructor expected")
    sk["ctor"] = cls["ctors"][0]["params"]
    for m in cls["methods"]:
        if m["name"] in ("equals", "hashCode", "compareTo", "toString"):
            continue
        sk["methods"].append({"pre": [x for x in m["mods"] if x in ("public", "static", "abstract")], "ret": m["ret"], "name": m["name"],
                              "params": m["params"], "post": m["throws"]})
    return sk


# --------------------------------------------------------------------------------------------------------
# Objective-C headers
# --------------------------------------------------------------------------------------------------------

def objc_skel(text: str) -> dict:
    src = blank_comments(text)
    toks = lex(src)
    sk = empty_skel()
    tx = texts(toks)
    i = 0
    n = len(toks)

    def skip_macro(j):
        """NS_SWIFT_NAME(...) / __attribute__((...)) / DEPRECATED_… after a declaration"""
        while j < n and toks[j].kind == "id" and toks[j].text in ("NS_SWIFT_NAME", "__attribute__", "DEPRECATED_ATTRIBUTE", "DEPRECATED_MSG_ATTRIBUTE"):
            if j + 1 < n and toks[j + 1].text == "(":
                j = _match(toks, j + 1) + 1
            else:
                j += 1
        return j

    while i < n:
        t = toks[i]
        if t.text == "typedef":
            macro = toks[i + 1].text
            close = _match(toks, i + 2)
            args = split_top(toks[i + 3:close])
            name = args[-1][0].text
            kind = {"NS_ENUM": "enum", "NS_OPTIONS": "flags", "NS_ERROR_ENUM": "error"}.get(macro)
            if kind is None:
                raise ExtractError("unexpected typedef " + macro)
            sk.update(kind=kind, name=name)
            b = close + 1
            e = _match(toks, b)
            for it in split_top(toks[b + 1:e], angles=False):
                sk["items"].append(it[0].text)
            i = skip_macro(e + 1)
            if toks[i].text != ";":
                raise ExtractError("`;` expected after enum")
            i += 1
        elif t.text == "FOUNDATION_EXPORT":
            j = i
            while toks[j].text != ";":
                j += 1
            stmt = toks[i + 1:j]
            stx = texts(stmt)
            if stx[0] == "NSErrorUserInfoKey":
                sk["fields"].append(["NSErrorUserInfoKey", stx[2]])
            i = j + 1
        elif t.text == "NS_SWIFT_NAME" or t.text.startswith("DEPRECATED"):
            i = skip_macro(i)
        elif t.text == "@class":
            while toks[i].text != ";":
                i += 1
            i += 1
        elif t.text == "struct":      # swift namespace helper `struct Ns {};`
            while toks[i].text != ";":
                i += 1
            i += 1
        elif t.text in ("@interface", "@protocol"):
            sk.update(kind="class", name=toks[i + 1].text, mods=[t.text[1:]])
            i += 2
            if toks[i].text == ":":
                i += 2
            if toks[i].text == "<":
                i = _match(toks, i) + 1
            # members until @end
            while toks[i].text != "@end":
                j = i
                d = 0
                while not (toks[j].text == ";" and d == 0):
                    if toks[j].text in "([{":
                        d += 1
                    elif toks[j].text in ")]}":
                        d -= 1
                    j += 1
                stmt = toks[i:j]
                i = j + 1
                if stmt[0].text == "@property":
                    q = _match(stmt, 1)
                    attrs = [" ".join(texts(a)) for a in split_top(stmt[2:q])]
                    ann = [a for a in attrs if a in ("nullable", "nonnull")]
                    rest = stmt[q + 1:]
                    k = len(rest)
                    # trailing macros
                    for m_i, tk in enumerate(rest):
                        if tk.text in ("NS_SWIFT_NAME", "DEPRECATED_ATTRIBUTE", "DEPRECATED_MSG_ATTRIBUTE", "__attribute__"):
                            k = m_i
                            break
                    rest = rest[:k]
                    ty = ctype(src, rest[:-1])
                    sk["fields"].append([canon_type(" ".join(ann + [ty])), rest[-1].text])
                    sk["kind"] = "struct"
                elif stmt[0].text in ("+", "-"):
                    q = _match(stmt, 1)
                    ret = ctype(src, stmt[2:q])
                    k = q + 1
                    name = stmt[k].text
                    k += 1
                    params = []
                    first = True
                    while k < len(stmt) and (stmt[k].text == ":" or (stmt[k].kind == "id" and k + 1 < len(stmt) and stmt[k + 1].text == ":")):
                        if stmt[k].text != ":":
                            k += 1          # label
                        k += 1              # ':'
                        q2 = _match(stmt, k)
                        pty = ctype(src, stmt[k + 1:q2])
                        pname = stmt[q2 + 1].text
                        params.append([pty, pname])
                        k = q2 + 2
                    rest = texts(stmt[k:])
                    if rest and rest[0] not in ("NS_SWIFT_NAME", "__attribute__", "DEPRECATED_ATTRIBUTE", "DEPRECATED_MSG_ATTRIBUTE"):
                        raise ExtractError("unexpected tokens after Objective-C method: " + " ".join(rest[:5]))
                    sk["methods"].append({"pre": [stmt[0].text], "ret": ret, "name": name, "params": params, "post": []})
                else:
                    raise ExtractError("unexpected Objective-C member: " + " ".join(texts(stmt[:6])))
            i += 1
        elif t.text == ";":
            i += 1
        else:
            raise ExtractError("unexpected Objective-C token: " + " ".join(tx[i:i + 6]))
    if sk["kind"] == "class" and sk["methods"] and sk["methods"][0]["ret"] == "nonnull instancetype":
        sk["kind"] = "struct"          # a record without fields: initialisers only
    if sk["kind"] == "struct":
        # labels of the initialisers are the property names: constructor parameters = parameters of the first method
        sk["ctor"] = sk["methods"][0]["params"] if sk["methods"] else []
    return sk


# --------------------------------------------------------------------------------------------------------
# C++/CLI headers
# --------------------------------------------------------------------------------------------------------

def _cli_params(src: str, toks: list[Tok]) -> list:
    out = []
    for x in split_top(toks):
        # keep a leading [attribute] as part of the type text
        out.append(typed_name(src, x))
    return out


def cli_skel(text: str) -> dict:
    src = blank_comments(text)
    nodes, _ = parse_nodes(lex(src))
    scope, decls, _ = _ns_and_body(nodes)
    sk = empty_skel()
    sk["scope"] = scope
    for nd in decls:
        h = strip_attrs(nd.head)
        tx = texts(h)
        if nd.body is None:
            if tx[:2] == ["public", "delegate"]:
                p = find_paren(h)
                q = _match(h, p)
                sk.update(kind="function", name=h[p - 1].text)
                sk["methods"].append({"pre": [], "ret": ctype(src, h[2:p - 1]), "name": h[p - 1].text, "params": _cli_params(src, h[p + 1:q]), "post": []})
            continue
        if tx[:3] == ["public", "enum", "class"]:
            kind = "flags" if any(t.text == "Flags" for t in nd.head) else "enum"
            sk.update(kind=kind, name=tx[3])
            for it in split_top(nd.raw, angles=False):
                it = strip_attrs(it)
                sk["items"].append(it[0].text)
        elif tx[:3] == ["public", "ref", "class"]:
            name = tx[3]
            is_error = "Exception" in tx
            mods = [w for w in tx[4:] if w in ("sealed", "abstract")][:1]
            props, ctors, methods, privates = [], [], [], []
            section = "public"
            for st in nd.body:
                hh = st.head
                # track access sections
                while len(hh) >= 2 and hh[0].text in ("public", "private", "protected", "internal") and hh[1].text == ":":
                    section = hh[0].text
                    hh = hh[2:]
                hh = strip_attrs(hh)
                stx = texts(hh)
                if not stx or section != "public":
                    continue
                if stx[0] == "property":
                    props.append(typed_name(src, hh[1:]))
                elif stx[0] == "ref" and stx[1] == "class":
                    continue
                elif stx[0] == name and find_paren(hh) == 1:
                    q = _match(hh, 1)
                    ctors.append(_cli_params(src, hh[2:q]))
                else:
                    p = find_paren(hh)
                    if p < 0:
                        raise ExtractError("unexpected C++/CLI member: " + " ".join(stx[:6]))
                    q = _match(hh, p)
                    pre = []
                    k = 0
                    while hh[k].text in ("static", "virtual"):
                        pre.append(hh[k].text)
                        k += 1
                    methods.append({"pre": pre, "ret": ctype(src, hh[k:p - 1]), "name": hh[p - 1].text, "params": _cli_params(src, hh[p + 1:q]),
                                    "post": texts(hh[q + 1:])})
            if is_error:
                sk.update(kind="error", name=name)
            elif mods == ["abstract"] and not props and not ctors:
                sk.update(kind="class", name=name, mods=mods, methods=methods)
            else:
                sk.update(kind="struct", name=name, mods=mods, fields=props, ctor=ctors[0] if ctors else [])
                sk["methods"] = []
        elif tx[:2] == ["ref", "class"] and "::" in tx and sk["kind"] == "error":
            cname = tx[tx.index("::") + 1]
            props, ctors = [], []
            section = "private"
            for st in nd.body:
                hh = st.head
                while len(hh) >= 2 and hh[0].text in ("public", "private", "protected", "internal") and hh[1].text == ":":
                    section = hh[0].text
                    hh = hh[2:]
                hh = strip_attrs(hh)
                stx = texts(hh)
                if not stx or section != "public":
                    continue
                if stx[0] == "property":
                    props.append(typed_name(src, hh[1:]))
                elif stx[0] == cname:
                    q = _match(hh, 1)
                    ctors.append(_cli_params(src, hh[2:q]))
                else:
                    raise ExtractError("unexpected member in C++/CLI error code: " + " ".join(stx[:6]))
            ctors.sort(key=len)
            if len(ctors) != 2 or ctors[1][:-1] != ctors[0] or ctors[1][-1][1] != "message":
                raise ExtractError("C++/CLI error code: constructors (params) and (params, message) expected")
            sk["codes"].append({"name": cname, "fields": props, "ctor": ctors[0]})
        elif tx[0] in ("ref", "class"):
            continue      # delegate proxies / translators of function types
        else:
            raise ExtractError("unexpected declaration in C++/CLI header: " + " ".join(tx[:8]))
    return sk


# --------------------------------------------------------------------------------------------------------
# JNI glue: lookups and exports
# --------------------------------------------------------------------------------------------------------

LOOKUP_FUNS = {"jniFindClass": "class", "jniGetMethodID": "method", "jniGetStaticMethodID": "static", "jniGetFieldID": "field"}


def _call_args(toks: list[Tok], i: int):
    """toks[i] is an identifier followed by `(`: returns (argument token lists, index after `)`)"""
    j = _match(toks, i + 1)
    return split_top(toks[i + 2:j]), j + 1


def _str_val(t: Tok) -> str:
    if t.kind != "str":
        raise ExtractError("string literal expected, got " + t.text)
    return t.text[1:-1]


def jni_extract(header: str | None, source: str | None) -> dict:
    """lookups: [{cls, kind, name, sig, owner}] ; exports: [{symbol, ret, recv, params}]"""
    lookups, exports = [], []
    find_class = {}      # C++ class name -> literal returned by its findClass() (error codes)
    pending = []
    for text in (source, header):
        if text is None:
            continue
        src = blank_comments(text)
        toks = lex(src)
        n = len(toks)
        # current C++ class context: innermost `class X … {` / `X::f(…) {` at brace depth tracking
        stack = []       # (depth, name)
        depth = 0
        i = 0
        cls_of = {}
        while i < n:
            t = toks[i]
            if t.text == "{":
                depth += 1
            elif t.text == "}":
                depth -= 1
                while stack and stack[-1][0] > depth:
                    stack.pop()
            elif t.text == "class" and i + 1 < n and toks[i + 1].kind == "id":
                # class definition head ends at `{` (skip forward declarations)
                j = i + 1
                while j < n and toks[j].text not in "{;":
                    j += 1
                if j < n and toks[j].text == "{":
                    stack.append((depth + 1, toks[i + 1].text))
            elif t.kind == "id" and i + 2 < n and toks[i + 1].text == "::" and toks[i + 2].text == "findClass":
                # `auto Code::findClass() -> … { return ::pydjinni::jniFindClass("…"); }`
                j = i
                while toks[j].text != "{":
                    j += 1
                e = _match(toks, j)
                lits = [x for x in toks[j:e] if x.kind == "str"]
                if len(lits) != 1:
                    raise ExtractError("findClass(): one class literal expected")
                find_class[t.text] = _str_val(lits[0])
                lookups.append({"cls": _str_val(lits[0]), "kind": "class", "name": "", "sig": "", "owner": t.text})
                i = e + 1
                continue
            elif t.kind == "id" and t.text in LOOKUP_FUNS and i + 1 < n and toks[i + 1].text == "(":
                args, nxt = _call_args(toks, i)
                owner = stack[-1][1] if stack else None
                kind = LOOKUP_FUNS[t.text]
                if kind == "class":
                    lit = _str_val(args[0][0])
                    lookups.append({"cls": lit, "kind": "class", "name": "", "sig": "", "owner": owner})
                    cls_of[owner] = lit
                else:
                    if len(args) != 3:
                        raise ExtractError(t.text + ": three arguments expected")
                    lookups.append({"cls": None, "kind": kind, "name": _str_val(args[1][0]), "sig": _str_val(args[2][0]), "owner": owner})
                i = nxt
                continue
            elif t.kind == "id" and t.text == "clazz" and i + 2 < n and toks[i + 1].text == "{" and toks[i + 2].text == "findClass":
                owner = stack[-1][1] if stack else None
                pending.append(owner)
            elif t.kind == "id" and t.text in ("JniEnum", "JniFlags") and i + 1 < n and toks[i + 1].text == "(" and toks[i + 2].kind == "str":
                lit = _str_val(toks[i + 2])
                lookups.append({"cls": lit, "kind": "support", "name": t.text, "sig": "", "owner": stack[-1][1] if stack else None})
            elif t.kind == "id" and t.text == "JniInterface" and i + 1 < n and toks[i + 1].text == "<":
                j = _match(toks, i + 1)
                if j + 1 < n and toks[j + 1].text == "(":
                    e = _match(toks, j + 1)
                    lits = [x for x in toks[j + 1:e] if x.kind == "str"]
                    if lits:
                        if len(lits) != 1:
                            raise ExtractError("JniInterface(...): one literal expected")
                        lookups.append({"cls": _str_val(lits[0]), "kind": "support", "name": "JniInterface", "sig": "", "owner": stack[-1][1] if stack else None})
                    i = e + 1
                    continue
            elif t.kind == "id" and t.text == "JNIEXPORT":
                # JNIEXPORT <ret> JNICALL <symbol>(params) noexcept {
                j = i + 1
                ret = []
                while toks[j].text != "JNICALL":
                    ret.append(toks[j])
                    j += 1
                sym = toks[j + 1].text
                e = _match(toks, j + 2)
                params = split_top(toks[j + 3:e])
                ptypes = []
                for p in params:
                    # `JNIEnv* jniEnv`, `jobject` (name in a comment), `jlong nativeRef`, `JavaVM * jvm`
                    if len(p) >= 2 and p[-1].kind == "id" and p[-2].text not in ("*",) or (len(p) >= 2 and p[-1].kind == "id" and p[-2].text == "*"):
                        ptypes.append(canon_type(span_text(src, p[:-1])))
                    else:
                        ptypes.append(canon_type(span_text(src, p)))
                exports.append({"symbol": sym, "ret": canon_type(span_text(src, ret)), "params": ptypes})
                i = e + 1
                continue
            i += 1
        # resolve member lookups to the class literal of their owner
        for l in lookups:
            if l["cls"] is None:
                l["_resolve"] = True
        for l in lookups:
            if l.get("_resolve") and l["cls"] is None and l["owner"] in cls_of:
                l["cls"] = cls_of[l["owner"]]
    for owner in pending:
        if owner in find_class:
            lit = find_class[owner]
            for l in lookups:
                if l["cls"] is None and l["owner"] == owner:
                    l["cls"] = lit
    for l in lookups:
        l.pop("_resolve", None)
        if l["cls"] is None:
            raise ExtractError(f"lookup of {l['name']} {l['sig']} without class context")
    return {"lookups": lookups, "exports": exports}


# --------------------------------------------------------------------------------------------------------
# javap -s -p
# --------------------------------------------------------------------------------------------------------

_JAVAP_CLASS = re.compile(r"^(?:(?:public|private|protected|final|abstract|static|strictfp)\s+)*(class|interface|enum)\s+([\w.$]+)(?:\s+extends\s+([\w.$]+))?(?:\s+implements\s+(.*?))?\s*\{\s*$")


def _strip_generics(s: str) -> str:
    out, d = [], 0
    for ch in s:
        if ch == "<":
            d += 1
        elif ch == ">":
            d -= 1
        elif d == 0:
            out.append(ch)
    return "".join(out)


def parse_javap(out: str) -> dict:
    """{binary class name: {extends, members: [{kind, name, desc, static, native}]}}"""
    classes = {}
    cur = None
    pending = None
    for line in out.split("\n"):
        s = line.strip()
        if not line.startswith(" ") and s.endswith("{"):
            m = _JAVAP_CLASS.match(_strip_generics(s))
            if not m:
                raise ExtractError("javap class line not understood: " + s)
            cur = m.group(2).replace(".", "/")
            ext = m.group(3).replace(".", "/") if m.group(3) else ("java/lang/Object" if m.group(1) == "class" else None)
            if m.group(1) == "enum":
                ext = "java/lang/Enum"
            classes[cur] = {"extends": ext, "members": [], "simple": cur.split("/")[-1]}
            continue
        if cur is None or not s or s == "}" or s.startswith("Compiled from"):
            continue
        if s.startswith("static {}"):
            pending = {"skip": True}
            continue
        if s.startswith("descriptor:"):
            d = s.split(":", 1)[1].strip()
            if pending is None:
                raise ExtractError("javap descriptor without member")
            if not pending.get("skip"):
                pending["desc"] = d
                classes[cur]["members"].append(pending)
            pending = None
            continue
        if s.endswith(";"):
            decl = _strip_generics(s[:-1])
            words = decl.split("(")[0].split()
            static = "static" in words
            native = "native" in words
            if "(" in decl:
                name = decl.split("(")[0].split()[-1]
                simple = cur.split("/")[-1].split("$")[-1]
                dotted = cur.replace("/", ".")
                if name == dotted or name == simple or name == dotted.replace("$", "."):
                    pending = {"kind": "ctor", "name": "<init>", "static": False, "native": False}
                else:
                    pending = {"kind": "method", "name": name, "static": static, "native": native}
            else:
                pending = {"kind": "field", "name": words[-1], "static": static, "native": False}
    return classes
