"""Runs the real pydjinni pipeline (configure -> parse -> generate) in worker processes (used by C12, C13).

A job is a dict
    {"files": {relative path: text}, "root": "main.djinni", "targets": ["cpp", "java", ...],
     "config": {generator key: {option: value}},          # merged over DEFAULT_CONFIG; "out" is filled in per job
     "want": ["dep"],                                    # optional extras
     "generate": {"include_dirs": ["{SRC}/inc"]},        # optional: further options of the `generate` section
     "cwd": "work", "dirs": ["inc/x.yaml"],              # optional: working directory / directories to create (relative to the
                                                         # job's source directory `{SRC}`, which is also substituted in "root" and,
                                                         # with "subst": true, in the texts of "files"); default: cwd = source directory
     "hook": "props.c13:hook_export"}                    # optional observer run inside the worker
  | {"steps": [job, job, ...]}                           # the jobs run one after the other in ONE process on ONE directory tree:
                                                         # files of a later step replace those of an earlier one, everything else stays
                                                         # ("out_dir": name of the step's output directory, default "out"; `{JOB}` in "root" /
                                                         # substituted texts = the directory of the sequence; "share_api": true = the steps
                                                         # configure one `API` object again and again instead of making a new one each)
and the result
    {"ok": True, "files": {"<target-out-dir>/<relative path>": text}, "dep": [deprecation messages of the AST]}
  | {"ok": False, "stage": "parse"|"generate:<target>", "cls": exception class, "msg": str}
Every job runs in its own fresh directory `<base>/j<n>` with absolute output paths.
"""
from __future__ import annotations

import copy
import os
import shutil
import signal
from pathlib import Path

ALL_TARGETS = ["cpp", "java", "objc", "cppcli", "yaml"]

DEFAULT_CONFIG = {
    "cpp": {"namespace": "gen::lib", "string_serialization": False},
    "java": {"package": "foo.bar"},
    "jni": {"namespace": "gen::jni", "identifier": {"file": {"style": "snake_case", "prefix": "jni_"}}},
    "objc": {},
    "objcpp": {"namespace": "gen::objcpp"},
    "cppcli": {"namespace": "Gen::Cli"},
    "yaml": {},
}


def deep_merge(a: dict, b: dict) -> dict:
    out = copy.deepcopy(a)
    for k, v in b.items():
        if isinstance(v, dict) and isinstance(out.get(k), dict):
            out[k] = deep_merge(out[k], v)
        else:
            out[k] = copy.deepcopy(v)
    return out


def _subst(x, src: str):
    if isinstance(x, str):
        return x.replace("{SRC}", src)
    if isinstance(x, dict):
        return {k: _subst(v, src) for k, v in x.items()}
    if isinstance(x, list):
        return [_subst(v, src) for v in x]
    return x


class _Hang(BaseException):
    pass


def _safe_str(e) -> str:
    try:
        return str(e)[:600]
    except Exception:  # noqa: e.g. ParsingExceptionList.__str__ reprs marshalling objects, which can raise
        items = getattr(e, "items", None)
        if items:
            try:
                return "; ".join(f"{type(x).__name__}: {x}" for x in items)[:600]
            except Exception:  # noqa
                pass
        return "<" + type(e).__name__ + ">"


_SHARED_API = []


def run_job(job: dict, jobdir: Path, fresh_tree: bool = True) -> dict:
    from pydjinni import API
    if fresh_tree:
        shutil.rmtree(jobdir, ignore_errors=True)
    src = jobdir / "src"
    for rel, text in job["files"].items():
        p = src / rel
        p.parent.mkdir(parents=True, exist_ok=True)
        p.write_text(text.replace("{SRC}", str(src)).replace("{JOB}", str(jobdir)) if job.get("subst") else text, encoding="utf-8", newline="")
    for rel in job.get("dirs", ()):
        (src / rel).mkdir(parents=True, exist_ok=True)
    out = jobdir / job.get("out_dir", "out")
    gen_cfg = deep_merge(DEFAULT_CONFIG, job.get("config", {}))
    for k in gen_cfg:
        gen_cfg[k]["out"] = str(out / k)
    gen_cfg.update(_subst(job.get("generate", {}), str(src)))
    cwd = src / job.get("cwd", ".")
    cwd.mkdir(parents=True, exist_ok=True)
    old = os.getcwd()
    os.chdir(cwd)
    try:
        try:
            if job.get("share_api"):
                if not _SHARED_API:
                    _SHARED_API.append(API())
                api = _SHARED_API[0]
            else:
                api = API()
            ctx = api.configure(options={"generate": gen_cfg}).parse(Path(job["root"].replace("{SRC}", str(src)).replace("{JOB}", str(jobdir))))
        except BaseException as e:  # noqa
            if isinstance(e, (_Hang, KeyboardInterrupt)):
                raise
            return {"ok": False, "stage": "parse", "cls": type(e).__name__, "msg": _safe_str(e)}
        for t in job.get("targets", ALL_TARGETS):
            try:
                ctx = ctx.generate(t, clean=True)
            except BaseException as e:  # noqa
                if isinstance(e, (_Hang, KeyboardInterrupt)):
                    raise
                return {"ok": False, "stage": "generate:" + t, "cls": type(e).__name__, "msg": _safe_str(e)}
        res = {"ok": True, "files": {}}
        if "dep" in job.get("want", ()):
            res["dep"] = sorted({d.deprecated for d in _all_decls(ctx) if isinstance(d.deprecated, str)})
        if job.get("hook"):
            # "module:function" called as f(job, configured context, job directory) -> JSON-able extra observations
            import importlib
            mod, fn = job["hook"].split(":")
            res["extra"] = getattr(importlib.import_module(mod), fn)(job, ctx, jobdir)
    finally:
        os.chdir(old)
    if out.exists():
        for p in sorted(out.rglob("*")):
            # copies of the support library (C++/ObjC headers and sources under …/pydjinni/) are not generated code
            if p.is_file() and ("pydjinni" not in p.relative_to(out).parts[1:] or p.suffix == ".java"):
                try:
                    res["files"][str(p.relative_to(out))] = p.read_text(encoding="utf-8")
                except UnicodeDecodeError:
                    res["files"][str(p.relative_to(out))] = p.read_bytes().decode("latin-1")
    if not job.get("keep"):
        shutil.rmtree(jobdir, ignore_errors=True)
    return res


def _all_decls(ctx):
    """every type and field declaration the parser produced for the main file and its imports"""
    seen = []
    for d in ctx.defs:
        seen.append(d)
        for attr in ("items", "flags", "fields", "methods", "error_codes", "parameters"):
            for x in getattr(d, attr, None) or []:
                seen.append(x)
                for y in getattr(x, "parameters", None) or []:
                    seen.append(y)
    return seen


def _worker(args):
    base, idx, chunk, timeout = args

    def on_alarm(*_):
        raise _Hang()

    signal.signal(signal.SIGALRM, on_alarm)
    out = []
    for n, job in enumerate(chunk):
        signal.alarm(timeout)
        jobdir = Path(base) / f"w{idx}_j{n}"
        try:
            if "steps" in job:
                done = []
                try:
                    for k, step in enumerate(job["steps"]):
                        done.append(run_job({**step, "keep": True}, jobdir, fresh_tree=(k == 0)))
                except _Hang:
                    os.chdir("/")
                    done.append({"ok": False, "stage": "hang", "cls": "Timeout", "msg": f"no result within {timeout}s"})
                done += [{"ok": False, "stage": "not-run", "cls": "Timeout", "msg": "an earlier step did not end"}] * (len(job["steps"]) - len(done))
                out.append({"steps": done})
                shutil.rmtree(jobdir, ignore_errors=True)
            else:
                out.append(run_job(job, jobdir))
        except _Hang:
            os.chdir("/")
            out.append({"ok": False, "stage": "hang", "cls": "Timeout", "msg": f"no result within {timeout}s"})
        finally:
            signal.alarm(0)
    return out


def run_many(base: Path, jobs: list[dict], timeout: int = 30, workers: int = 14, fresh_process: bool = False) -> list[dict]:
    """results in the order of `jobs`. The jobs are handed out one by one (multi-step jobs first) to a pool of forked worker processes;
    a process runs many jobs one after the other, each in a directory of its own — `fresh_process`: one job per process"""
    import multiprocessing as mp
    if not jobs:
        return []
    import pydjinni  # noqa: F401  (import once before forking)
    from pydjinni import API
    API()
    workers = max(1, min(workers, len(jobs)))
    order = sorted(range(len(jobs)), key=lambda i: -len(jobs[i].get("steps", ())))
    with mp.get_context("fork").Pool(workers, maxtasksperchild=1 if fresh_process else None) as pool:
        res = pool.map(_worker, [(str(base), i, [jobs[i]], timeout) for i in order], chunksize=1)
    out = [None] * len(jobs)
    for i, r in zip(order, res):
        out[i] = r[0]
    return out
