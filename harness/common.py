"""Shared machinery of the /verif checks.

Every check `./check Cxx --tier quick|thorough` goes through `run.py`, which

  1. makes sure the Lean project is built (`lake build`, serialised with a file lock),
  2. audits the property's registered theorems (`#print axioms`, forbidden-token grep),
  3. calls the property module's `run(ctx)` (translator-generated obligations, correspondence
     check, specification predicate on the implementation's observations, failing-input search),
  4. writes /verif/evidence/<id>.json and prints KNOWN-FINDING / VIOLATION lines.

Exit status: 0 held; 1 with a `VIOLATION property=<id> replay=<path>` line; 2 infrastructure
failure or timeout (never presented as a verdict).

The implementation under test is `$VERIF_REPO/src` (default /repo/src), put first on `sys.path`
so that it wins over the editable install; checks that spawn subprocesses pass the same through
PYTHONPATH (`ctx.child_env()`).
"""
from __future__ import annotations

import fcntl
import hashlib
import json
import os
import random
import re
import shutil
import subprocess
import sys
import tempfile
import time
from pathlib import Path

VERIF = Path(__file__).resolve().parent.parent
LEAN = VERIF / "lean"
REPO = Path(os.environ.get("VERIF_REPO", "/repo")).resolve()
SRC = REPO / "src"
EVIDENCE = Path(os.environ.get("VERIF_EVIDENCE", str(VERIF / "evidence")))
REPLAYS = EVIDENCE / "replays"
FINDINGS = VERIF / "findings"
CACHE = VERIF / ".cache"
DRIVER = LEAN / ".lake" / "build" / "bin" / "driver"
GUARD = "PYDJINNI_VERIF"
ALLOWED_AXIOMS = {"propext", "Classical.choice", "Quot.sound"}
FORBIDDEN = re.compile(r"\b(sorry|admit|native_decide|bv_decide|implemented_by|unsafe)\b|^\s*axiom\s|maxHeartbeats\s+0\b")

TRUSTED_BASE = [
    "Lean 4.33 kernel; axioms allowed: propext, Classical.choice, Quot.sound (audited by #print axioms every run)",
    "translator / correspondence harness in /verif/harness (Python): generators, adapters, canonicalisation",
    "hand-written Lean models in /verif/lean/PydjinniModel tied to /repo by the correspondence run of this check",
]


def use_repo():
    """Put the implementation under test first on sys.path and switch the hooks on."""
    os.environ[GUARD] = "1"
    p = str(SRC)
    if p in sys.path:
        sys.path.remove(p)
    sys.path.insert(0, p)


class Infra(Exception):
    """Infrastructure failure: exit 2."""


# --------------------------------------------------------------------------------------------
# Lean side
# --------------------------------------------------------------------------------------------

class _Lock:
    def __init__(self, name):
        CACHE.mkdir(exist_ok=True)
        self.path = CACHE / name

    def __enter__(self):
        self.f = open(self.path, "w")
        fcntl.flock(self.f, fcntl.LOCK_EX)
        return self

    def __exit__(self, *a):
        fcntl.flock(self.f, fcntl.LOCK_UN)
        self.f.close()


def lean_sources_digest() -> str:
    h = hashlib.sha256()
    for p in sorted(LEAN.rglob("*.lean")):
        if ".lake" in p.parts or "Generated" in p.parts:
            continue
        h.update(str(p.relative_to(LEAN)).encode())
        h.update(p.read_bytes())
    h.update((LEAN / "lakefile.toml").read_bytes())
    return h.hexdigest()


def ensure_built(timeout=3000) -> float:
    """`lake build` (library with all proofs + driver executable). No-op when sources are unchanged."""
    t0 = time.time()
    with _Lock("lake.lock"):
        stamp = CACHE / "built.digest"
        dg = lean_sources_digest()
        if stamp.exists() and stamp.read_text() == dg and DRIVER.exists():
            return time.time() - t0
        r = subprocess.run(["lake", "build"], cwd=LEAN, capture_output=True, text=True, timeout=timeout)
        if r.returncode != 0:
            raise Infra("lake build failed:\n" + (r.stdout + r.stderr)[-4000:])
        stamp.write_text(dg)
    return time.time() - t0


def lean_check_file(src: str, name: str, timeout=600) -> tuple[bool, str]:
    """Elaborate a stand-alone Lean file (e.g. translator output with its obligations) against the built
    library. Cached by content digest + library digest. Returns (ok, output)."""
    gen = LEAN / "Generated"
    gen.mkdir(exist_ok=True)
    lib = (CACHE / "built.digest").read_text() if (CACHE / "built.digest").exists() else ""
    dg = hashlib.sha256((lib + src).encode()).hexdigest()
    tag = CACHE / f"gen.{name}.{dg[:24]}"
    if tag.exists():
        return True, tag.read_text()
    # unique file name so that concurrent checks (and VERIF_REPO overrides) do not collide
    f = gen / f"{name}_{dg[:12]}.lean"
    f.write_text(src)
    try:
        r = subprocess.run(["lake", "env", "lean", str(f)], cwd=LEAN, capture_output=True, text=True, timeout=timeout)
    finally:
        try:
            f.unlink()
        except OSError:
            pass
    out = r.stdout + r.stderr
    ok = r.returncode == 0 and not re.search(r"(^|\s)error:|: error|declaration uses 'sorry'", out)
    if ok:
        CACHE.mkdir(exist_ok=True)
        tag.write_text(out)
    return ok, out


def audit_theorems(module: str, theorems: list[str]) -> dict:
    """`#print axioms` for each registered theorem; forbidden tokens in the module's source closure."""
    res = {"module": module, "theorems": {}, "forbidden": [], "ok": True}
    if not theorems:
        return res
    src = f"import {module}\n" + "\n".join(f"#print axioms {t}" for t in theorems) + "\n"
    ok, out = lean_check_file(src, "Audit_" + module.replace(".", "_"))
    if not ok and "unknown" in out:
        res["ok"] = False
    # parse:  'Name' depends on axioms: [a, b]   |   'Name' does not depend on any axioms
    flat = re.sub(r"\s+", " ", out)
    for t in theorems:
        m = re.search(r"'" + re.escape(t) + r"' (does not depend on any axioms|depends on axioms: \[([^\]]*)\])", flat)
        if not m:
            res["theorems"][t] = None
            res["ok"] = False
            continue
        axs = [a.strip() for a in (m.group(2) or "").split(",") if a.strip()]
        res["theorems"][t] = axs
        if not set(axs) <= ALLOWED_AXIOMS:
            res["ok"] = False
    # forbidden tokens anywhere in the model / proof sources (comments stripped)
    for p in sorted((LEAN / "PydjinniModel").rglob("*.lean")):
        text = p.read_text()
        text = re.sub(r"/-.*?-/", "", text, flags=re.S)
        text = re.sub(r"--.*", "", text)
        for i, line in enumerate(text.split("\n")):
            if FORBIDDEN.search(line):
                res["forbidden"].append(f"{p.relative_to(LEAN)}:{i + 1}: {line.strip()[:80]}")
    if res["forbidden"]:
        res["ok"] = False
    return res


class Driver:
    """Line protocol client of the compiled model driver (`lean/.lake/build/bin/driver`)."""

    def __init__(self):
        if not DRIVER.exists():
            raise Infra(f"driver executable missing: {DRIVER}")

    def batch(self, requests: list[dict], timeout=600) -> list[dict]:
        if not requests:
            return []
        inp = "\n".join(json.dumps(r) for r in requests) + "\n"
        r = subprocess.run([str(DRIVER)], input=inp, capture_output=True, text=True, timeout=timeout)
        lines = r.stdout.split("\n")
        if lines and lines[-1] == "":
            lines.pop()
        if r.returncode != 0 or len(lines) != len(requests):
            raise Infra(f"driver failed: rc={r.returncode} answers={len(lines)}/{len(requests)} stderr={r.stderr[-2000:]}")
        return [json.loads(l) for l in lines]

    def one(self, request: dict) -> dict:
        return self.batch([request])[0]


# --------------------------------------------------------------------------------------------
# Check context: findings, violations, evidence
# --------------------------------------------------------------------------------------------

class Ctx:
    def __init__(self, pid: str, tier: str, seed: int):
        self.pid = pid
        self.tier = tier
        self.seed = seed
        self.rng = random.Random(f"{pid}/{seed}")
        self.t0 = time.time()
        self.driver = Driver()
        self.violations: list[dict] = []
        self.known_hits: dict[str, int] = {}
        self.coverage: dict = {"evaluations": 0, "distinct_nontrivial": 0, "samples": []}
        self._distinct: set = set()
        self.assumptions: list[str] = []
        self.obligations: list[dict] = []   # {name, kind, ok, detail}
        self.stats: dict = {}
        self._tmp = None
        f = FINDINGS / f"{pid}.json"
        self.findings = json.loads(f.read_text()) if f.exists() else {"findings": [], "fixed": []}
        self._finding_keys = {e["key"]: e for e in self.findings.get("findings", [])}
        (REPLAYS / pid).mkdir(parents=True, exist_ok=True)
        for old in (REPLAYS / pid).glob("*.json"):
            old.unlink()

    # -- scratch ------------------------------------------------------------------------------
    @property
    def tmp(self) -> Path:
        if self._tmp is None:
            base = Path(os.environ.get("VERIF_TMP", "/tmp"))
            self._tmp = Path(tempfile.mkdtemp(prefix=f"verif_{self.pid}_", dir=base))
        return self._tmp

    def cleanup(self):
        if self._tmp is not None:
            shutil.rmtree(self._tmp, ignore_errors=True)

    def child_env(self, **extra) -> dict:
        env = dict(os.environ)
        env["PYTHONPATH"] = str(SRC) + (os.pathsep + env["PYTHONPATH"] if env.get("PYTHONPATH") else "")
        env[GUARD] = "1"
        env.update({k: str(v) for k, v in extra.items()})
        return env

    @property
    def quick(self) -> bool:
        return self.tier == "quick"

    def n(self, quick: int, thorough: int) -> int:
        return quick if self.quick else thorough

    # -- coverage -----------------------------------------------------------------------------
    def count(self, key=None, nontrivial=True, sample=None, n=1):
        """One evaluated case. `key` identifies what makes it distinct (hashable / json-able)."""
        self.coverage["evaluations"] += n
        if key is not None and nontrivial:
            k = key if isinstance(key, (str, int, tuple)) else json.dumps(key, sort_keys=True, default=str)
            if k not in self._distinct:
                self._distinct.add(k)
                self.coverage["distinct_nontrivial"] = len(self._distinct)
                if sample is not None and len(self.coverage["samples"]) < 6:
                    self.coverage["samples"].append(sample)

    def stat(self, name: str, inc: int = 1):
        self.stats[name] = self.stats.get(name, 0) + inc

    def obligation(self, name: str, ok: bool, kind: str = "theorem", detail: str = ""):
        self.obligations.append({"name": name, "kind": kind, "ok": bool(ok), "detail": detail[:400]})

    # -- verdicts -----------------------------------------------------------------------------
    def report(self, key: str, what: str, replay: dict, no_failing_input: bool = False):
        """A property failure on a concrete input (or a broken obligation/correspondence without one).
        `key` is the shape signature: listed in findings/<id>.json -> KNOWN-FINDING, otherwise VIOLATION."""
        if key in self._finding_keys and not no_failing_input:
            if key not in self.known_hits:
                print(f"KNOWN-FINDING: property={self.pid} {key}: {self._finding_keys[key].get('what', what)}", flush=True)
            self.known_hits[key] = self.known_hits.get(key, 0) + 1
            return False
        n = len(self.violations)
        if n < 25:
            path = REPLAYS / self.pid / f"{n:03d}.json"
            body = {"property": self.pid, "tier": self.tier, "seed": self.seed, "key": key, "what": what,
                    "no_failing_input_found": no_failing_input, **replay}
            path.write_text(json.dumps(body, indent=1, default=str))
            tail = " no-failing-input-found" if no_failing_input else ""
            print(f"VIOLATION property={self.pid} replay={path}{tail}", flush=True)
        self.violations.append({"key": key, "what": what})
        return True

    def expect_known(self):
        """Print a KNOWN-FINDING line for listed findings whose witness was not exercised this run."""
        for key, e in self._finding_keys.items():
            if key not in self.known_hits:
                print(f"KNOWN-FINDING: property={self.pid} {key}: {e.get('what', '')} (witness not re-run this tier)", flush=True)

    # -- evidence -----------------------------------------------------------------------------
    def write_evidence(self, level: str, module: str, audit: dict, checker_cmd: str, extra_trusted=()):
        obligations = list(self.obligations)
        for t, axs in audit.get("theorems", {}).items():
            obligations.append({"name": t, "kind": "theorem", "ok": axs is not None and set(axs) <= ALLOWED_AXIOMS,
                                "detail": "axioms: " + (", ".join(axs) if axs else "none") if axs is not None else "missing"})
        cov = dict(self.coverage)
        if not cov["samples"]:
            cov["samples"] = ["(no sample recorded)"]
        cov.update({
            "obligations": len(obligations),
            "discharged": sum(1 for o in obligations if o["ok"]),
            "obligation_list": obligations,
            "checker_cmd": checker_cmd,
            "trusted_base": TRUSTED_BASE + list(extra_trusted),
            "axioms": audit.get("theorems", {}),
            "forbidden_tokens": audit.get("forbidden", []),
            "stats": self.stats,
            "known_findings_hit": self.known_hits,
            "rule": self.coverage.get("rule", "distinct = distinct case key as reported by the property module"),
        })
        ev = {
            "property_id": self.pid, "tier": self.tier, "seed": self.seed, "level": level,
            "coverage": cov, "assumptions": self.assumptions,
            "wall_s": round(time.time() - self.t0, 2), "violations": len(self.violations),
        }
        EVIDENCE.mkdir(exist_ok=True)
        (EVIDENCE / f"{self.pid}.json").write_text(json.dumps(ev, indent=1, default=str))
        return ev


def sha(s: str | bytes) -> str:
    if isinstance(s, str):
        s = s.encode()
    return hashlib.sha256(s).hexdigest()
