"""Entry point of every check: `python run.py Cxx [--tier quick|thorough] [--replay file]`."""
from __future__ import annotations

import argparse
import importlib
import json
import os
import signal
import sys
import time
import traceback
from pathlib import Path

sys.path.insert(0, str(Path(__file__).resolve().parent))
import common  # noqa: E402


def main() -> int:
    ap = argparse.ArgumentParser()
    ap.add_argument("pid")
    ap.add_argument("--tier", default=os.environ.get("VERIF_TIER", "quick"), choices=["quick", "thorough"])
    ap.add_argument("--replay", default=None)
    ap.add_argument("--seed", type=int, default=int(os.environ.get("VERIF_SEED", "0") or 0))
    args = ap.parse_args()
    pid = args.pid.upper()

    limit = int(os.environ.get("VERIF_TIMEOUT", "900" if args.tier == "quick" else "7200"))

    def on_alarm(*_):
        print(f"TIMEOUT property={pid} after {limit}s (infrastructure, not a verdict)", flush=True)
        os._exit(2)

    signal.signal(signal.SIGALRM, on_alarm)
    signal.alarm(limit)

    try:
        common.use_repo()
        common.ensure_built()
        mod = importlib.import_module(f"props.{pid.lower()}")
        ctx = common.Ctx(pid, args.tier, args.seed)
    except common.Infra as e:
        print(f"INFRA property={pid}: {e}", flush=True)
        return 2

    rc = 0
    try:
        audit = common.audit_theorems(mod.LEAN_MODULE, list(mod.THEOREMS))
        if args.replay:
            ok = mod.replay(ctx, json.loads(Path(args.replay).read_text()))
            print(("REPLAY reproduces the failure" if not ok else "REPLAY passes") + f" property={pid}", flush=True)
            return 0 if ok else 1
        mod.run(ctx)
        if args.tier == "thorough":
            # independent re-check of the compiled property module (and everything it imports from this project)
            import subprocess
            try:
                r = subprocess.run(["lake", "env", "leanchecker", mod.LEAN_MODULE], cwd=common.LEAN, capture_output=True, text=True, timeout=1800)
                ctx.obligation("leanchecker " + mod.LEAN_MODULE, r.returncode == 0, kind="leanchecker", detail=(r.stdout + r.stderr)[-300:])
            except subprocess.TimeoutExpired:
                ctx.stats["leanchecker"] = "timeout (not a verdict)"
        if not audit["ok"]:
            # a registered theorem no longer checks (or uses a forbidden axiom/token): the property is no
            # longer shown to hold. If run() found no concrete failing input, say so.
            broken = [t for t, a in audit["theorems"].items() if a is None or not set(a) <= common.ALLOWED_AXIOMS]
            if not ctx.violations:
                ctx.report("proof-obligation", "registered theorem(s) no longer check: " + ", ".join(broken or audit["forbidden"][:3]),
                           {"theorems": broken, "forbidden": audit["forbidden"], "module": mod.LEAN_MODULE}, no_failing_input=True)
        for o in ctx.obligations:
            if not o["ok"] and not ctx.violations:
                ctx.report("generated-obligation", f"generated obligation {o['name']} no longer checks",
                           {"obligation": o}, no_failing_input=True)
        if getattr(mod, "PRINT_UNHIT_KNOWN", True):
            ctx.expect_known()
        checker = f"cd /verif/lean && lake build && lake env lean <#print axioms {mod.LEAN_MODULE}>; ./check {pid} --tier {args.tier}"
        ctx.write_evidence(getattr(mod, "LEVEL", "proof"), mod.LEAN_MODULE, audit, checker, getattr(mod, "TRUSTED", ()))
        rc = 1 if ctx.violations else 0
    except common.Infra as e:
        print(f"INFRA property={pid}: {e}", flush=True)
        rc = 2
    except subprocess_timeout() as e:  # pragma: no cover
        print(f"TIMEOUT property={pid}: {e}", flush=True)
        rc = 2
    except Exception:
        print(f"INFRA property={pid}: harness exception\n{traceback.format_exc()}", flush=True)
        rc = 2
    finally:
        ctx.cleanup()
    print(f"{pid} tier={args.tier} seed={args.seed} rc={rc} wall={time.time() - ctx.t0:.1f}s evaluations={ctx.coverage['evaluations']} "
          f"distinct={ctx.coverage['distinct_nontrivial']} violations={len(ctx.violations)} known={sum(ctx.known_hits.values())}", flush=True)
    return rc


def subprocess_timeout():
    import subprocess
    return subprocess.TimeoutExpired


if __name__ == "__main__":
    sys.exit(main())
