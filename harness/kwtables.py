"""Reserved-identifier clause of C01: translator, correspondence and failing-input search.

Model and theorems: `lean/PydjinniModel/Gen/Keywords.lean`, `Props/C01Keywords.lean`.  On every run, from the
repository under test:

(a) `live_tables`      the `LanguageKeywords` objects the generators' `type.py` modules validate against
(b) `property_rows`    by `ast`: every name-producing property/method of every `type.py` (a body that calls
                       `.convert(...)` / `.title()`), the identifier style keys it reads and its `@validate`
                       decorators (table, separator) in application order
    `print_sites`      by walking the Jinja template ASTs with a small type inference over the pydantic AST
                       classes: where a name-producing attribute of `<decl>.<generator>` is printed, bare or
                       glued to literal identifier characters (`field_{{ f.jni.name }}`)
    `lean_source`      the tables as a Lean file whose obligations (`decide +kernel`) are
                       reference ⊆ live per language, `rowModelled` per property, `siteOk` per print site
(c) `evaluate`         one program that uses every name of the run's pool in every role, parsed under several
                       identifier-style configurations by the real API; every name property of every marshalling
                       object is evaluated and compared with `nameOutcome` (driver op `c01.kwname`);
    `spec_candidates`  (specification on the implementation's observation) a property that *returned* a reserved
                       word of its language's reference table; `confirm` turns a candidate into a concrete program
                       whose generated code contains the word as an identifier (g++ / javac as judges where they
                       exist, token comparison with a twin program elsewhere).
"""
from __future__ import annotations

import ast
import importlib
import inspect
import json
import os
import random
import re
import shutil
import types
import typing
from pathlib import Path

GEN_MODULES = {"cpp": "cpp.cpp", "java": "java.java", "jni": "java.jni", "objc": "objc.objc", "objcpp": "objc.objcpp", "cppcli": "cppcli.cppcli"}
LANGS = ["C++", "Java", "Objective-C", "C++/CLI", "Swift"]
TARGET_OF_GEN = {"cpp": "cpp", "java": "java", "jni": "java", "objc": "objc", "objcpp": "objc", "cppcli": "cppcli"}
IDENT = re.compile(r"^[A-Za-z][A-Za-z0-9_]*$")


# ---------------------------------------------------------------------------------------------------
# (a) live keyword tables
# ---------------------------------------------------------------------------------------------------

def type_module(gen: str):
    return importlib.import_module(f"pydjinni.generator.{GEN_MODULES[gen]}.type")


def live_tables() -> dict:
    """language -> keyword list, from every `LanguageKeywords` object visible in a generator's `type.py`"""
    from pydjinni.generator.validator import LanguageKeywords
    out = {}
    for gen in GEN_MODULES:
        for v in vars(type_module(gen)).values():
            if isinstance(v, LanguageKeywords):
                out.setdefault(str(v.language), [str(k) for k in v.keywords])
    return out


# ---------------------------------------------------------------------------------------------------
# (b1) name-producing properties of the live type.py files
# ---------------------------------------------------------------------------------------------------

def _style_of(arg) -> str | None:
    """`self.config.identifier.<k>` -> k ; `IdentifierStyle.Case.<k>` -> '=<k>'"""
    if isinstance(arg, ast.Attribute):
        inner = arg.value
        if isinstance(inner, ast.Attribute) and inner.attr == "identifier":
            return arg.attr
        if isinstance(inner, ast.Attribute) and inner.attr == "Case":
            return "=" + arg.attr
    return None


def property_rows() -> list[dict]:
    from pydjinni.generator.validator import LanguageKeywords
    rows = []
    for gen in GEN_MODULES:
        mod = type_module(gen)
        tree = ast.parse(Path(inspect.getsourcefile(mod)).read_text())
        found = {}          # (qualname, attr) -> row
        bases = {}          # qualname -> [base names]

        def visit_class(node: ast.ClassDef, prefix: str):
            q = prefix + node.name
            bases[q] = [b.id if isinstance(b, ast.Name) else (b.attr if isinstance(b, ast.Attribute) else "?") for b in node.bases]
            for item in node.body:
                if isinstance(item, ast.ClassDef):
                    visit_class(item, q + ".")
                elif isinstance(item, (ast.FunctionDef, ast.AsyncFunctionDef)):
                    styles, producing, supers = [], False, []
                    for n in ast.walk(item):
                        if isinstance(n, ast.Call) and isinstance(n.func, ast.Attribute):
                            if n.func.attr == "convert":
                                producing = True
                                st = _style_of(n.args[0]) if n.args else None
                                st = st if st is not None else "?"
                                if st not in styles:
                                    styles.append(st)
                            elif n.func.attr == "title" and not n.args:
                                producing = True
                        if isinstance(n, ast.Attribute) and isinstance(n.value, ast.Call) and isinstance(n.value.func, ast.Name) \
                                and n.value.func.id == "super":
                            supers.append(n.attr)
                    checks = []
                    for d in item.decorator_list:          # top to bottom = outermost first
                        if isinstance(d, ast.Call) and isinstance(d.func, ast.Name) and d.func.id == "validate":
                            kwv = d.args[0] if d.args else next((k.value for k in d.keywords if k.arg == "language_keywords"), None)
                            sepv = d.args[1] if len(d.args) > 1 else next((k.value for k in d.keywords if k.arg == "separator"), None)
                            obj = getattr(mod, kwv.id, None) if isinstance(kwv, ast.Name) else None
                            lang = str(obj.language) if isinstance(obj, LanguageKeywords) else "?"
                            sep = sepv.value if isinstance(sepv, ast.Constant) else (None if sepv is None else "?")
                            checks.append([lang, sep if sep else None])
                    found[(q, item.name)] = {"gen": gen, "cls": q, "attr": item.name, "styles": styles, "producing": producing,
                                             "supers": supers, "checks": list(reversed(checks)), "line": item.lineno}
        for node in tree.body:
            if isinstance(node, ast.ClassDef):
                visit_class(node, "")

        def parent_row(q, attr, depth=0):
            for b in bases.get(q, []):
                cands = [k for k in bases if k == b or k.endswith("." + b)]
                for c in cands:
                    if (c, attr) in found:
                        return found[(c, attr)]
                    r = parent_row(c, attr, depth + 1) if depth < 8 else None
                    if r:
                        return r
            return None
        # `super().name`: the styles of the overridden definition count too (JavaFunction.name, CppRecord.name)
        for (q, attr), row in found.items():
            if row["producing"] and attr in row["supers"]:
                p = parent_row(q, attr)
                if p:
                    for st in p["styles"]:
                        if st not in row["styles"]:
                            row["styles"].append(st)
        for row in found.values():
            if row["producing"] and not (row["styles"] and all(s == "file" for s in row["styles"])):
                rows.append({k: row[k] for k in ("gen", "cls", "attr", "styles", "checks", "line")})
    return sorted(rows, key=lambda r: (r["gen"], r["cls"], r["attr"]))


# ---------------------------------------------------------------------------------------------------
# (b2) print sites in the live templates
# ---------------------------------------------------------------------------------------------------

def generators():
    from pydjinni import API
    api = API()
    return [g for t in api.generation_targets.values() for g in t.generator_instances]


class _M:
    """static type: the marshalling object of generator `gen` attached to a declaration of AST class `cls` (None = unknown)"""
    def __init__(self, gen, cls):
        self.gen, self.cls = gen, cls


class _Direct:
    """static type: one of these marshalling classes itself (`for p in method.objc.parameters`)"""
    def __init__(self, gen, classes):
        self.gen, self.classes = gen, classes


def print_sites(gens=None) -> tuple[list[dict], list[dict]]:
    """-> (sites, untyped): sites = [{tmpl_gen, gen, cls, attr, bare, glued, where}], one per (template generator,
    marshalling generator, defining class, attribute)"""
    from jinja2 import nodes
    from pydantic import BaseModel
    from pydjinni.parser import ast as A
    from pydjinni.parser import base_models as B
    gens = gens or generators()
    by_key = {g.key: g for g in gens if g.key in GEN_MODULES}
    stems = {"enum": A.Enum, "flags": A.Flags, "record": A.Record, "interface": A.Interface, "function": A.Function, "error_domain": A.ErrorDomain}
    ast_classes = [c for m in (A, B) for c in vars(m).values() if isinstance(c, type) and issubclass(c, BaseModel)]
    for c in list(ast_classes):
        for v in vars(c).values():
            if isinstance(v, type) and issubclass(v, BaseModel) and v not in ast_classes:
                ast_classes.append(v)

    def elem(ann):
        o = typing.get_origin(ann)
        if o in (list, set):
            (a,) = typing.get_args(ann)
            e = elem(a)
            return ("list", e[1]) if e and e[0] == "one" else None
        if o in (typing.Union, types.UnionType):
            for a in typing.get_args(ann):
                e = elem(a)
                if e:
                    return e
            return None
        if o is typing.Annotated:
            return elem(typing.get_args(ann)[0])
        if isinstance(ann, type) and issubclass(ann, BaseModel):
            return ("one", ann)
        return None

    def field_type(cls, attr):
        """annotation of `attr` on the AST class, or — when the static class does not have it — the unique annotation any
        AST class gives it (`type_ref.type_def.error_codes`)"""
        if cls is not None and attr in getattr(cls, "model_fields", {}):
            return elem(cls.model_fields[attr].annotation)
        cands = []
        for c in ast_classes:
            if attr in c.model_fields:
                e = elem(c.model_fields[attr].annotation)
                if e is not None and e not in cands:
                    cands.append(e)
        return cands[0] if len(cands) == 1 else None

    def marshal_classes(gen, cls):
        """marshalling classes `decl.<gen>` can have when `decl` is statically a `cls`"""
        mm = by_key[gen].marshal_models
        if cls is None:
            return list(dict.fromkeys(mm.values()))
        out = []
        # the class itself (first registered base, as Generator.marshal does) …
        queue = [cls]
        while queue:
            c = queue.pop(0)
            if c in (B.BaseExternalType, BaseModel, object):
                continue
            if mm.get(c):
                out.append(mm[c])
                break
            queue += list(c.__bases__)
        # … and every registered subclass (a `BaseType`-typed expression may hold any declaration)
        for k, v in mm.items():
            if isinstance(k, type) and issubclass(k, cls) and v not in out:
                out.append(v)
        return out

    def definer(mc, attr):
        for k in mc.__mro__:
            if attr in vars(k):
                return k
        return None

    def hints_of(mc, attr):
        d = definer(mc, attr)
        if d is None:
            return None
        f = vars(d)[attr]
        f = getattr(f, "wrapped", f)            # pydantic's computed_field proxy
        fn = getattr(f, "fget", None) or getattr(f, "func", None) or (f if callable(f) else None)
        fn = getattr(fn, "__wrapped__", fn)
        try:
            ret = typing.get_type_hints(fn, vars(inspect.getmodule(d)), dict(vars(d))).get("return")
        except Exception:
            return None
        if typing.get_origin(ret) is list:
            args = typing.get_args(ret)[0]
            cls = [a for a in (typing.get_args(args) if typing.get_origin(args) in (typing.Union, types.UnionType) else [args]) if isinstance(a, type)]
            return cls or None
        return None

    def typeof(n, env):
        if isinstance(n, nodes.Name):
            return env.get(n.name)
        if isinstance(n, nodes.Getattr):
            t = typeof(n.node, env)
            if isinstance(t, (_M, _Direct)):
                # attribute of a marshalling object: a list-valued property gives its element classes
                classes = marshal_classes(t.gen, t.cls) if isinstance(t, _M) else t.classes
                out = []
                for mc in classes:
                    h = hints_of(mc, n.attr)
                    for c in h or []:
                        if c not in out:
                            out.append(c)
                return ("mlist", t.gen, out) if out else None
            cls = t[1] if (isinstance(t, tuple) and t[0] == "one") else None
            if n.attr in by_key and (t is None or cls is not None):
                return _M(n.attr, cls)
            return field_type(cls, n.attr)
        if isinstance(n, nodes.Filter) and n.node is not None and n.name in ("sort", "list", "reverse", "unique", "select", "reject", "selectattr", "rejectattr"):
            return typeof(n.node, env)
        return None

    acc = {}
    untyped = []
    ident_tail = re.compile(r"[A-Za-z0-9_]+$")
    ident_head = re.compile(r"^[A-Za-z0-9_]+")

    def record(g, rel, node, t, attr, glue):
        if isinstance(t, _M):
            classes = marshal_classes(t.gen, t.cls)
            gen = t.gen
        else:
            classes, gen = t.classes, t.gen
        defs = []
        for mc in classes:
            d = definer(mc, attr)
            if d is not None and d.__module__.startswith("pydjinni.generator") and d.__qualname__ not in defs:
                defs.append(d.__qualname__)
        for q in defs:
            e = acc.setdefault((g.key, gen, q, attr), {"tmpl_gen": g.key, "gen": gen, "cls": q, "attr": attr, "bare": 0, "glued": [], "where": []})
            if glue is None:
                e["bare"] += 1
            elif list(glue) not in e["glued"]:
                e["glued"].append(list(glue))
            if len(e["where"]) < 3:
                e["where"].append(f"{rel}:{node.lineno}")

    def walk(n, env, printed, g, rel, glue=None):
        if isinstance(n, nodes.For):
            it = typeof(n.iter, env)
            env2 = dict(env)
            if isinstance(n.target, nodes.Name):
                if isinstance(it, tuple) and it[0] == "list":
                    env2[n.target.name] = ("one", it[1])
                elif isinstance(it, tuple) and it[0] == "mlist":
                    env2[n.target.name] = _Direct(it[1], it[2])
                else:
                    env2[n.target.name] = None
            walk(n.iter, env, False, g, rel)
            for b in list(n.body) + list(n.else_):
                walk(b, env2, printed, g, rel)
            if n.test is not None:
                walk(n.test, env2, False, g, rel)
            return
        if isinstance(n, nodes.Assign) and isinstance(n.target, nodes.Name):
            walk(n.node, env, False, g, rel)
            v = typeof(n.node, env)
            env[n.target.name] = ("one", v[1]) if (isinstance(v, tuple) and v[0] == "one") else (v if isinstance(v, (_M, _Direct)) else None)
            return
        if isinstance(n, nodes.Macro):
            env2 = dict(env)
            for a in n.args:
                env2[a.name] = None            # parameters are typed by what is read from them, not by an outer variable of the same name
            for b in n.body:
                walk(b, env2, printed, g, rel)
            return
        if isinstance(n, nodes.Getattr):
            t = typeof(n.node, env)
            if isinstance(t, (_M, _Direct)):
                if printed:
                    record(g, rel, n, t, n.attr, glue)
            elif printed and isinstance(n.node, nodes.Getattr) and n.node.attr in by_key:
                untyped.append({"tmpl_gen": g.key, "tmpl": str(rel), "line": n.lineno, "expr": f"….{n.node.attr}.{n.attr}"})
        if isinstance(n, nodes.Output):
            kids = list(n.nodes)
            for i, c in enumerate(kids):
                gl = None
                if isinstance(c, nodes.Getattr):
                    pre = kids[i - 1].data if i > 0 and isinstance(kids[i - 1], nodes.TemplateData) else ""
                    post = kids[i + 1].data if i + 1 < len(kids) and isinstance(kids[i + 1], nodes.TemplateData) else ""
                    p = ident_tail.search(pre)
                    s = ident_head.search(post)
                    if p or s:
                        gl = (p.group(0) if p else "", s.group(0) if s else "")
                walk(c, env, True, g, rel, gl)
            return
        if isinstance(n, nodes.If):
            walk(n.test, env, False, g, rel)
            for b in list(n.body) + list(n.elif_) + list(n.else_):
                walk(b, env, printed, g, rel)
            return
        if isinstance(n, nodes.CondExpr):
            walk(n.test, env, False, g, rel)
            walk(n.expr1, env, printed, g, rel)
            if n.expr2 is not None:
                walk(n.expr2, env, printed, g, rel)
            return
        if isinstance(n, (nodes.Test, nodes.Compare)):
            printed = False
        for c in n.iter_child_nodes():
            walk(c, env, printed, g, rel)

    ntemplates = 0
    for g in by_key.values():
        tdir = g._generator_directory / "templates"
        if not tdir.exists():
            continue
        files = sorted(f for f in tdir.rglob("*") if f.is_file())
        base = [f for f in files if f.name.split(".")[0] == "base"]
        for f in files:
            stem = f.name.split(".")[0]
            if stem == "base":
                continue
            ntemplates += 1
            kind = stems.get(stem)
            env = {"type_def": ("one", kind)} if kind else {}
            for ff in [f] + (base if kind else []):
                rel = ff.relative_to(tdir)
                walk(g._jinja_env.parse(g.template_preprocessing(rel)), env, False, g, rel)
        ntemplates += len(base)
    return sorted(acc.values(), key=lambda e: (e["tmpl_gen"], e["gen"], e["cls"], e["attr"])), untyped


# ---------------------------------------------------------------------------------------------------
# generated Lean file
# ---------------------------------------------------------------------------------------------------

def lean_lit(s: str) -> str:
    out = ['"']
    for ch in s:
        if ch in '"\\':
            out.append("\\" + ch)
        elif ch == "\n":
            out.append("\\n")
        elif 32 <= ord(ch) < 127:
            out.append(ch)
        else:
            out.append("\\u{%x}" % ord(ch))
    out.append('"')
    return "".join(out)


def _opt(s):
    return "none" if s is None else f"(some {lean_lit(s)})"


def _chunks(xs, n):
    return [xs[i:i + n] for i in range(0, len(xs), n)] or [[]]


def lean_source(tables: dict, rows: list[dict], sites: list[dict]) -> tuple[str, list[str]]:
    """-> (source, obligation names in the order they appear)"""
    L = ["import PydjinniModel.Props.C01Keywords", "open Pydjinni.Gen.Keywords", "namespace C01KwGen", "",
         "/-- keyword lists of the live generators (`LanguageKeywords.keywords`) -/",
         "def live : Tables := {"]
    fields = [("cxx", "C++"), ("java", "Java"), ("objc", "Objective-C"), ("cli", "C++/CLI"), ("swift", "Swift")]
    L.append(",\n".join(f"  {f} := [{', '.join(lean_lit(w) for w in tables.get(lang, []))}]" for f, lang in fields))
    L.append("}")
    L.append("")
    names = []
    for f, lang in fields[:4]:
        name = f"reference_sub_live_{f}"
        names.append(name)
        L.append(f"/-- every reserved word of {lang} (reference table) is in the live table -/")
        L.append(f"theorem {name} : refCovered live .{f} = true := by decide +kernel")
    L.append("")
    L.append("/-- name-producing properties of the live `type.py` files -/")
    L.append("def rows : List PropRow := [")
    L.append(",\n".join(
        "  ⟨{}, {}, {}, [{}], [{}]⟩".format(lean_lit(r["gen"]), lean_lit(r["cls"]), lean_lit(r["attr"]), ", ".join(lean_lit(s) for s in r["styles"]),
                                          ", ".join(f"({lean_lit(c[0])}, {_opt(c[1])})" for c in r["checks"])) for r in rows))
    L.append("]")
    L.append("")
    for gen in GEN_MODULES:
        name = f"rows_modelled_{gen}"
        names.append(name)
        L.append(f"/-- every name-producing property of {gen}/type.py is the one `specTable` models: same style key, same `@validate` decorators -/")
        L.append(f"theorem {name} : (rows.filter (fun r => r.gen == {lean_lit(gen)})).all rowModelled = true := by decide +kernel")
    L.append("")
    L.append("/-- where the live templates print a name-producing attribute of `<decl>.<generator>` -/")
    L.append("def sites : List Site := [")
    L.append(",\n".join(
        "  ⟨{}, {}, {}, {}, {}, [{}]⟩".format(lean_lit(s["tmpl_gen"]), lean_lit(s["gen"]), lean_lit(s["cls"]), lean_lit(s["attr"]), s["bare"],
                                           ", ".join(f"({lean_lit(p)}, {lean_lit(q)})" for p, q in s["glued"])) for s in sites))
    L.append("]")
    L.append("")
    for gen in sorted({s["tmpl_gen"] for s in sites} | set(GEN_MODULES)):
        name = f"printed_roles_validated_{gen}"
        names.append(name)
        L.append(f"/-- every identifier role the {gen} templates print is validated against its language, harmless by construction, or a listed finding -/")
        L.append(f"theorem {name} : (sites.filter (fun s => s.tmplGen == {lean_lit(gen)})).all (siteOk live rows) = true := by decide +kernel")
    L += ["", "end C01KwGen", ""]
    return "\n".join(L), names


def failed_obligations(src: str, names: list[str], ok: bool, out: str) -> list[str]:
    """attribute elaboration errors to the theorem whose source lines contain them"""
    if ok:
        return []
    lines = src.split("\n")
    starts = sorted((next(i for i, l in enumerate(lines) if l.startswith(f"theorem {n} ")) + 1, n) for n in names)
    failed = []
    for m in re.finditer(r":(\d+):\d+:\s*error", out):
        ln = int(m.group(1))
        owner = None
        for s, n in starts:
            if s <= ln:
                owner = n
        if owner and owner not in failed:
            failed.append(owner)
    return failed or list(names)


# ---------------------------------------------------------------------------------------------------
# (c) evaluation of the real properties
# ---------------------------------------------------------------------------------------------------

MEMBER_ROLES = ["enum_item", "flag", "field", "method", "param", "error_code", "error_param", "fn_param"]
TYPE_ROLES = ["enum", "record", "base_record", "function", "interface", "error", "flags"]


def idl_keywords() -> set[str]:
    from pydjinni.parser.grammar.IdlLexer import IdlLexer
    return {x.strip("'") for x in IdlLexer.literalNames if x[1:2].isalpha()}


def variants(w: str) -> list[str]:
    vs = [w, w.capitalize(), w.upper(), w + "_", w.replace("_", "__") if "_" in w else w[0].upper() + w[1:] + "_"]
    if "_" in w:
        vs.append("_".join(p.capitalize() for p in w.split("_")))
    return [v for v in dict.fromkeys(vs) if IDENT.match(v)]


def name_pool(seed, tables: dict, reference: dict, n_random: int) -> list[str]:
    """names of the run: every reference word missing from its live table and a fixed core verbatim (so that a dropped word or a
    dropped decorator is always exercised), plus seeded samples of table words in several spellings"""
    r = random.Random(f"{seed}/c01/kwpool")
    kw = idl_keywords()
    words = sorted({w for t in list(tables.values()) + list(reference.values()) for w in t if IDENT.match(w)})
    must = []
    for lang, ref in reference.items():
        must += [w for w in ref if w not in tables.get(lang, []) and IDENT.match(w)]
        have = [w for w in ref if IDENT.match(w)]
        must += [have[(seed * 7 + k * 11) % len(have)] for k in range(3)] if have else []
    must += ["class", "delete", "native", "gcnew", "int", "co_await", "Class", "Delete", "CLASS", "co__await", "Co_Await", "delete_", "int_"]
    pool = list(dict.fromkeys(must))
    cand = [v for w in words for v in variants(w)]
    r.shuffle(cand)
    for v in cand:
        if len(pool) >= len(dict.fromkeys(must)) + n_random:
            break
        if v not in pool:
            pool.append(v)
    return [p for p in pool if p not in kw]


def program_of(names: list[str]) -> tuple[str, dict]:
    """one program that uses every name in every role. -> (text, recipes) with recipes[(namespace tuple, decl name, member path)] = (role, name)"""
    out = []
    rec = {}
    tgt = "+cpp +java +objc +cppcli"
    for i, n in enumerate(names):
        out.append(f"namespace kt{i} {{ {n} = enum {{ a; }} }}")
        out.append(f"namespace kl{i} {{ {n} = flags {{ a; }} }}")
        out.append(f"namespace kr{i} {{ {n} = record {{ a: i32; }} }}")
        out.append(f"namespace kb{i} {{ {n} = record {tgt} {{ a: i32; }} }}")
        out.append(f"namespace kf{i} {{ {n} = function (a: i32); }}")
        out.append(f"namespace ki{i} {{ {n} = interface +cpp {{ m(); }} }}")
        out.append(f"namespace kd{i} {{ {n} = error {{ c; }} }}")
        out.append(f"namespace kn{i}.{n}.z {{ t = enum {{ a; }} }}")
        for tag, role in (("kt", "enum"), ("kl", "flags"), ("kr", "record"), ("kb", "base_record"), ("kf", "function"), ("ki", "interface"), ("kd", "error")):
            rec[((f"{tag}{i}",), n)] = (role, n)
        rec[((f"kn{i}", n, "z"), "t")] = ("namespace", n)
    for j, chunk in enumerate(_chunks(names, 8)):
        out.append(f"ke{j} = enum {{ " + " ".join(f"{n};" for n in chunk) + " }")
        out.append(f"kg{j} = flags {{ " + " ".join(f"{n};" for n in chunk) + " }")
        out.append(f"kq{j} = record {{ " + " ".join(f"{n}: i32;" for n in chunk) + " }")
        out.append(f"km{j} = interface +cpp {{ " + " ".join(f"{n}();" for n in chunk) + " }")
        out.append(f"kp{j} = interface +cpp {{ m(" + ", ".join(f"{n}: i32" for n in chunk) + "); }")
        out.append(f"kc{j} = error {{ " + " ".join(f"{n};" for n in chunk) + " }")
        out.append(f"kx{j} = error {{ c(" + " ".join(f"{n}: i32" for n in chunk) + "); }")
        out.append(f"ky{j} = function (" + ", ".join(f"{n}: i32" for n in chunk) + ");")
    out.append("ka = interface +cpp { m(cb: (x: i32) -> bool); }")
    return "\n".join(out) + "\n", rec


MINI = {
    "enum": "{n} = enum {{ a; }}", "flags": "{n} = flags {{ a; }}", "record": "{n} = record {{ a: i32; }}",
    "base_record": "{n} = record {t} {{ a: i32; }}\nuser = record {{ v: {n}; }}",
    "function": "{n} = function (a: i32);", "interface": "{n} = interface +cpp {{ m(); }}", "error": "{n} = error {{ c; }}",
    "namespace": "namespace {n} {{ t = enum {{ a; }} }}",
    "enum_item": "e = enum {{ {n}; other; }}", "flag": "f = flags {{ {n}; other; }}", "field": "r = record {{ {n}: i32; b: string; }}",
    "method": "i = interface +cpp {{ {n}(a: i32); }}", "param": "i = interface +cpp {{ m({n}: i32) -> i32; }}",
    "error_code": "er = error {{ {n}; other(a: i32); }}", "error_param": "er = error {{ c({n}: i32); }}", "fn_param": "fn = function ({n}: i32) -> bool;",
}
BUILTIN_LIKE = {"bool", "i8", "i16", "i32", "i64", "f32", "f64", "string", "binary", "date", "list", "set", "map", "void"}


def mini_program(role: str, name: str, gen: str) -> str:
    text = MINI[role].format(n=name, t="+" + TARGET_OF_GEN[gen])
    if role in TYPE_ROLES and name in BUILTIN_LIKE:
        text = "namespace q {\n" + text + "\n}"
    return text


STYLE_KEYS = {}      # generator -> identifier style keys (filled from the live config models)


def style_keys() -> dict:
    if not STYLE_KEYS:
        for gen in GEN_MODULES:
            try:
                cfg = importlib.import_module(f"pydjinni.generator.{GEN_MODULES[gen]}.config")
            except ImportError:
                continue
            for v in vars(cfg).values():
                if isinstance(v, type) and hasattr(v, "model_fields") and "identifier" in v.model_fields:
                    ident = v.model_fields["identifier"].annotation
                    if hasattr(ident, "model_fields"):
                        STYLE_KEYS[gen] = sorted(ident.model_fields)
            STYLE_KEYS.setdefault(gen, [])
    return STYLE_KEYS


CASES = ["none", "camelCase", "PascalCase", "snake_case", "kebab-case", "TRAIN_CASE"]


def style_variant(kind: str, r: random.Random | None = None) -> dict:
    """a configuration variant (merged over genrun.default_config) that sets every identifier style but `file`"""
    v = {}
    for gen, keys in style_keys().items():
        ident = {}
        for k in keys:
            if k == "file":
                continue
            if kind == "random":
                case = r.choice(CASES if k not in ("namespace", "package") else [c for c in CASES if c != "kebab-case"])
                ident[k] = {"style": case, "prefix": r.choice(["", "x", "K_"])} if r.random() < 0.25 else case
            else:
                ident[k] = kind
        if ident:
            v[gen] = {"identifier": ident}
    if kind == "none":
        v.setdefault("objc", {})["type_prefix"] = ""
    return v


def configs(seed, n_random: int) -> list[tuple[str, dict]]:
    import genrun
    out = [("default", genrun.default_config()), ("all-none", genrun.default_config(variant=style_variant("none"))),
           ("all-snake", genrun.default_config(variant=style_variant("snake_case"))),
           ("all-camel", genrun.default_config(variant=style_variant("camelCase")))]
    for i in range(n_random):
        r = random.Random(f"{seed}/c01/kwcfg/{i}")
        out.append((f"random-{i}", genrun.default_config(variant=style_variant("random", r))))
    return out


def _eval_worker(args):
    """parse the pool program under one configuration with the real API and evaluate every name property"""
    base, idx, text, recipes, config, rows = args
    import signal

    class Hang(BaseException):
        pass

    def on_alarm(*_):
        raise Hang()
    signal.signal(signal.SIGALRM, on_alarm)
    signal.alarm(120)
    root = Path(base) / f"kw_{idx}"
    shutil.rmtree(root, ignore_errors=True)
    root.mkdir(parents=True)
    res = {"kind": "ok", "tuples": [], "cfg": None}
    try:
        from pydjinni import API
        from pydjinni.exceptions import ApplicationException, ApplicationExceptionList
        from pydjinni.generator.validator import InvalidIdentifierException
        from pydjinni.parser import ast as A
        (root / "m.djinni").write_text(text)
        os.chdir(root)
        api = API()
        ctx = api.configure(options=config)
        try:
            gen = ctx.parse(root / "m.djinni")
        except ApplicationExceptionList as e:
            return {"kind": "front", "msg": "; ".join(f"{type(i).__name__}: {getattr(i, 'description', '')}" for i in e.items)[:400], "tuples": []}
        except ApplicationException as e:
            return {"kind": "front", "msg": f"{type(e).__name__}: {getattr(e, 'description', '')}"[:400], "tuples": []}
        gens = {g.key: g for t in api.generation_targets.values() for g in t.generator_instances}
        # what the model needs of the configuration, as the configured generators see it
        cfg = {"styles": [], "base": [], "objc_prefix": ""}
        for k, g in gens.items():
            if k not in GEN_MODULES or g.config is None:
                continue
            ident = getattr(g.config, "identifier", None)
            if ident is not None:
                for key in type(ident).model_fields:
                    st = getattr(ident, key)
                    case = getattr(st, "style", st)
                    cfg["styles"].append([k, key, {"case": str(getattr(case, "value", case)), "pfx": getattr(st, "prefix", None)}])
            b = getattr(g.config, "package" if k == "java" else "namespace", None)
            cfg["base"].append([k, [str(x) for x in (b or [])]])
            if k == "objc":
                cfg["objc_prefix"] = str(g.config.type_prefix or "")
        res["cfg"] = cfg
        wanted = {}
        for r in rows:
            wanted.setdefault(r["gen"], {}).setdefault(r["attr"], set()).add(r["cls"])

        def evaluate(obj, recipe, ns, base_targets, anon):
            for k in GEN_MODULES:
                m = getattr(obj, k, None)
                if m is None:
                    continue
                for attr, classes in wanted.get(k, {}).items():
                    d = next((c for c in type(m).__mro__ if attr in vars(c)), None)
                    if d is None or d.__qualname__ not in classes:
                        continue
                    try:
                        v = getattr(m, attr)
                        oc = ["ok", v if isinstance(v, str) else None]
                        if oc[1] is None:
                            continue           # list-valued (user_info_keys): not a single identifier
                    except InvalidIdentifierException:
                        oc = ["err", None]
                    except RecursionError:
                        oc = ["crash", "RecursionError"]
                    except Exception as e:      # noqa: BLE001 — the outcome class is the observation
                        oc = ["crash", type(e).__name__]
                    res["tuples"].append({"gen": k, "cls": d.__qualname__, "attr": attr, "ns": ns, "name": str(obj.name),
                                          "base": k in base_targets, "anon": anon, "recipe": recipe, "impl": oc})

        def members(d):
            if isinstance(d, A.Enum):
                return [("enum_item", x) for x in d.items]
            if isinstance(d, A.Flags):
                return [("flag", x) for x in d.flags]
            if isinstance(d, A.Record):
                return [("field", x) for x in d.fields]
            if isinstance(d, A.Interface):
                return [("method", x) for x in d.methods] + [("param", p) for m in d.methods for p in m.parameters]
            if isinstance(d, A.Function):
                return [("fn_param", p) for p in d.parameters]
            if isinstance(d, A.ErrorDomain):
                return [("error_code", c) for c in d.error_codes] + [("error_param", p) for c in d.error_codes for p in c.parameters]
            return []
        for d in gen.defs:
            ns = [str(x) for x in d.namespace]
            anon = bool(getattr(d, "anonymous", False)) and isinstance(d, A.Function)
            recipe = recipes.get((tuple(ns), str(d.name)))
            role = list(recipe) if recipe else None
            targets = [str(t) for t in getattr(d, "targets", [])] if isinstance(d, A.Record) else []
            evaluate(d, role, ns, targets, anon)
            if str(d.name).startswith("k") and not ns:
                for mrole, x in members(d):
                    evaluate(x, [mrole, str(x.name)], [], [], False)
    except Hang:
        res = {"kind": "hang", "tuples": []}
    except Exception as e:      # noqa: BLE001
        import traceback
        res = {"kind": "crash", "msg": f"{type(e).__name__}: {e}"[:300] + " @ " + traceback.format_exc()[-400:], "tuples": []}
    finally:
        signal.alarm(0)
        os.chdir("/")
        shutil.rmtree(root, ignore_errors=True)
    return res


def evaluate(base: Path, names: list[str], cfgs: list[tuple[str, dict]], rows: list[dict]) -> list[dict]:
    import multiprocessing as mp
    import front
    front.target_keys()
    text, recipes = program_of(names)
    with mp.get_context("fork").Pool(min(8, len(cfgs))) as pool:
        res = pool.map(_eval_worker, [(str(base), i, text, recipes, c, rows) for i, (_, c) in enumerate(cfgs)])
    for (label, c), r in zip(cfgs, res):
        r["label"] = label
        r["config"] = c
    return res


def model_answers(driver, tables: dict, results: list[dict]) -> None:
    """adds `model` to every tuple"""
    reqs = []
    for r in results:
        if r["kind"] != "ok" or not r["tuples"]:
            continue
        cfg = r["cfg"]
        reqs.append((r, {"op": "c01.kwname", "tables": {l: tables.get(l, []) for l in LANGS}, "styles": cfg["styles"], "base": cfg["base"],
                         "objc_prefix": cfg["objc_prefix"],
                         "cases": [{k: t[k] for k in ("gen", "cls", "attr", "ns", "name", "base", "anon")} for t in r["tuples"]]}))
    answers = driver.batch([q for _, q in reqs]) if reqs else []
    for (r, _), a in zip(reqs, answers):
        if "error" in a:
            raise RuntimeError(f"driver error {a}")
        for t, m in zip(r["tuples"], a["answers"]):
            t["model"] = m


def component_tokens(s: str) -> list[str]:
    return [t for t in re.split(r"::|\.", s) if t]


def compare(results: list[dict], ref: dict) -> tuple[list[dict], list[dict], dict]:
    """-> (correspondence breaks, specification candidates, stats)"""
    breaks, cands, stats = [], [], {"tuples": 0, "unmodelled": 0, "refused": 0, "emitted": 0}
    lang_of = ref["lang_of"]
    allowed = {tuple(x) for x in ref["allowed"]}
    not_modelled = {tuple(x) for x in ref["not_modelled"]}
    role_of = {(s["gen"], s["cls"], s["attr"]): s["role"] for s in ref["specs"]}
    for r in results:
        for t in r["tuples"]:
            stats["tuples"] += 1
            key = (t["gen"], t["cls"], t["attr"])
            impl, m = t["impl"], t.get("model", {})
            where = {"config": r["label"], **{k: t[k] for k in ("gen", "cls", "attr", "ns", "name", "base", "anon")}}
            if m.get("unmodelled"):
                stats["unmodelled"] += 1
                if key not in not_modelled:
                    breaks.append({**where, "why": "name-producing property is not modelled", "impl": impl})
            elif impl[0] == "crash":
                breaks.append({**where, "why": "property raised an undocumented exception", "impl": impl, "model": m})
            elif impl[0] == "ok" and "ok" in m:
                if impl[1] != m["ok"]:
                    breaks.append({**where, "why": "emitted text differs", "impl": impl, "model": m})
            elif impl[0] == "err" and "err" in m:
                pass
            else:
                breaks.append({**where, "why": "refused by one side only", "impl": impl, "model": m})
            stats["refused" if impl[0] == "err" else "emitted"] += 1
            # specification on what the implementation returned: never a reserved word of the generator's language
            lang = lang_of.get(t["gen"])
            if impl[0] == "ok" and lang and key not in allowed:
                words = set(ref["reference"][lang])
                s = impl[1]
                hit = s if s in words else next((c for c in component_tokens(s) if c in words and t["attr"] in ("namespace", "package", "typename")), None)
                if hit is not None and t["attr"] == "derived_name" and (t["recipe"] or [""])[0] != "base_record":
                    hit = None        # the user-derived class only exists (and is only printed) for an extended record
                if hit is not None:
                    cands.append({**where, "word": hit, "emitted": s, "role": role_of.get(key, f"{t['cls']}.{t['attr']}"), "recipe": t["recipe"],
                                  "config_full": r["config"], "lang": lang})
    return breaks, cands, stats


# ---------------------------------------------------------------------------------------------------
# turning a candidate into a concrete failing program
# ---------------------------------------------------------------------------------------------------

def id_counts(text: str, java: bool) -> dict:
    import ctok12
    out = {}
    for k, v in ctok12.tokens(text, java=java):
        if k == "id":
            out[v] = out.get(v, 0) + 1
        elif k == "pp":
            continue
    return out


def _confirm_worker(args):
    """generate the program with the reserved word and its twin with a harmless name; compare identifier tokens; ask the compiler"""
    import signal
    import genrun
    import judges
    from concurrent.futures import ThreadPoolExecutor
    base, idx, job = args
    c = job["cand"]

    class Hang(BaseException):
        pass

    def on_alarm(*_):
        raise Hang()
    signal.signal(signal.SIGALRM, on_alarm)
    signal.alarm(150)
    verdict = {"cand": {k: v for k, v in c.items() if k != "config_full"}, "program": job["real"], "twin": job["twin"], "config": job["config"], "targets": job["targets"],
               "outcome": "?", "confirmed": False}
    roots = []
    try:
        runs = {}
        for tag in ("real", "twin"):
            root = Path(base) / f"kwc_{idx}_{tag}"
            shutil.rmtree(root, ignore_errors=True)
            root.mkdir(parents=True)
            roots.append(root)
            runs[tag] = genrun._run_case(root, {"files": {"/w/m.djinni": job[tag]}, "root": "/w/m.djinni", "config": job["config"], "targets": job["targets"]}, True)
        real, twin = runs["real"], runs["twin"]
        verdict["outcome"] = real["kind"]
        verdict["diags"] = [d["cls"] for d in real.get("diags", [])]
        if real["kind"] == "ok" and twin["kind"] == "ok":
            gen_dir, w = c["gen"] + "/", c["word"]

            def total(r):
                per = {rel: id_counts(t, java=rel.endswith(".java")).get(w, 0) for rel, t in r.get("text", {}).items()
                       if rel.startswith(gen_dir) and "/pydjinni/" not in rel}
                return sum(per.values()), [rel for rel, n in per.items() if n]
            a, files = total(real)
            b, _ = total(twin)
            verdict["identifier_uses"] = {"with_reserved_word": a, "twin": b}
            verdict["files"] = files[:4]
            if a > b:
                verdict["confirmed"] = True
                if c["gen"] in ("cpp", "jni", "java"):
                    errs = {}
                    with ThreadPoolExecutor(3) as pool:
                        for tag, r in (("real", real), ("twin", twin)):
                            out_dir = Path(r["root_dir"]) / "out"
                            if c["gen"] == "java":
                                errs[tag] = judges.javac_tree(out_dir / "java", Path(r["root_dir"]) / "jv")
                            else:
                                both = [out_dir / "cpp", out_dir / "jni"]
                                cx = judges.judge_cpp_tree(out_dir, Path(r["root_dir"]) / "tu", pool, both if c["gen"] == "jni" else both[:1],
                                                           both[1:] if c["gen"] == "jni" else [], both)
                                cx.pop("__count__", None)
                                errs[tag] = [f"{k}: {v[0]}" for k, v in list(cx.items())[:3]]
                    verdict["compiler"] = errs
                    # the compiler's word: the program with the reserved word is rejected, its twin is accepted
                    verdict["confirmed"] = bool(errs["real"]) and not errs["twin"]
    except Hang:
        verdict["outcome"] = "hang"
    except Exception as e:      # noqa: BLE001
        verdict["outcome"] = f"infra:{type(e).__name__}: {e}"[:200]
    finally:
        signal.alarm(0)
        os.chdir("/")
        for r in roots:
            shutil.rmtree(r, ignore_errors=True)
    return verdict


GEN_ORDER = ["cpp", "java", "jni", "objc", "objcpp", "cppcli"]


def confirm(base: Path, cands: list[dict], tables: dict, bare: set, groups: int = 6, per_group: int = 4) -> list[dict]:
    """For up to `groups` (generator, role) groups of candidates (printed-bare roles and compilable generators first) try up to
    `per_group` names: generate the small program that puts the name in that role — and its twin with a harmless name — with the real
    generators of the owning target. Confirmed = generation succeeded and the reserved word stands as an identifier where the twin has
    its harmless name; for C++/JNI/Java additionally g++/javac reject the program and accept the twin."""
    import copy
    import multiprocessing as mp
    by_group = {}
    for c in cands:
        if c["recipe"] is not None:
            by_group.setdefault((c["gen"], c["role"]), []).append(c)
    order = sorted(by_group, key=lambda k: (0 if any((c["gen"], c["cls"], c["attr"]) in bare for c in by_group[k]) else 1, GEN_ORDER.index(k[0]), k[1]))
    jobs = []
    for key in order[:groups]:
        def rank(c):
            elsewhere = sum(1 for l, t in tables.items() if l != c["lang"] and c["word"] in t)
            return (elsewhere, 0 if c["name"] != c["emitted"] else 1, c["config"] != "default")
        seen, picks = set(), []
        for c in sorted(by_group[key], key=rank):
            if c["name"] not in seen:
                seen.add(c["name"])
                picks.append(c)
            if len(picks) >= per_group:
                break
        for c in picks:
            rrole, name = c["recipe"]
            cfg = copy.deepcopy(c["config_full"])
            cfg["generate"]["support_lib_sources"] = c["gen"] in ("cpp", "jni", "java")
            jobs.append({"cand": c, "real": mini_program(rrole, name, c["gen"]), "twin": mini_program(rrole, "qq" + name, c["gen"]), "config": cfg,
                         "targets": ["cpp", "java"] if c["gen"] == "jni" else [TARGET_OF_GEN[c["gen"]]]})
    if not jobs:
        return []
    import front
    front.target_keys()
    with mp.get_context("fork").Pool(min(12, len(jobs))) as pool:
        return pool.map(_confirm_worker, [(str(base), i, j) for i, j in enumerate(jobs)])
