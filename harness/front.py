"""Front-end harness shared by C03–C06, C11, C16, C18.

* structured program generator (AST dict -> text with a random layout)
* adapter that runs the real `ConfiguredContext.parse` on a sandbox directory and canonicalises
  the result (AST dump with positions; outcome class + diagnostics)
* request builders for the model driver ops `c03.parse` and `c05.front`

Canonical AST shape (both sides): see `PydjinniModel/Drv/FrontJson.lean`.
"""
from __future__ import annotations

import os
import random
from pathlib import Path

BUILTINS = ['bool', 'i8', 'i16', 'i32', 'i64', 'f32', 'f64', 'string', 'binary', 'date']
GENERICS = {'list': 1, 'set': 1, 'map': 2}
KEYWORDS = ["namespace", "enum", "flags", "static", "const", "main", "interface", "record", "deriving",
            "function", "property", "async", "error", "throws"]

_api = None


def api():
    global _api
    if _api is None:
        from pydjinni import API
        _api = API()
    return _api


def target_keys() -> list[str]:
    return list(api().generation_targets.keys())


def builtin_registry() -> list[dict]:
    out = []
    for t in api().internal_types:
        out.append({"key": ".".join(list(t.namespace) + [t.name]), "prim": t.primitive.value, "arity": len(t.params)})
    return out


# ---------------------------------------------------------------------------------------------
# canonical dump of the implementation's AST
# ---------------------------------------------------------------------------------------------

def _pos(p):
    if p is None or p.start is None or p.end is None:
        return [0, 0, 0, 0]
    return [p.start.line, p.start.col, p.end.line, p.end.col]


def _dep(d):
    if d is True or d is False:
        return d
    return str(d)


def dump_type(t):
    from pydjinni.parser.ast import Function
    if t is None:
        return None
    if t.name == "<function>" and isinstance(t.type_def, Function):
        return {"fn": dump_fn(t.type_def), "p": _pos(t.position), "ns": [str(x) for x in t.namespace]}
    return {"n": str(t.name), "a": [dump_type(a) for a in t.parameters], "o": bool(t.optional),
            "p": _pos(t.position), "ns": [str(x) for x in t.namespace]}


def dump_params(ps):
    return [{"n": str(p.name), "t": dump_type(p.type_ref), "p": _pos(p.position), "c": p.comment} for p in ps]


def dump_fn(f):
    return {"name": str(f.name), "anonymous": bool(f.anonymous), "targets": sorted(f.targets),
            "params": dump_params(f.parameters), "ret": dump_type(f.return_type_ref),
            "throws": None if f.throwing is None else [dump_type(t) for t in f.throwing]}


def dump_node(n):
    from pydjinni.parser.ast import Namespace, Enum, Flags, Record, Interface, Function, ErrorDomain
    if isinstance(n, Namespace):
        return {"k": "ns", "n": str(n.name), "c": n.comment, "p": _pos(n.position), "children": [dump_node(c) for c in n.children]}
    base = {"n": str(n.name), "ns": [str(x) for x in n.namespace], "c": n.comment, "dep": _dep(n.deprecated), "p": _pos(n.position)}
    if isinstance(n, Enum):
        return {"k": "enum", **base, "items": [{"n": str(i.name), "c": i.comment, "dep": _dep(i.deprecated), "p": _pos(i.position)} for i in n.items]}
    if isinstance(n, Flags):
        return {"k": "flags", **base, "items": [{"n": str(i.name), "c": i.comment, "dep": _dep(i.deprecated), "p": _pos(i.position),
                                                 "all": bool(i.all), "none": bool(i.none)} for i in n.flags]}
    if isinstance(n, Record):
        return {"k": "record", **base, "targets": sorted(n.targets), "deriving": sorted(str(d.value) for d in n.deriving),
                "fields": [{"n": str(f.name), "t": dump_type(f.type_ref), "c": f.comment, "dep": _dep(f.deprecated), "p": _pos(f.position)} for f in n.fields]}
    if isinstance(n, Interface):
        return {"k": "interface", **base, "main": bool(n.main), "targets": sorted(n.targets),
                "methods": [{"n": str(m.name), "static": bool(m.static), "const": bool(m.const), "async": bool(m.asynchronous),
                             "params": dump_params(m.parameters), "ret": dump_type(m.return_type_ref),
                             "throws": None if m.throwing is None else [dump_type(t) for t in m.throwing],
                             "c": m.comment, "dep": _dep(m.deprecated), "p": _pos(m.position)} for m in n.methods],
                "props": [{"n": str(p.name), "t": dump_type(p.type_ref), "c": p.comment, "dep": _dep(p.deprecated), "p": _pos(p.position)} for p in n.properties]}
    if isinstance(n, Function):
        return {"k": "function", **base, "fn": dump_fn(n)}
    if isinstance(n, ErrorDomain):
        return {"k": "error", **base, "codes": [{"n": str(c.name), "params": dump_params(c.parameters), "c": c.comment,
                                                  "dep": _dep(c.deprecated), "p": _pos(c.position)} for c in n.error_codes]}
    return {"k": "?" + type(n).__name__}


def canon_model_ast(j):
    """Sort the set-valued fields of the model's dump the same way as the implementation dump."""
    if isinstance(j, dict):
        out = {}
        for k, v in j.items():
            if k == "targets" and isinstance(v, list):
                out[k] = sorted(v)
            else:
                out[k] = canon_model_ast(v)
        return out
    if isinstance(j, list):
        return [canon_model_ast(x) for x in j]
    return j


def strip_positions(j):
    if isinstance(j, dict):
        return {k: strip_positions(v) for k, v in j.items() if k not in ("p", "pp")}
    if isinstance(j, list):
        return [strip_positions(x) for x in j]
    return j


# ---------------------------------------------------------------------------------------------
# running the real front end
# ---------------------------------------------------------------------------------------------

def make_context(default_deriving=(), include_dirs=(), generate_extra=None):
    gen = {}
    if default_deriving:
        gen["default_deriving"] = list(default_deriving)
    if include_dirs:
        gen["include_dirs"] = [str(d) for d in include_dirs]
    if generate_extra:
        gen.update(generate_extra)
    from pydjinni import API
    return API().configure(options={"generate": gen} if gen else {"generate": {"support_lib_sources": True}})


def real_parse(ctx, path: Path, root: Path | None = None, with_defs: bool = False):
    """Run the real parser on `path`; canonical outcome. File names are mapped to '/'+relative path
    under `root` (the sandbox directory) so that they can be compared with the model's."""
    from pydjinni.exceptions import ApplicationException, ApplicationExceptionList, FileNotFoundException

    def fname(f):
        if f is None:
            return ""
        f = os.path.abspath(str(f))
        if root is not None:
            r = os.path.abspath(str(root))
            if f == r or f.startswith(r + os.sep):
                return "/" + os.path.relpath(f, r).replace(os.sep, "/")
        return f

    def diag(e):
        return {"cls": type(e).__name__, "file": fname(e.position.file if e.position else None),
                "p": _pos(e.position), "msg": str(getattr(e, "description", ""))[:200]}

    def bindings(refs):
        out = []
        for t in refs or []:
            if t.type_def is not None and t.name != "<function>":
                out.append({"file": fname(t.position.file), "p": _pos(t.position),
                            "key": ".".join([str(x) for x in t.type_def.namespace] + [str(t.type_def.name)])})
        return out

    def decl_names(defs):
        from pydjinni.parser.ast import Function
        return sorted(".".join([str(x) for x in d.namespace] + [str(d.name)]) for d in defs or []
                      if not (isinstance(d, Function) and d.anonymous))

    try:
        res = ctx.parse(path)
        out = {"kind": "ok", "ast": [dump_node(n) for n in res.ast], "result": res, "bindings": bindings(res.refs), "decls": decl_names(res.defs)}
        if with_defs:
            # every named declaration of the result (imported ones included), with the file it was written in
            from pydjinni.parser.ast import Function
            out["defs_dump"] = [{**dump_node(d), "file": fname(d.position.file)} for d in res.defs if not (isinstance(d, Function) and d.anonymous)]
        return out
    except ApplicationExceptionList as e:
        return {"kind": "diags", "diags": [diag(i) for i in e.items], "bindings": bindings(getattr(e, "type_refs", [])),
                "decls": decl_names(getattr(e, "type_decls", [])),
                "ast": [dump_node(n) for n in getattr(e, "ast", []) if n is not None]}
    except FileNotFoundException as e:
        return {"kind": "file-not-found", "msg": str(e.description)}
    except ApplicationException as e:
        return {"kind": "raised", **diag(e)}
    except RecursionError:
        return {"kind": "crash", "exc": "RecursionError"}
    except Exception as e:  # internal error
        import traceback
        tb = traceback.extract_tb(e.__traceback__)
        site = f"{Path(tb[-1].filename).name}:{tb[-1].name}" if tb else "?"
        return {"kind": "crash", "exc": type(e).__name__, "site": site, "msg": str(e)[:200]}


def canon_diags(ds):
    """multiset of (class, file, position)"""
    return sorted((d["cls"], d.get("file", ""), tuple(d["p"])) for d in ds)


def canon_outcome(o):
    """Reduce an outcome (either side) to what is compared."""
    k = o["kind"]
    if k == "ok":
        return ("ok",)
    if k == "diags":
        return ("diags", tuple(canon_diags(o["diags"])))
    if k == "raised":
        return ("raised", o["cls"], o.get("file", ""), tuple(o["p"]))
    if k == "file-not-found":
        return ("file-not-found",)
    if k == "crash":
        return ("crash",)
    if k == "syntax":
        return ("syntax",)
    return (k,)


def front_request(files: dict, root: str, cwd: str = "/w", include_dirs=(), default_deriving=(), keys=None, builtins=None):
    """files: '/w/a.djinni' -> text | {'ext': [defs]} | {'bad': True}"""
    fl = []
    for p, v in files.items():
        if isinstance(v, str):
            fl.append({"path": p, "kind": "idl", "text": v})
        elif "nottext" in v:
            fl.append({"path": p, "kind": "nottext", "pos": v["nottext"]})
        elif "ext" in v:
            fl.append({"path": p, "kind": "ext", "defs": v["ext"]})
        else:
            fl.append({"path": p, "kind": "bad"})
    return {"op": "c05.front",
            "cfg": {"cwd": cwd, "includeDirs": list(include_dirs), "keys": keys or target_keys(), "defaultDeriving": list(default_deriving)},
            "files": fl, "builtins": builtins or builtin_registry(), "root": root}


# ---------------------------------------------------------------------------------------------
# program generator
# ---------------------------------------------------------------------------------------------

class Gen:
    """Structured random IDL programs. `p_bad` controls the rate of rule-breaking choices
    (unknown names, wrong arity, errors in the wrong place, unknown targets, bad deriving …)."""

    NAMES = ['t0', 't1', 't2', 't3', 'x', 'y', 'foo_bar', 'Zed', 'a1', 'enumx', 'mainly']
    NSS = [[], ['n1'], ['n1', 'n2'], ['n3'], ['n1', 'n2', 'n4'], ['m_x'], ['n1', 'n2', 'n1'], ['n3', 'n3'], ['n12']]
    FLAGS_OK = ['+cpp', '-cpp', '+java', '-java', '+objc', '-objc', '+cppcli', '-cppcli', '+yaml', '-yaml', '+any']
    FLAGS_BAD = ['+zz', '-zz', '+jav']

    def __init__(self, rng: random.Random, p_bad=0.15, max_decls=7, comments=True, allow_fn_types=True, dup_names=True):
        self.r = rng
        self.p_bad = p_bad
        self.max_decls = max_decls
        self.comments = comments
        self.p_async = 0.15
        self.kind_choices = ['enum', 'flags', 'record', 'record', 'interface', 'interface', 'function', 'error']
        self.flag_counts = [0, 0, 0, 1, 1, 2, 3]
        self.well_typed = False      # references spelled so that they resolve from where they are written; kinds respect the rules
        self.cur_ns = []
        self.allow_fn_types = allow_fn_types
        self.dup_names = dup_names

    def bad(self, scale=1.0):
        return self.r.random() < self.p_bad * scale

    def comment(self, commands=()):
        r = self.r
        if not self.comments or r.random() < 0.6:
            return []
        words = ['alpha', 'beta', 'gamma', 'x1', 'the', 'value', 'of', 'it.', '(see)', 'a-b', 'c_d',
                 # characters str.splitlines() breaks at but the grammar (COMMENT: '#' ~[\r\n]*) keeps inside the comment line
                 'ff\x0cgg', 'ls\u2028tail;', 'nel\x85x', 'vt\x0bw', 'fs\x1cgs\x1d']
        lines = []
        for _ in range(r.choice([1, 1, 2, 3])):
            m = r.random()
            if m < 0.15 and 'deprecated' in commands:
                lines.append(r.choice(['@deprecated', '\\deprecated', '@deprecated ' + ' '.join(r.sample(words, 2)), '@deprecated  spaced  out ']))
            elif m < 0.3 and 'param' in commands:
                lines.append(r.choice(['@param ', '@param ', '@param ', '@param', '\\param ']) + r.choice(['p0', 'p1', 'p2', 'zz', '']) + r.choice(['', ' ' + ' '.join(r.sample(words, 2))]))
            elif m < 0.35:
                lines.append('')
            else:
                lines.append(' '.join(r.sample(words, r.choice([1, 2, 3]))))
        pad = lambda l: r.choice(['', ' ', '  ', '\t']) + l + r.choice(['', ' ', '\t'])
        return ['#' + pad(l) for l in lines]

    def flagseq(self):
        r = self.r
        n = r.choice(self.flag_counts)
        return [r.choice(self.FLAGS_BAD) if self.bad(0.5) else r.choice(self.FLAGS_OK) for _ in range(n)]

    def program(self):
        r = self.r
        n = r.randint(1, self.max_decls)
        decls = []
        for i in range(n):
            k = r.choice(self.kind_choices)
            nm = r.choice(self.NAMES) if (self.dup_names and r.random() < 0.25) else f'u{i}'
            decls.append({'k': k, 'name': nm, 'ns': r.choice(self.NSS)})
        self.decls = decls
        for d in decls:
            self.fill(d)
        order = list(range(n))
        r.shuffle(order)
        return [decls[i] for i in order]

    def program_with_visible(self, visible, prefix="v_"):
        """like `program`, but references may also name the declarations in `visible` (imported files)"""
        r = self.r
        n = r.randint(1, self.max_decls)
        own = []
        for i in range(n):
            k = r.choice(self.kind_choices)
            own.append({'k': k, 'name': f'{prefix}u{i}', 'ns': r.choice(self.NSS)})
        self.decls = own + [dict(d) for d in visible]
        for d in own:
            self.fill(d)
        r.shuffle(own)
        return own

    # -- types ---------------------------------------------------------------------------------
    def spell(self, target):
        r = self.r
        q = target['ns'] + [target['name']]
        m = r.random()
        if self.well_typed and not self.dup_names:
            # names are unique, so the bare name resolves from inside the target's namespace (and below); otherwise qualify fully
            inside = self.cur_ns[:len(target['ns'])] == target['ns']
            if inside and m < 0.5:
                return target['name']
            return '.' + '.'.join(q)
        if m < 0.4:
            return target['name']
        if m < 0.6:
            return '.'.join(q)
        if m < 0.75:
            return '.' + '.'.join(q)
        i = r.randrange(len(q))
        return '.'.join(q[i:])

    def dtype(self, depth=0, want=None):
        """a dataType. want: None | 'error' | 'nonerror'"""
        r = self.r
        m = r.random()
        if depth < 2 and m < 0.22:
            g = r.choice(['list', 'set', 'map'])
            k = GENERICS[g]
            if self.bad(0.6):
                k = r.choice([1, 2, 3])
            if self.bad(0.3):
                g = r.choice(['i32', self.decls[0]['name'], 'nope'])
            t = {'name': g, 'args': [self.dtype(depth + 1, 'field' if self.well_typed else None) for _ in range(k)], 'opt': r.random() < 0.15}
            return t
        if self.bad(0.5):
            return {'name': r.choice(['nope', 'n1.nope', '.zz', 'list', 'map']), 'args': [], 'opt': r.random() < 0.2}
        cands = self.decls
        if want == 'error' and not self.bad():
            cands = [d for d in self.decls if d['k'] == 'error'] or ([] if self.well_typed else self.decls)
        elif want == 'nonerror' and not self.bad():
            cands = [d for d in self.decls if d['k'] not in ('error',)] or ([] if self.well_typed else self.decls)
        elif want in ('field', 'scalar'):
            cands = [d for d in self.decls if d['k'] in ('enum', 'flags', 'record')]
        if self.well_typed and want == 'error' and cands:
            return {'name': self.spell(r.choice(cands)), 'args': [], 'opt': False}
        if m < 0.55 or not cands:
            return {'name': r.choice(BUILTINS), 'args': [], 'opt': r.random() < 0.2}
        return {'name': self.spell(r.choice(cands)), 'args': [], 'opt': r.random() < 0.2}

    def tref(self, depth=0, want='nonerror'):
        if want == 'scalar':
            return self.dtype(2, want)
        if self.allow_fn_types and want != 'field' and depth < 2 and self.r.random() < 0.12:
            pool = self.__dict__.setdefault('_fn_pool', [])
            if pool and self.r.random() < 0.35:
                import copy
                return {'fn': copy.deepcopy(self.r.choice(pool))}      # the same inline signature again, elsewhere
            f = self.fnsig(depth + 1, keyword=self.r.random() < 0.4)
            pool.append(f)
            return {'fn': f}
        return self.dtype(0, want)

    def fnsig(self, depth=0, keyword=False):
        r = self.r
        return {'flags': self.flagseq() if keyword else None,
                'params': [(f'p{i}', self.tref(depth + 1)) for i in range(r.choice([0, 1, 1, 2, 3]))],
                'throws': ([self.dtype(2 if self.well_typed else 0, 'error') for _ in range(r.choice([0, 1, 1, 2]) if not self.well_typed or any(d['k'] == 'error' for d in self.decls) else 0)]
                           if r.random() < 0.3 else None),
                'ret': self.tref(depth + 1) if r.random() < 0.5 else None}

    def fill(self, d):
        r = self.r
        k = d['k']
        self.cur_ns = d['ns']
        d['comment'] = self.comment(('deprecated',))
        if k == 'enum':
            d['items'] = [{'name': f'i{j}', 'comment': self.comment(('deprecated',))} for j in range(r.choice([0, 1, 2, 4]))]
        elif k == 'flags':
            d['items'] = [{'name': f'f{j}', 'comment': self.comment(('deprecated',)),
                           'mod': (r.choice(['all', 'none']) if not self.bad() else r.choice(['foo', 'All'])) if r.random() < 0.3 else None}
                          for j in range(r.choice([0, 1, 3, 5]))]
        elif k == 'record':
            d['flags'] = self.flagseq()
            m = r.random()
            d['deriving'] = None if m < 0.5 else r.choice([[], ['eq'], ['ord'], ['eq', 'ord'], ['eq', 'eq']]) if not self.bad() else r.choice([['bar'], ['eq', 'hash'], ['Ord']])
            fw = ('scalar' if 'ord' in (d['deriving'] or []) else 'field') if self.well_typed else 'nonerror'
            d['fields'] = [{'name': f'f{j}', 'type': self.tref(0, fw), 'comment': self.comment(('deprecated',))} for j in range(r.choice([0, 1, 2, 4]))]
        elif k == 'interface':
            d['main'] = r.random() < (0.1 if not self.bad() else 0.5)
            d['flags'] = ['+cpp'] if (d['main'] and not self.bad()) else self.flagseq()
            ms = []
            cpp_only = d['flags'] == ['+cpp']
            for j in range(r.choice([0, 1, 2, 4])):
                static = r.random() < (0.3 if cpp_only or self.bad() else 0.0)
                const = (not static or self.bad()) and r.random() < 0.2
                ms.append({'name': f'm{j}', 'static': static, 'const': const, 'async': r.random() < self.p_async,
                           'sig': self.fnsig(0), 'comment': self.comment(('deprecated', 'param'))})
            d['methods'] = ms
            d['props'] = [{'name': f'pr{j}', 'type': self.tref(0), 'comment': self.comment(('deprecated',))} for j in range(r.choice([0, 0, 0, 1]))]
            # properties may be interleaved with methods; relative order within each kind is kept
            d['order'] = _interleave(r, [('m', j) for j in range(len(ms))], [('p', j) for j in range(len(d['props']))])
        elif k == 'function':
            d['sig'] = self.fnsig(0, keyword=r.random() < 0.5)
        elif k == 'error':
            d['codes'] = [{'name': f'c{j}', 'comment': self.comment(('deprecated', 'param')),
                           'params': [(f'p{i}', self.tref(1)) for i in range(r.choice([0, 0, 1, 2]))] if r.random() < 0.6 else None}
                          for j in range(r.choice([0, 1, 2, 3]))]


class Render:
    """Token-level rendering with a random (or minimal) layout."""

    def __init__(self, rng: random.Random | None, style='random'):
        self.r = rng
        self.style = style

    def sep(self, need=False):
        if self.style == 'min' or self.r is None:
            return ' '
        r = self.r
        m = r.random()
        if m < 0.55:
            return ' '
        if m < 0.7:
            return '\n'
        if m < 0.8:
            return '  \t'
        if m < 0.88:
            return '\r\n'
        if m < 0.94:
            return '\n\n    '
        return ' ' if need else ''

    def join(self, toks):
        """toks: list of strings; comment tokens (starting with '#') must be followed by a newline.
        Adjacent tokens that would lex differently when glued get at least one blank."""
        out = []
        prev = None
        for t in toks:
            if t.startswith('#') and self.style == 'random' and self.r is not None:
                # blanks after '#' and at the end of a comment line are layout, too
                t = '#' + self.r.choice(['', ' ', '  ', '\t']) + t[1:].strip(' \t') + self.r.choice(['', ' ', '  ', '  ', '\t', '   '])
            if prev is not None:
                if prev.startswith('#'):
                    s = '\n' + (self.sep().replace('\r', '') if self.style != 'min' else '')
                else:
                    need = _needs_space(prev, t)
                    s = self.sep(need)
                    if need and s == '':
                        s = ' '
                out.append(s)
            out.append(t)
            prev = t
        text = ''.join(out)
        if prev is not None and prev.startswith('#'):
            text += '\n'
        return text

    # -- token streams --------------------------------------------------------------------------
    def ty(self, t):
        if 'fn' in t:
            return self.fn(t['fn'])
        out = [t['name']]
        if t['args']:
            out.append('<')
            for i, a in enumerate(t['args']):
                if i:
                    out.append(',')
                out += self.ty(a)
            out.append('>')
        if t['opt']:
            out.append('?')
        return out

    def fn(self, f):
        out = []
        if f['flags'] is not None:
            out.append('function')
            out += f['flags']
        out.append('(')
        for i, (n, t) in enumerate(f['params']):
            if i:
                out.append(',')
            out += [n, ':'] + self.ty(t)
        out.append(')')
        if f['throws'] is not None:
            out.append('throws')
            for i, t in enumerate(f['throws']):
                if i:
                    out.append(',')
                out += self.ty(t)
        if f['ret'] is not None:
            out.append('->')
            out += self.ty(f['ret'])
        return out

    def decl(self, d):
        k = d['k']
        out = list(d.get('comment', []))
        out += [d['name'], '=']
        if k == 'enum':
            out += ['enum', '{']
            for i in d['items']:
                out += list(i['comment']) + [i['name'], ';']
            out.append('}')
        elif k == 'flags':
            out += ['flags', '{']
            for i in d['items']:
                out += list(i['comment']) + [i['name']]
                if i['mod'] is not None:
                    out += ['=', i['mod']]
                out.append(';')
            out.append('}')
        elif k == 'record':
            out += ['record'] + d['flags'] + ['{']
            for f in d['fields']:
                out += list(f['comment']) + [f['name'], ':'] + self.ty(f['type']) + [';']
            out.append('}')
            if d['deriving'] is not None:
                out += ['deriving', '(']
                for i, x in enumerate(d['deriving']):
                    if i:
                        out.append(',')
                    out.append(x)
                out.append(')')
        elif k == 'interface':
            if d['main']:
                out.append('main')
            out += ['interface'] + d['flags'] + ['{']
            order = d.get('order') or ([('m', j) for j in range(len(d['methods']))] + [('p', j) for j in range(len(d['props']))])
            for kind, j in order:
                m = d['methods'][j] if kind == 'm' else d['props'][j]
                out += list(m['comment'])
                if kind == 'p':
                    out += ['property', m['name'], ':'] + self.ty(m['type']) + [';']
                else:
                    if m['static']:
                        out.append('static')
                    if m['const']:
                        out.append('const')
                    if m['async']:
                        out.append('async')
                    out.append(m['name'])
                    out += self.fn(m['sig'])
                    out.append(';')
            out.append('}')
        elif k == 'function':
            out += self.fn(d['sig']) + [';']
        elif k == 'error':
            out += ['error', '{']
            for c in d['codes']:
                out += list(c['comment']) + [c['name']]
                if c['params'] is not None:
                    out.append('(')
                    for (n, t) in c['params']:
                        out += [n, ':'] + self.ty(t)
                    out.append(')')
                out.append(';')
            out.append('}')
        return out

    def program(self, decls, ns_style=None):
        """Render the declarations inside a namespace *tree*: declarations that share a namespace prefix may
        share a block, blocks are written nested or with dotted names (different segment counts at different
        levels), and declarations may follow an inner block inside the same outer block.
        `self.order` is the list of declarations in the order they appear in the text."""
        self.order = []
        if self.r is None or (self.style == 'min' and len(decls) == 1):
            toks = []
            for d in decls:
                body = self.decl(d)
                if d['ns']:
                    body = ['namespace', '.'.join(d['ns']), '{'] + body + ['}']
                toks += body
                self.order.append(d)
            return toks
        r = self.r
        # partition the declarations into groups that will share one top-level tree (keeps relative order inside a group)
        groups = []
        for d in decls:
            if groups and r.random() < 0.55:
                r.choice(groups).append(d)
            else:
                groups.append([d])
        toks = []
        for g in groups:
            toks += self._tree(g)
        return toks

    def _tree(self, group):
        root = {'decls': [], 'kids': {}, 'kid_order': []}
        for d in group:
            node = root
            for part in d['ns']:
                if part not in node['kids']:
                    node['kids'][part] = {'decls': [], 'kids': {}, 'kid_order': []}
                    node['kid_order'].append(part)
                node = node['kids'][part]
            node['decls'].append(d)
        return self._emit(root)

    def _emit(self, node):
        r = self.r
        items = [('d', d) for d in node['decls']] + [('k', k) for k in node['kid_order']]
        r.shuffle(items)
        # make it likely that something follows an inner block
        if r.random() < 0.6:
            items.sort(key=lambda it: 0 if it[0] == 'k' else 1)
        toks = []
        for it in items:
            if it[0] == 'd':
                toks += self.decl(it[1])
                self.order.append(it[1])
            else:
                name, child = it[1], node['kids'][it[1]]
                # merge single-child chains into a dotted name, sometimes
                while not child['decls'] and len(child['kid_order']) == 1 and r.random() < 0.6:
                    nxt = child['kid_order'][0]
                    name += '.' + nxt
                    child = child['kids'][nxt]
                toks += ['namespace', name, '{'] + self._emit(child) + ['}']
        return toks


def _interleave(r, a, b):
    out = []
    a, b = list(a), list(b)
    while a or b:
        if a and (not b or r.random() < 0.7):
            out.append(a.pop(0))
        else:
            out.append(b.pop(0))
    return out


def _is_word(t):
    return t[0].isalnum() or t[0] in '_.'


def _needs_space(a, b):
    """would gluing token a and b change the token stream?"""
    if a.startswith('#'):
        return True
    wa = a[-1].isalnum() or a[-1] in '_.'
    wb = b[0].isalnum() or b[0] in '_.'
    if wa and wb:
        return True
    if a[0] in '+-' and len(a) > 1 and (b[0].isalpha()):     # TARGET followed by a lower-case word
        return True
    if a == '-' and b == '>':
        return True
    if a[0] == '@':
        return False
    return False


def expected_dump(decls, keys, default_deriving=()):
    """What the generator meant (no positions): used as the independent specification of C03."""
    from collections import OrderedDict

    def ctext(lines):
        if not lines:
            return None
        return "\n".join(l[1:].strip() for l in lines)

    def dep(c):
        d = False
        if c is None:
            return d
        for line in c.split("\n"):
            for cmd in ("@deprecated", "\\deprecated"):
                if line == cmd:
                    d = True
                elif line.startswith(cmd) and line[len(cmd)] in " \t":
                    m = line[len(cmd):].strip()
                    d = m if m else True
        return d

    def param_docs(c, names):
        out = {}
        if c is None:
            return [None] * len(names)
        for line in c.split("\n"):
            for cmd in ("@param", "\\param"):
                if line.startswith(cmd) and len(line) > len(cmd) and line[len(cmd)] in " \t":
                    rest = line[len(cmd):].strip()
                    if rest:
                        nm = rest.split()[0]
                        txt = rest[len(nm) + 1:]
                        if txt and nm in names:
                            out[nm] = txt
        res = []
        for i, n in enumerate(names):
            res.append(out.get(n) if names.index(n) == i else None)
        return res

    def targets(flags, or_all):
        inc = list(keys) if '+any' in flags else []
        exc = []
        for f in flags:
            if f == '+any':
                continue
            if f[0] == '+':
                if f[1:] not in inc:
                    inc.append(f[1:])
            else:
                exc.append(f[1:])
        if not inc and exc:
            inc = list(keys)
        t = [i for i in inc if i not in exc]
        if or_all and not t:
            t = list(keys)
        return sorted(t)

    def ty(t, ns):
        if 'fn' in t:
            return {"fn": fn(t['fn'], ns, None), "ns": ns}
        return {"n": t['name'], "a": [ty(a, ns) for a in t['args']], "o": t['opt'], "ns": ns}

    def signame(t, depth=2):
        if 'fn' in t:
            return "<function>"
        return ('_' * depth).join([t['name']] + [signame(a, depth + 1) for a in t['args']])

    def fn(f, ns, named):
        tg = targets(f['flags'], True) if f['flags'] is not None else sorted(keys)
        tg_ordered = fn_targets_ordered(f)
        name = named if named is not None else '_'.join(
            ['function'] + tg_ordered + [signame(t) for _, t in f['params']] + [signame(f['ret']) if f['ret'] else 'void']
            + ((['throws'] + [("<function>" if 'fn' in t else t['name']) for t in f['throws']]) if f['throws'] is not None else []))
        return {"name": name, "anonymous": named is None, "targets": tg,
                "params": [{"n": n, "t": ty(t, ns), "c": None} for n, t in f['params']],
                "ret": ty(f['ret'], ns) if f['ret'] else None,
                "throws": None if f['throws'] is None else [ty(t, ns) for t in f['throws']]}

    def fn_targets_ordered(f):
        if f['flags'] is None:
            return list(keys)
        flags = f['flags']
        inc = list(keys) if '+any' in flags else []
        exc = []
        for x in flags:
            if x == '+any':
                continue
            if x[0] == '+':
                if x[1:] not in inc:
                    inc.append(x[1:])
            else:
                exc.append(x[1:])
        if not inc and exc:
            inc = list(keys)
        t = [i for i in inc if i not in exc]
        return t or list(keys)

    out = []
    for d in decls:
        ns = list(d['ns'])
        c = ctext(d.get('comment'))
        base = {"n": d['name'], "ns": ns, "c": c, "dep": dep(c)}
        k = d['k']
        if k == 'enum':
            node = {"k": "enum", **base, "items": [{"n": i['name'], "c": ctext(i['comment']), "dep": dep(ctext(i['comment']))} for i in d['items']]}
        elif k == 'flags':
            node = {"k": "flags", **base, "items": [{"n": i['name'], "c": ctext(i['comment']), "dep": dep(ctext(i['comment'])),
                                                      "all": i['mod'] == 'all', "none": i['mod'] == 'none'} for i in d['items']]}
        elif k == 'record':
            der = set(x for x in (d['deriving'] or []) if x in ('eq', 'ord')) | set(default_deriving)
            node = {"k": "record", **base, "targets": targets(d['flags'], False), "deriving": sorted(der),
                    "fields": [{"n": f['name'], "t": ty(f['type'], ns), "c": ctext(f['comment']), "dep": dep(ctext(f['comment']))} for f in d['fields']]}
        elif k == 'interface':
            ms = []
            for m in d['methods']:
                mc = ctext(m['comment'])
                f = fn(m['sig'], ns, '')
                docs = param_docs(mc, [n for n, _ in m['sig']['params']])
                for p, dc in zip(f['params'], docs):
                    p['c'] = dc
                ms.append({"n": m['name'], "static": m['static'], "const": m['const'], "async": m['async'], "params": f['params'],
                           "ret": f['ret'], "throws": f['throws'], "c": mc, "dep": dep(mc)})
            node = {"k": "interface", **base, "main": d['main'], "targets": targets(d['flags'], True), "methods": ms,
                    "props": [{"n": p['name'], "t": ty(p['type'], ns), "c": ctext(p['comment']), "dep": False} for p in d['props']]}
        elif k == 'function':
            node = {"k": "function", **base, "fn": fn(d['sig'], ns, d['name'])}
        else:
            codes = []
            for cd in d['codes']:
                cc = ctext(cd['comment'])
                ps = cd['params'] or []
                docs = param_docs(cc, [n for n, _ in ps])
                codes.append({"n": cd['name'], "params": [{"n": n, "t": ty(t, ns), "c": dc} for (n, t), dc in zip(ps, docs)],
                              "c": cc, "dep": dep(cc)})
            node = {"k": "error", **base, "codes": codes}
        out.append(node)
    return out


def flatten_decls(ast):
    """canonical AST (list with nested ns nodes) -> flat list of declaration nodes in source order"""
    out = []
    for n in ast:
        if n.get("k") == "ns":
            out += flatten_decls(n["children"])
        else:
            out.append(n)
    return out


# ---------------------------------------------------------------------------------------------
# multi-file sandbox: the same virtual file system for the implementation and the model
# ---------------------------------------------------------------------------------------------

def ext_yaml(defs: list[dict]) -> tuple[str, list[dict]]:
    """YAML text of an external-types file and the model's view of it (key, prim, arity, position
    of the name as `Resolver.load_external` computes it)."""
    docs = []
    for d in defs:
        lines = [f"name: {d['name']}"]
        if d.get('ns'):
            lines.append("namespace: [" + ", ".join(d['ns']) + "]")
        lines.append(f"primitive: {d['prim']}")
        if d.get('arity'):
            lines.append("params: [" + ", ".join("TUV"[i] for i in range(d['arity'])) + "]")
        docs.append("\n".join(lines) + "\n")
    text = "---\n".join(docs)
    import re
    out = []
    for d in defs:
        m = re.compile(r'^name: *(' + d['name'] + ')$', re.MULTILINE).search(text)
        line = text[:m.start()].count('\n') + 1
        start = m.start(1) - text.rfind('\n', 0, m.start()) - 1
        end = m.end(1) - text.rfind('\n', 0, m.end()) - 1
        out.append({"key": ".".join(d.get('ns', []) + [d['name']]), "prim": d['prim'], "arity": d.get('arity', 0), "pos": [line, start, line, end]})
    return text, out


class Sandbox:
    """files: virtual absolute path ('/w/a.djinni') -> IDL text | {'ext': [defs]} | {'raw': text} (an invalid YAML file)"""

    def __init__(self, base: Path):
        self.base = base
        self.n = 0

    def materialise(self, files: dict) -> tuple[Path, dict]:
        import shutil
        self.n += 1
        root = self.base / f"s{self.n % 4}"
        shutil.rmtree(root, ignore_errors=True)
        root.mkdir(parents=True)
        model_files = {}
        for vp, v in files.items():
            p = root / vp.lstrip("/")
            p.parent.mkdir(parents=True, exist_ok=True)
            if isinstance(v, str):
                p.write_text(v, newline="")
                model_files[vp] = v
            elif "bytes_hex" in v:
                raw = bytes.fromhex(v["bytes_hex"])
                p.write_bytes(raw)
                try:
                    model_files[vp] = raw.decode("utf-8")
                except UnicodeDecodeError as e:
                    pre = raw[:e.start]
                    line, col = pre.count(b"\n") + 1, len(pre.rsplit(b"\n", 1)[-1].decode("utf-8", errors="replace"))
                    model_files[vp] = {"nottext": [line, col, line, col]}
            elif "symlink" in v:
                # a symbolic link (dangling or looping targets are the point): for the front end it is a file only if
                # following it reaches one; the model's file system has no links, so only non-resolving ones are used
                if p.exists() or p.is_symlink():
                    p.unlink()
                os.symlink(v["symlink"], p)
            elif "ext" in v:
                text, mdefs = ext_yaml(v["ext"])
                p.write_text(text)
                model_files[vp] = {"ext": mdefs}
            else:
                p.write_text(v["raw"])
                # a text without any YAML document (blank, comments, bare '---') declares no external type; anything else
                # in this stream is either malformed YAML or a document that is not an external type definition
                model_files[vp] = {"bad": True}
                try:
                    import yaml
                    if all(doc is None for doc in yaml.safe_load_all(v["raw"])):
                        model_files[vp] = {"ext": []}
                except Exception:
                    pass
        return root, model_files

    def run(self, files: dict, root_file: str, cwd: str = "/w", include_dirs=(), default_deriving=(), timeout=None, configured=False):
        """-> (impl outcome, model request); configured: every generator is configured, so that parsing also attaches
        each target's marshalling objects to the AST (what the command line and the language server do)"""
        root, model_files = self.materialise(files)
        real_cwd = root / cwd.lstrip("/")
        real_cwd.mkdir(parents=True, exist_ok=True)
        old = os.getcwd()
        os.chdir(real_cwd)
        try:
            extra = None
            if configured:
                import genrun
                extra = genrun.default_config()["generate"]
            ctx = make_context(default_deriving=default_deriving, include_dirs=include_dirs, generate_extra=extra)
            impl = real_parse(ctx, root / root_file.lstrip("/"), root)
        finally:
            os.chdir(old)
        impl.pop("result", None)
        req = front_request(model_files, root_file, cwd=cwd, include_dirs=include_dirs, default_deriving=default_deriving)
        return impl, req


def model_outcome(m: dict):
    """canonical form of a `c05.front` answer"""
    if "error" in m:
        raise RuntimeError(f"driver error: {m}")
    return canon_outcome(m)


# ---------------------------------------------------------------------------------------------
# parallel execution of the real front end (worker processes, per-input wall-clock bound)
# ---------------------------------------------------------------------------------------------

class _Hang(BaseException):
    pass


def _worker(args):
    import signal
    base, idx, chunk, per_input_timeout = args
    sb = Sandbox(Path(base) / f"w{idx}")
    out = []

    def on_alarm(*_):
        raise _Hang()

    signal.signal(signal.SIGALRM, on_alarm)
    for case in chunk:
        files, root = case["files"], case["root"]
        kw = {k: case[k] for k in ("cwd", "include_dirs", "default_deriving", "configured") if k in case}
        signal.alarm(per_input_timeout)
        try:
            impl, req = sb.run(files, root, **kw)
        except _Hang:
            os.chdir("/")
            _, model_files = sb.materialise(files)
            impl = {"kind": "hang", "timeout_s": per_input_timeout}
            req = front_request(model_files, root, cwd=kw.get("cwd", "/w"), include_dirs=kw.get("include_dirs", ()),
                                default_deriving=kw.get("default_deriving", ()))
        finally:
            signal.alarm(0)
        out.append((impl, req))
    return out


def run_many(base: Path, cases: list[dict], per_input_timeout: int = 10, workers: int = 12):
    """cases: [{'files':…, 'root':…, 'cwd'?, 'include_dirs'?, 'default_deriving'?}] -> [(impl, model request)]"""
    import multiprocessing as mp
    if not cases:
        return []
    builtin_registry()  # warm the cache before forking
    target_keys()
    workers = max(1, min(workers, len(cases) // 8 or 1))
    chunks = [cases[i::workers] for i in range(workers)]
    ctxm = mp.get_context("fork")
    with ctxm.Pool(workers) as pool:
        res = pool.map(_worker, [(str(base), i, ch, per_input_timeout) for i, ch in enumerate(chunks)])
    out = [None] * len(cases)
    for w, r in enumerate(res):
        for j, x in enumerate(r):
            out[w + j * workers] = x
    return out
