"""Small C-family / Java tokenizer for the file-level part of C12 (independent of the Lean fragment `Lang/CLex`,
against which it is cross-checked on every run).

`tokens(text, java=False)` -> list of tokens
    ('com', text)   comment                      ('str', body)   string literal (raw body between the quotes)
    ('chr', body)   character literal            ('id', word)    identifier / keyword / number
    ('p', c)        punctuation character        ('pp', (tok, ...))  preprocessor line (C family, logical line)
    ('err', what)   unterminated comment/literal, newline in literal, illegal unicode escape (Java)

C family: backslash + horizontal white space* + newline is removed before anything else (phase 2, as g++/clang do);
`\\r` ends a line. Java: `\\uXXXX` translation first (illegal escape -> a single ('err', 'unicode') token), no splicing.
"""
from __future__ import annotations

import re

HSPACE = " \t\x0b\x0c"


def splice(text: str) -> str:
    out = []
    i, n = 0, len(text)
    while i < n:
        c = text[i]
        if c == "\\":
            j = i + 1
            while j < n and text[j] in HSPACE:
                j += 1
            if j < n and text[j] in "\n\r":
                i = j + 2 if text[j:j + 2] == "\r\n" else j + 1
                continue
        out.append(c)
        i += 1
    return "".join(out)


def java_unicode(text: str):
    """JLS 3.3; returns None on an illegal escape"""
    out = []
    i, n = 0, len(text)
    while i < n:
        c = text[i]
        if c != "\\":
            out.append(c)
            i += 1
            continue
        # eligible backslash (even number of backslashes before it is guaranteed by the pairing below)
        if i + 1 < n and text[i + 1] == "u":
            j = i + 1
            while j < n and text[j] == "u":
                j += 1
            h = text[j:j + 4]
            if len(h) < 4 or not re.fullmatch(r"[0-9a-fA-F]{4}", h):
                return None
            out.append(chr(int(h, 16)))
            i = j + 4
        elif i + 1 < n:
            out.append(c)
            out.append(text[i + 1])
            i += 2
        else:
            out.append(c)
            i += 1
    return "".join(out)


_ID = re.compile(r"[A-Za-z_0-9$\u0080-￿]+")


def tokens(text: str, java: bool = False) -> list[tuple]:
    if java:
        text = java_unicode(text)
        if text is None:
            return [("err", "unicode")]
    else:
        text = splice(text)
    toks: list[tuple] = []
    i, n = 0, len(text)
    line_start = True
    pp: list | None = None

    def emit(t):
        (pp if pp is not None else toks).append(t)

    while i < n:
        c = text[i]
        if c in "\n\r":
            if pp is not None:
                toks.append(("pp", tuple(pp)))
                pp = None
            line_start = True
            i += 1
            continue
        if c in " \t\x0b\x0c":
            i += 1
            continue
        if c == "/" and i + 1 < n and text[i + 1] == "/":
            j = i
            while j < n and text[j] not in "\n\r":
                j += 1
            emit(("com", text[i:j]))
            i = j
            continue
        if c == "/" and i + 1 < n and text[i + 1] == "*":
            j = text.find("*/", i + 2)
            if j < 0:
                emit(("err", "comment"))
                i = n
            else:
                emit(("com", text[i:j + 2]))
                i = j + 2
            line_start = False
            continue
        if c == "#" and line_start and not java:
            pp = [("p", "#")]
            line_start = False
            i += 1
            continue
        line_start = False
        if c in "\"'":
            j = i + 1
            bad = None
            while True:
                if j >= n:
                    bad = "eof"
                    break
                d = text[j]
                if d == c:
                    break
                if d in "\n\r":
                    bad = "newline"
                    break
                if d == "\\":
                    if j + 1 < n and text[j + 1] in "\n\r":
                        bad = "newline"
                        j += 1
                        break
                    j += 2
                    continue
                j += 1
            if bad:
                emit(("err", "literal-" + bad))
                i = j
            else:
                emit(("str" if c == '"' else "chr", text[i + 1:j]))
                i = j + 1
            continue
        m = _ID.match(text, i)
        if m:
            emit(("id", m.group(0)))
            i = m.end()
            continue
        emit(("p", c))
        i += 1
    if pp is not None:
        toks.append(("pp", tuple(pp)))
    return toks


def coarse(text: str, java: bool = False) -> list[str] | None:
    """projection comparable with the Lean fragment: 'comment', 'str', 'chr', 'err', and code characters
    (white space dropped). Preprocessor lines are flattened."""
    out: list[str] = []

    def walk(ts):
        for t in ts:
            k = t[0]
            if k == "com":
                out.append("comment")
            elif k in ("str", "chr"):
                out.append(k)
            elif k == "err":
                out.append("err")
            elif k == "pp":
                walk(t[1])
            elif k == "id":
                out.extend("c" + ch for ch in t[1])
            else:
                out.append("c" + t[1])

    ts = tokens(text, java)
    if ts == [("err", "unicode")]:
        return None
    walk(ts)
    return out


# -----------------------------------------------------------------------------------------------------------
# documentation-free skeleton of a generated file
# -----------------------------------------------------------------------------------------------------------

_DEP_MACROS = {"PYDJINNI_DISABLE_DEPRECATED_WARNINGS", "PYDJINNI_ENABLE_WARNINGS", "DEPRECATED_ATTRIBUTE"}


_ESC = {"\\\\": "\\", '\\"': '"', "\\n": "\n", "\\r": "\r", "\\v": "\x0b", "\\f": "\x0c", "\\034": "\x1c", "\\035": "\x1d", "\\036": "\x1e",
        "\\205": "\x85", "\\u2028": "\u2028", "\\u2029": "\u2029"}


def c_unescape(body: str):
    """value of a literal body that uses only the escape sequences pydjinni writes; None otherwise"""
    out = []
    i = 0
    while i < len(body):
        c = body[i]
        if c == "\\":
            for k in (2, 4, 6):
                if body[i:i + k] in _ESC:
                    out.append(_ESC[body[i:i + k]])
                    i += k
                    break
            else:
                return None
        else:
            out.append(c)
            i += 1
    return "".join(out)


def strip_docs(toks: list[tuple], java: bool = False):
    """Remove comment tokens and deprecation annotations. Returns (skeleton tokens, [deprecation messages], problems).

    Deprecation forms recognised (anything else stays in the skeleton):
      [[deprecated]] [[deprecated("…")]]   DEPRECATED_ATTRIBUTE   DEPRECATED_MSG_ATTRIBUTE("…")
      [System::Obsolete] [System::Obsolete("…")]   @Deprecated
      PYDJINNI_DISABLE_DEPRECATED_WARNINGS / PYDJINNI_ENABLE_WARNINGS
      #pragma warning(...)   #include / #import "pydjinni/deprecated.hpp"
    """
    out: list[tuple] = []
    msgs: list[str] = []
    problems: list[str] = []
    ts = [t for t in toks if t[0] != "com"]
    i, n = 0, len(ts)

    def at(k, *vals):
        return i + k < n and ts[i + k] in vals

    def P(c):
        return ("p", c)

    def msg_at(k):
        """ts[i+k:] = '(' str ')' -> message, else None"""
        if i + k + 2 < n and ts[i + k] == P("(") and ts[i + k + 1][0] == "str" and ts[i + k + 2] == P(")"):
            return ts[i + k + 1][1]
        return None

    while i < n:
        t = ts[i]
        if t[0] == "pp":
            body = t[1]
            words = [x[1] for x in body if x[0] in ("id", "str")]
            if words[:2] == ["pragma", "warning"]:
                i += 1
                continue
            if words and words[0] in ("include", "import") and "pydjinni/deprecated.hpp" in words:
                i += 1
                continue
            inner, m2, p2 = strip_docs(list(body[1:]), java)
            out.append(("pp", tuple(inner)))
            msgs += m2
            problems += p2
            i += 1
            continue
        if t == P("[") and at(1, P("[")) and at(2, ("id", "deprecated")):
            if at(3, P("]")) and at(4, P("]")):
                i += 5
                continue
            m = msg_at(3)
            if m is not None and at(6, P("]")) and at(7, P("]")):
                msgs.append(m)
                i += 8
                continue
            problems.append("malformed [[deprecated…]]")
        if t == P("[") and at(1, ("id", "System")) and at(2, P(":")) and at(3, P(":")) and at(4, ("id", "Obsolete")):
            if at(5, P("]")):
                i += 6
                continue
            m = msg_at(5)
            if m is not None and at(8, P("]")):
                msgs.append(m)
                i += 9
                continue
            problems.append("malformed [System::Obsolete…]")
        if t == ("id", "DEPRECATED_MSG_ATTRIBUTE"):
            m = msg_at(1)
            if m is not None:
                msgs.append(m)
                i += 4
                continue
            problems.append("malformed DEPRECATED_MSG_ATTRIBUTE")
        if t[0] == "id" and t[1] in _DEP_MACROS:
            i += 1
            continue
        if java and t == P("@") and at(1, ("id", "Deprecated")):
            i += 2
            continue
        if t[0] == "err":
            problems.append("lexical error: " + t[1])
        out.append(t)
        i += 1
    return out, msgs, problems
