"""System-level harness shared by C14, C15 and C10 (owned by these three properties).

* `ProgGen`   conservative generator of *valid* IDL programs inside a closed feature set that the pinned
              generators accept for all five targets (cpp, cppcli, java(+jni), objc(+objcpp), yaml):
              enums, flags, records of primitives / optionals / list,set,map / earlier records and enums,
              interfaces (+cpp, +java, +objc, +cppcli or all) with plain, async, throwing methods and
              callback (inline function) parameters, named functions, error domains, namespaces,
              multi-file programs (import chains / diamonds) and `@extern` files.
              Names are drawn so that the collisions C15 cares about occur (same name in different
              namespaces, names equal after identifier conversion, `x` + `+<t> x` → `x_base`).
* `configs`   configuration generator: output directory spellings (relative, absolute, split, `./x/`,
              nested), file-name styles, extensions, prefixes, loader/native_lib/bridging header/out_file.
* `run_jobs`  runs jobs in fresh interpreter processes (`sysworker.py`), optionally under a given
              PYTHONHASHSEED; every job gets its own sandbox directory and its own `API()` object.
"""
from __future__ import annotations

import json
import os
import random
import subprocess
import sys
from pathlib import Path

HERE = Path(__file__).resolve().parent
WORKER = HERE / "sysworker.py"
PY = "/venv/bin/python"

PRIMS = ["bool", "i8", "i16", "i32", "i64", "f32", "f64", "string", "binary", "date"]
KEY_PRIMS = ["i32", "i64", "string", "i8"]
WORDS = ["alpha", "beta", "gamma", "delta", "omega", "sigma", "kappa", "theta", "lambda_x", "zeta"]
NS_WORDS = ["core", "util", "model", "net", "ui_kit", "data"]
TARGETS = ["cpp", "cppcli", "java", "objc", "yaml"]
GEN_OF_TARGET = {"cpp": ["cpp"], "cppcli": ["cppcli"], "java": ["java", "jni"], "objc": ["objc", "objcpp"], "yaml": ["yaml"]}


def extern_yaml(name: str, ns: list[str]) -> str:
    """One external enum type (all generator sections), as `generator/it/external_types` exports it."""
    pas = "".join(w.capitalize() for w in name.split("_"))
    nsl = "".join(f"\n- {n}" for n in ns) if ns else " []"
    return f"""cpp:
  by_value: true
  header: ext/{name}.hpp
  typename: ::ext::{pas}
cppcli:
  header: ext/CppCli{pas}.hpp
  reference: false
  translator: ::pydjinni::cppcli::translator::Enum<::ext::{pas},::Ext::CppCli::{pas}>
  typename: ::Ext::CppCli::{pas}
deprecated: false
java:
  boxed: ext.{pas}
  generic: false
  reference: true
  typename: ext.{pas}
jni:
  boxed_type_signature: Lext/{pas};
  header: ext_jni_{name}.hpp
  translator: ::ext::jni::{pas}
  type_signature: Lext/{pas};
  typename: jobject
name: {name}
namespace:{nsl}
objc:
  boxed: EXT{pas}
  header: EXT{pas}.h
  pointer: false
  typename: EXT{pas}
objcpp:
  header: {pas}+Private.h
  translator: ::ext::objcpp::{pas}
params: []
primitive: enum
"""


class ProgGen:
    """Generates one program: `files` (path relative to the sandbox root -> text), `root`, the import graph
    (`imports`: file -> [file]), `externs` (files), and a description of the declarations for statistics."""

    def __init__(self, rng: random.Random, stress: str = "mixed", multi_file: bool = False, with_extern: bool = False,
                 max_decls: int = 6, allow_async: bool = True, allow_callbacks: bool = True, case_names: bool = False,
                 fn_targets: bool = False):
        self.r = rng
        self.stress = stress          # mixed | same-name | conversion | base | anon | plain
        self.multi_file = multi_file
        self.with_extern = with_extern
        self.max_decls = max_decls
        self.allow_async = allow_async
        self.allow_callbacks = allow_callbacks
        self.case_names = case_names
        # explicit target lists that leave several targets — on inline function types (`function +java +cpp (…)`: the list
        # is written into the synthetic name of the type), records and interfaces; every list is recorded in `target_sites`
        self.fn_targets = fn_targets
        self.target_sites: list[dict] = []   # {"kind": "inline" | "record" | "interface", "q": qualified name | None, "flags": [...]}
        self.used: set[tuple] = set()      # (ns tuple, name)
        self.visible: list[dict] = []      # declared so far: {"q": qualified name, "kind": ...}
        self.features: set[str] = set()

    # -- names ------------------------------------------------------------------------------------
    def fresh_name(self, ns: tuple, kind: str) -> str:
        r = self.r
        for _ in range(50):
            base = r.choice(WORDS)
            style = self.stress if self.stress != "mixed" else r.choice(["plain", "plain", "same-name", "conversion", "base"])
            if style == "anon":
                style = "plain"
            if style == "conversion":
                other = r.choice(WORDS[:4])
                name = r.choice([f"{base}_{other}", f"{base}__{other}", f"{base}_{other.capitalize()}", f"{base}{other.capitalize()}"])
                self.features.add("name:conversion-variant")
            elif style == "same-name":
                name = r.choice(WORDS[:3])
                self.features.add("name:small-pool")
            elif style == "base":
                name = r.choice(["alpha", "alpha_base", "beta", "beta_base"])
                self.features.add("name:base-pool")
            elif style == "case" or self.case_names:
                w = r.choice(WORDS[:2])
                name = r.choice([w, w.capitalize(), w.upper(), w[0] + w[1:].upper()])
                self.features.add("name:case-variant")
            else:
                name = base + (str(r.randrange(3)) if r.random() < 0.3 else "")
            if (ns, name) not in self.used:
                self.used.add((ns, name))
                return name
        n = f"u{len(self.used)}"
        self.used.add((ns, n))
        return n

    # -- types ------------------------------------------------------------------------------------
    def prim(self):
        return self.r.choice(PRIMS)

    def ref_to(self, kinds):
        cands = [v for v in self.visible if v["kind"] in kinds]
        if cands and self.r.random() < 0.55:
            return "." + self.r.choice(cands)["q"]     # absolute reference: cannot be shadowed by a nearer declaration
        return None

    def field_type(self):
        r = self.r
        x = r.random()
        if x < 0.35:
            t = self.prim()
            return t + ("?" if r.random() < 0.2 else "")
        if x < 0.55:
            u = self.ref_to(("record", "enum", "flags", "extern"))
            if u:
                return u
            return self.prim()
        if x < 0.75:
            inner = self.ref_to(("record",)) or self.prim()
            return f"list<{inner}>"
        if x < 0.85:
            return f"set<{r.choice(KEY_PRIMS)}>"
        return f"map<{r.choice(KEY_PRIMS)}, {self.ref_to(('record',)) or self.prim()}>"

    def param_type(self):
        r = self.r
        if r.random() < 0.6:
            return self.prim()
        return self.ref_to(("record", "enum")) or self.prim()

    def target_flags(self, pool=None, min_left: int = 2) -> list[str]:
        """a target list as written, leaving at least `min_left` targets: `+a +b …` in an order of its own (not the
        registry's), with a repeated flag, pure exclusions, `+any -x`, inclusions and exclusions mixed"""
        r = self.r
        pool = list(pool or TARGETS)
        form = r.choice(["plus", "plus", "plus", "plus-repeat", "minus", "any-minus", "mixed"])
        if form in ("plus", "plus-repeat") or len(pool) < 4:
            ts = r.sample(pool, r.randrange(min_left, min(len(pool), 4) + 1))
            flags = ["+" + t for t in ts]
            if form == "plus-repeat":
                flags.insert(r.randrange(1, len(flags) + 1), r.choice(flags))
        elif form == "minus":
            flags = ["-" + t for t in r.sample(pool, r.choice([1, 1, 2]))]
        elif form == "any-minus":
            flags = ["+any"] + ["-" + t for t in r.sample(pool, r.choice([1, 2]))]
            if r.random() < 0.3:
                flags.reverse()
        else:
            ts = r.sample(pool, min(len(pool), min_left + 1 + r.choice([0, 1])))
            drop = r.choice(ts)
            flags = ["+" + t for t in ts]
            flags.insert(r.randrange(0, len(flags) + 1), "-" + drop)
        self.features.add("targets:" + form)
        return flags

    def callback(self):
        if self.fn_targets and self.r.random() < 0.7:
            flags = self.target_flags()
            self.target_sites.append({"kind": "inline", "q": None, "flags": flags})
            self.features.add("callback:explicit-targets")
            return f"function {' '.join(flags)} {self._callback()}"
        return self._callback()

    def _callback(self):
        """an inline function type. Equal signatures (same parameter and return types) are meant to recur — in the same
        namespace and in sibling / enclosing namespaces — under *different* parameter names: the generated type has the
        same name, the rendered files differ."""
        r = self.r
        pn = lambda i: r.choice([f"a{i}", f"a{i}", f"x{i}", f"len{i}", f"pct{i}"])
        if self.stress == "anon":
            self.features.add("callback:small-signature-pool")
            return r.choice([f"({pn(0)}: i32) -> bool", "()", f"({pn(0)}: string)"])
        if r.random() < 0.35:
            self.features.add("callback:small-signature-pool")
            return r.choice([f"({pn(0)}: i32) -> bool", f"({pn(0)}: string)"])
        ps = ", ".join(f"{pn(i)}: {r.choice(['i32', 'string', 'bool', 'f64'])}" for i in range(r.choice([0, 1, 1, 2])))
        ret = r.choice(["", " -> bool", " -> i32"])
        self.features.add("callback")
        return f"({ps}){ret}"

    # -- declarations -----------------------------------------------------------------------------
    def decl(self, ns: tuple, ind: str) -> str:
        r = self.r
        kinds = ["enum", "flags", "record", "record", "record", "interface", "interface", "function", "error"]
        if self.stress == "anon":
            kinds = ["interface", "interface", "interface", "record"]
        k = r.choice(kinds)
        name = self.fresh_name(ns, k)
        q = ".".join(ns + (name,))
        self.features.add("kind:" + k)
        text = ""
        if k == "enum":
            items = " ".join(f"item_{c};" for c in "abc"[: r.choice([1, 2, 3])])
            text = f"{name} = enum {{ {items} }}"
        elif k == "flags":
            items = " ".join(f"flag_{c};" for c in "abc"[: r.choice([1, 2, 3])])
            extra = r.choice(["", " every = all;", " nothing = none;"])
            text = f"{name} = flags {{ {items}{extra} }}"
        elif k == "record":
            tg = r.choice(["", "", "", " +cpp", " +java", " +objc", " +cppcli", " +cpp +java"])
            if self.fn_targets and r.random() < 0.5:
                flags = self.target_flags(pool=["cpp", "java", "objc", "cppcli"])
                tg = " " + " ".join(flags)
                self.target_sites.append({"kind": "record", "q": q, "flags": flags})
            if tg:
                self.features.add("record:base" + tg.replace(" ", ""))
            nf = r.choice([0, 1, 2, 3])
            fields = " ".join(f"f{i}: {self.field_type()};" for i in range(nf))
            der = r.choice(["", "", " deriving(eq)", " deriving(eq, ord)"]) if nf else r.choice(["", ""])
            if "ord" in der and any(c in fields for c in ("list<", "set<", "map<")):
                der = " deriving(eq)"
            if der:
                self.features.add("record:deriving")
            text = f"{name} = record{tg} {{ {fields} }}{der}"
        elif k == "interface":
            tg = r.choice([" +cpp", " +cpp", " +java", " +objc", " +cppcli", "", " +cpp +java"])
            if self.fn_targets and r.random() < 0.4:
                flags = self.target_flags(pool=["cpp", "java", "objc", "cppcli"])
                tg = " " + " ".join(flags)
                self.target_sites.append({"kind": "interface", "q": q, "flags": flags})
            self.features.add("interface:" + (tg.strip().replace(" ", "") or "all"))
            ms = []
            errs = [v for v in self.visible if v["kind"] == "error"]
            for i in range(r.choice([1, 2, 3])):
                asy = self.allow_async and r.random() < 0.3
                ps = [f"p{j}: {self.param_type()}" for j in range(r.choice([0, 1, 2]))]
                if self.allow_callbacks and r.random() < (0.9 if self.stress == "anon" else 0.75 if self.fn_targets else 0.3):
                    ps.append(f"cb: {self.callback()}")
                ret = r.choice(["", f" -> {self.prim()}", f" -> {self.param_type()}"])
                if asy and not ret:
                    ret = " -> i32"       # `async` without a return value does not generate (DESIGN §9 row 46)
                thr = ""
                if errs and not asy and r.random() < 0.3:
                    thr = f" throws .{r.choice(errs)['q']}"
                    self.features.add("throws")
                if asy:
                    self.features.add("async:" + (tg.strip().replace(" ", "") or "all"))
                ms.append(f"{'async ' if asy else ''}m{i}({', '.join(ps)}){thr}{ret};")
            text = f"{name} = interface{tg} {{ {' '.join(ms)} }}"
        elif k == "function":
            ps = ", ".join(f"a{i}: {self.param_type()}" for i in range(r.choice([0, 1, 2])))
            ret = r.choice(["", " -> bool", f" -> {self.prim()}"])
            text = f"{name} = function ({ps}){ret};"
        else:
            codes = " ".join([f"code_{c}{'(msg: string)' if r.random() < 0.4 else ''};" for c in "ab"[: r.choice([1, 2])]])
            text = f"{name} = error {{ {codes} }}"
        self.visible.append({"q": q, "kind": k})
        return ind + text

    def body(self, nmax: int, prefix_ns: tuple = ()) -> str:
        """declarations spread over a namespace *tree*: the same namespace may be opened more than once, blocks are
        written nested or with dotted names (different component counts at different levels), and declarations may
        follow an inner block inside the same outer block. Declarations are generated in text order (a reference
        only names something declared earlier in the text)."""
        r = self.r
        n = r.randrange(1, nmax + 1)

        def w(pool=NS_WORDS):
            """a namespace component; under the conversion / letter-case stress different spellings that identifier
            styles map to one name (`Net`/`net`/`NET`, `ui_kit`/`ui__kit`/`uiKit`)"""
            x = r.choice(pool)
            if (self.case_names or self.stress == "conversion" or (self.stress == "mixed" and r.random() < 0.2)) and r.random() < 0.6:
                parts = x.split("_")
                x = r.choice([x.capitalize(), x.upper(), x.replace("_", "__"), parts[0] + "".join(q.capitalize() for q in parts[1:]), x])
                self.features.add("ns:conversion-variant")
            return x
        chain = (w(), w(NS_WORDS[:3]), w(NS_WORDS[2:]))
        namespaces = [(), ()] + [(w(),) for _ in range(2)] + [(w(), w(NS_WORDS[:3]))] + [chain[:1], chain[:2], chain]
        if self.case_names or self.stress == "conversion":
            # few base words, so that spellings of one word meet (with equally named declarations inside: `fresh_name`)
            namespaces = [(), (w(NS_WORDS[3:5]),), (w(NS_WORDS[3:5]),), (w(NS_WORDS[3:5]),), (w(NS_WORDS[3:5]), w(NS_WORDS[:2])), (w(NS_WORDS[3:5]), w(NS_WORDS[:2]))]
        if self.stress in ("same-name", "anon"):
            namespaces = [(NS_WORDS[0],), (NS_WORDS[1],), (NS_WORDS[0], NS_WORDS[1]), (), (NS_WORDS[0], NS_WORDS[1], NS_WORDS[2]),
                          (NS_WORDS[0], NS_WORDS[1])]
        layout = r.choice(["chains", "tree", "tree", "deep", "deep"])
        if layout == "deep":
            # the declarations of a namespace chain (>= 2 components) share one tree whose top block is dotted; those of
            # the enclosing namespace and the top level stand in blocks of their own
            if self.stress in ("same-name", "anon"):
                chain = tuple(NS_WORDS[:3])
            namespaces = [chain[:2], chain[:2], chain, chain, chain[:1], chain[:1], ()]
        slots = [prefix_ns + r.choice(namespaces) for _ in range(n)]
        if layout == "chains":
            # every declaration in a block chain of its own, one block per component
            out = []
            for ns in slots:
                if ns:
                    self.features.add(f"ns-depth:{len(ns)}")
                    inner = self.decl(ns, "  " * len(ns))
                    head = "".join(f"{'  ' * i}namespace {c} {{\n" for i, c in enumerate(ns))
                    tail = "".join(f"\n{'  ' * i}}}" for i in reversed(range(len(ns))))
                    out.append(head + inner + tail)
                else:
                    out.append(self.decl((), ""))
            return "\n".join(out) + "\n"
        self.features.add("ns-layout:tree")
        # groups of declarations share one top-level tree
        groups: list[list[tuple]] = []
        if layout == "deep":
            deep = [ns for ns in slots if len(ns) >= 2]
            groups = [[ns] for ns in slots if len(ns) < 2] + ([deep] if deep else [])
            r.shuffle(groups)
            slots = []
        for ns in slots:
            if groups and r.random() < 0.6:
                r.choice(groups).append(ns)
            else:
                groups.append([ns])
        lines: list[str] = []
        for g in groups:
            root = {"n": 0, "kids": {}, "order": []}
            for ns in g:
                node = root
                for part in ns:
                    if part not in node["kids"]:
                        node["kids"][part] = {"n": 0, "kids": {}, "order": []}
                        node["order"].append(part)
                    node = node["kids"][part]
                node["n"] += 1
            self._emit(root, (), 0, lines)
        return "\n".join(lines) + "\n"

    def _emit(self, node, ns: tuple, depth: int, lines: list[str], dotted: bool = False):
        r = self.r
        items = [("d", None)] * node["n"] + [("k", k) for k in node["order"]]
        r.shuffle(items)
        if r.random() < 0.6:
            items.sort(key=lambda it: 0 if it[0] == "k" else 1)     # make it likely that something follows an inner block
        ind = "  " * depth
        after_block = False
        for kind, k in items:
            if kind == "d":
                if ns:
                    self.features.add(f"ns-depth:{len(ns)}")
                if after_block:
                    self.features.add("ns-layout:decl-after-block" + ("-in-dotted" if dotted else ""))
                lines.append(self.decl(ns, ind))
                continue
            name, child, path = [k], node["kids"][k], ns + (k,)
            # a chain of blocks that hold nothing but the next block may be written as one dotted name
            while not child["n"] and len(child["order"]) == 1 and r.random() < 0.65:
                nxt = child["order"][0]
                name.append(nxt)
                path += (nxt,)
                child = child["kids"][nxt]
            if len(name) > 1:
                self.features.add("ns-layout:dotted")
                if child["kids"]:
                    self.features.add("ns-layout:block-inside-dotted")
            lines.append(f"{ind}namespace {'.'.join(name)} {{")
            self._emit(child, path, depth + 1, lines, dotted=len(name) > 1)
            lines.append(f"{ind}}}")
            after_block = True

    def program(self):
        r = self.r
        files: dict[str, str] = {}
        imports: dict[str, list[str]] = {}
        externs: list[str] = []
        root = "proj/main.pydjinni"
        ext_heads = []
        if self.with_extern:
            n_ext = r.choice([1, 1, 2])
            for i in range(n_ext):
                nm = f"ext_type{i}"
                ens = [] if r.random() < 0.5 else ["extlib"]
                path = r.choice([f"proj/ext/types{i}.yaml", f"proj/types{i}.yaml", f"inc/types{i}.yaml"])
                files[path] = extern_yaml(nm, ens)
                externs.append(path)
                self.visible.append({"q": ".".join(ens + [nm]), "kind": "extern"})
                self.used.add((tuple(ens), nm))
                self.features.add("extern")
        shapes = ["single"]
        if self.multi_file:
            shapes = ["chain2", "chain3", "diamond", "fan"]
        shape = r.choice(shapes)
        self.features.add("files:" + shape)
        order = {"single": [], "chain2": ["proj/lib/a.pydjinni"], "chain3": ["proj/lib/sub/b.pydjinni", "proj/lib/a.pydjinni"],
                 "diamond": ["proj/lib/c.pydjinni", "proj/lib/a.pydjinni", "proj/lib/b.pydjinni"],
                 "fan": ["proj/lib/a.pydjinni", "inc/b.pydjinni"]}[shape]
        edges = {"single": {}, "chain2": {root: ["proj/lib/a.pydjinni"]},
                 "chain3": {root: ["proj/lib/a.pydjinni"], "proj/lib/a.pydjinni": ["proj/lib/sub/b.pydjinni"]},
                 "diamond": {root: ["proj/lib/a.pydjinni", "proj/lib/b.pydjinni"], "proj/lib/a.pydjinni": ["proj/lib/c.pydjinni"],
                             "proj/lib/b.pydjinni": ["proj/lib/c.pydjinni"]},
                 "fan": {root: ["proj/lib/a.pydjinni", "inc/b.pydjinni"]}}[shape]
        # leaves first, so that importers can refer to what they import
        for f in order + [root]:
            heads = []
            if f == root:
                for e in externs:
                    # spelled relative to the importing file's directory or to the include dir `inc`
                    heads.append(f'@extern "{self._spell(root, e)}"')
            for t in edges.get(f, []):
                heads.append(f'@import "{self._spell(f, t)}"')
            files[f] = "\n".join(heads + [self.body(max(1, self.max_decls // (len(order) + 1)) if f != root else self.max_decls)])
            imports[f] = edges.get(f, [])
        return {"files": files, "root": root, "imports": imports, "externs": externs, "features": sorted(self.features),
                "target_sites": list(self.target_sites)}

    def _spell(self, importer: str, target: str) -> str:
        if target.startswith("inc/"):
            return target[len("inc/"):]                       # found through include_dirs: ["inc"] (relative to cwd = sandbox root)
        d = os.path.dirname(importer)
        return os.path.relpath(target, d)


def namespace_scopes(text: str):
    """The namespace a source position lies in, read off the text alone (block structure only; independent of the
    parser under test): returns `at(line, col) -> tuple of components` (line 1-based, column 0-based, as the
    parser reports positions). `namespace a.b {` opens a block with the components a, b; every other `{` opens a
    block without components; `#` comments and "strings" are skipped."""
    import bisect
    import re
    events = [((0, 0), ())]        # (position of the character after the brace) -> namespace from there on
    stack: list[int] = []
    cur: list[str] = []
    line, col, i, n = 1, 0, 0, len(text)
    pending = None                 # components of a `namespace x.y` header waiting for its `{`
    word = re.compile(r"[A-Za-z_][A-Za-z0-9_.]*")

    def adv(k):
        nonlocal line, col, i
        for ch in text[i:i + k]:
            if ch == "\n":
                line, col = line + 1, 0
            else:
                col += 1
        i += k
    while i < n:
        ch = text[i]
        if ch == "#":
            j = text.find("\n", i)
            adv((j if j >= 0 else n) - i)
        elif ch == '"':
            j = text.find('"', i + 1)
            adv((j + 1 if j >= 0 else n) - i)
        elif ch == "{":
            comps = pending or []
            pending = None
            stack.append(len(comps))
            cur += comps
            adv(1)
            events.append(((line, col), tuple(cur)))
        elif ch == "}":
            if stack:
                k = stack.pop()
                if k:
                    del cur[-k:]
            adv(1)
            events.append(((line, col), tuple(cur)))
        else:
            m = word.match(text, i)
            if m:
                if m.group(0) == "namespace":
                    adv(m.end() - i)
                    m2 = re.compile(r"\s*([A-Za-z_][A-Za-z0-9_.]*)").match(text, i)
                    if m2:
                        pending = [c for c in m2.group(1).split(".") if c]
                        adv(m2.end() - i)
                else:
                    adv(m.end() - i)
            else:
                adv(1)
    keys = [e[0] for e in events]

    def at(l: int, c: int) -> tuple:
        k = bisect.bisect_right(keys, (l, c)) - 1
        return events[max(k, 0)][1]
    return at


def reachable(root: str, imports: dict) -> list[str]:
    seen, todo = [root], [root]
    while todo:
        u = todo.pop()
        for v in imports.get(u, []):
            if v not in seen:
                seen.append(v)
                todo.append(v)
    return seen


# -------------------------------------------------------------------------------------------------
# configurations
# -------------------------------------------------------------------------------------------------

STYLES = ["none", "camelCase", "PascalCase", "snake_case", "kebab-case", "TRAIN_CASE"]


def out_spelling(r: random.Random, base: str, kind: str, split_ok: bool):
    """kind: rel | abs | dotrel | nested | split | split-abs | split-mixed. `{ROOT}` is replaced by the sandbox root."""
    if kind == "rel":
        return base
    if kind == "abs":
        return "{ROOT}/" + base
    if kind == "dotrel":
        return "./" + base + "/"
    if kind == "nested":
        return base + "/deep/er"
    if not split_ok:
        return base
    if kind == "split":
        return {"header": base + "/include", "source": base + "/src"}
    if kind == "split-abs":
        return {"header": "{ROOT}/" + base + "/include", "source": "{ROOT}/" + base + "/src"}
    return {"header": "{ROOT}/" + base + "_h", "source": base + "/src"}


OUT_KINDS = ["rel", "abs", "dotrel", "nested", "split", "split-abs", "split-mixed"]


def make_options(r: random.Random, targets: list[str], out_kind: str | None = None, out_root: str = "gen", naming: str = "default",
                 report: str | None = None, include_dirs=("inc",), extras: bool = True, tag: str = "") -> dict:
    """options dict for `API.configure(options=...)`"""
    gen: dict = {}
    if include_dirs:
        gen["include_dirs"] = list(include_dirs)
    if report:
        gen["list_processed_files"] = report

    def out(key, split_ok=True):
        k = out_kind or r.choice(OUT_KINDS)
        return out_spelling(r, f"{out_root}/{key}{tag}", k, split_ok)

    def style(default=None):
        if naming == "default":
            return default
        s = r.choice(STYLES)
        if naming == "prefixed" or (naming == "random" and r.random() < 0.3):
            return {"style": s, "prefix": r.choice(["x_", "Gen", "pj"])}
        return s

    need = set()
    for t in targets:
        need.update(GEN_OF_TARGET[t])
    if need & {"jni", "objcpp", "cppcli", "java", "objc"}:
        need.add("cpp")            # glue code marshalling reads `decl.cpp.*`
    if "cpp" in need:
        c = {"out": out("cpp")}
        s = style()
        if s:
            c["identifier"] = {"file": s}
        if naming != "default":
            if r.random() < 0.5:
                c["header_extension"] = r.choice(["h", "hh", "hpp"])
            if r.random() < 0.5:
                c["source_extension"] = r.choice(["cc", "cxx"])
            if r.random() < 0.4:
                c["string_serialization"] = False
            if r.random() < 0.4:
                c["namespace"] = "app::core"
        gen["cpp"] = c
    if "java" in need:
        c = {"out": out("java", split_ok=False), "package": r.choice(["foo.bar", "org.example.app"])}
        if naming != "default":
            s = style()
            if s and isinstance(s, str):
                c["identifier"] = {"type": s}
            if r.random() < 0.4:
                c["support_types_package"] = "helpers.rt"
        if extras and r.random() < 0.6:
            c["native_lib"] = r.choice(["Core", "my_lib"])
        gen["java"] = c
    if "jni" in need:
        c = {"out": out("jni"), "namespace": "pj::jni"}
        s = style()
        if s:
            c["identifier"] = {"file": s}
        elif naming == "default" and r.random() < 0.5:
            c["identifier"] = {"file": {"style": "snake_case", "prefix": "jni_"}}
        if naming != "default" and r.random() < 0.5:
            c["header_extension"] = "hh"
            c["source_extension"] = "cc"
        if extras and r.random() < 0.3:
            c["loader"] = False
        gen["jni"] = c
    if "objc" in need:
        c = {"out": out("objc")}
        if naming != "default":
            if r.random() < 0.5:
                c["type_prefix"] = r.choice(["PJ", "X"])
            s = style()
            if s and isinstance(s, str):
                c["identifier"] = {"type": s}
            if r.random() < 0.3:
                c["header_extension"] = "hh"
        if extras and r.random() < 0.5:
            c["swift"] = {"bridging_header": r.choice(["bridge.h", "swift/Bridging-Header.h"])}
        gen["objc"] = c
    if "objcpp" in need:
        c = {"out": out("objcpp"), "namespace": "pj::objcpp"}
        if naming != "default" and r.random() < 0.3:
            c["header_extension"] = "hh"
        gen["objcpp"] = c
    if "cppcli" in need:
        c = {"out": out("cppcli"), "namespace": "Pj::Cli"}
        s = style()
        if s:
            c["identifier"] = {"file": s}
        gen["cppcli"] = c
    if "yaml" in need:
        c = {"out": out("yaml", split_ok=False)}
        if extras and r.random() < 0.3:
            c["out_file"] = r.choice(["all_types.yaml", "sub/all.yaml"])
        gen["yaml"] = c
    if extras and r.random() < 0.25:
        gen["support_lib_sources"] = False
    return {"generate": gen}


# -------------------------------------------------------------------------------------------------
# running jobs
# -------------------------------------------------------------------------------------------------

def run_jobs(ctx, jobs: list[dict], workers: int = 14, hashseed: str | None = None, timeout: int = 600, tag: str = "j") -> list[dict]:
    """Runs every job in a sandbox of its own, spread over `workers` fresh interpreter processes.
    Returns the observations in job order."""
    if not jobs:
        return []
    workers = max(1, min(workers, len(jobs)))
    base = Path(ctx.tmp) / f"{tag}_{hashseed if hashseed is not None else 'd'}_{random.Random(str(len(jobs)) + tag).randrange(10**6)}"
    base.mkdir(parents=True, exist_ok=True)
    procs = []
    for w in range(workers):
        chunk = [(i, j) for i, j in enumerate(jobs) if i % workers == w]
        inp = base / f"in{w}.json"
        outp = base / f"out{w}.json"
        inp.write_text(json.dumps({"base": str(base / f"w{w}"), "jobs": [j for _, j in chunk]}))
        env = ctx.child_env()
        if hashseed is not None:
            env["PYTHONHASHSEED"] = str(hashseed)
        env.pop("PYDJINNI_VERIF_WRITELOG", None)
        p = subprocess.Popen([PY, str(WORKER), str(inp), str(outp)], env=env, cwd="/", stdout=subprocess.PIPE, stderr=subprocess.STDOUT, text=True)
        procs.append((p, outp, [i for i, _ in chunk]))
    res: list = [None] * len(jobs)
    for p, outp, idxs in procs:
        try:
            so, _ = p.communicate(timeout=timeout)
        except subprocess.TimeoutExpired:
            p.kill()
            raise
        if p.returncode != 0 or not outp.exists():
            import common
            raise common.Infra(f"system worker failed rc={p.returncode}: {so[-3000:]}")
        for i, o in zip(idxs, json.loads(outp.read_text())):
            res[i] = o
    return res


_tables = None


def live_tables(ctx) -> dict:
    """support-library listings, target/generator keys — read from the implementation under test"""
    global _tables
    if _tables is None:
        o = run_jobs(ctx, [{"op": "tables"}], workers=1, tag="tables")[0]
        _tables = o
    return _tables
