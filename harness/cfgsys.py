"""Shared machinery of the system-level checks C17 (configuration) and C19 (command line).

* config trees generated from the live JSON schema of the assembled settings model,
* the spellings of one tree as YAML / JSON / TOML text, `-o` options, environment variables, `.env` file,
* the lexical styles of each file format (`STYLES`, `styled`): one document written down in many ways, each checked with the
  format's own decoder to decode to exactly the tree,
* adapters that run the real code (`API.configure`, the click command with a recording stand-in for the API,
  parse/generate sequences, request histories on one `API` object) and classify how the call ended,
* a fork-based worker pool (every real run happens in a child process with its own scratch directory,
  environment and working directory).
"""
from __future__ import annotations

import copy
import json
import os
import re
import shutil
import sys
import traceback
import warnings
from pathlib import Path

ENV_PREFIX = "pydjinni__"
ENV_DELIM = "__"

# --------------------------------------------------------------------------------------------
# live schema
# --------------------------------------------------------------------------------------------

_SCHEMA = None


def schema() -> dict:
    global _SCHEMA
    if _SCHEMA is None:
        warnings.filterwarnings("ignore")
        from pydjinni import API
        _SCHEMA = json.loads(json.dumps(API().configuration_model.model_json_schema()))   # str-enum keys -> plain text
    return _SCHEMA


def resolve(node: dict) -> dict:
    while "$ref" in node:
        ref = node["$ref"].split("/")[-1]
        extra = {k: v for k, v in node.items() if k != "$ref"}
        node = {**schema()["$defs"][ref], **extra}
    return node


def section_props(section: str) -> dict:
    """properties of a top-level section (`generate`, `build`, `package`)"""
    top = schema()["properties"][section]
    for alt in top.get("anyOf", [top]):
        if "$ref" in alt:
            return resolve(alt)["properties"]
    return {}


def field_is_complex(path, strictly=False) -> bool:
    """is the settings field at `path` list- or dict-typed? (pydantic-settings JSON-decodes the text of such variables)
    `strictly`: and nothing else (for a union with a scalar type a text that is no JSON stays the text)"""
    nodes = [schema()]
    for k in path:
        nxt = []
        for n in nodes:
            n = resolve(n)
            for alt in n.get("anyOf", [n]):
                alt = resolve(alt)
                if k in alt.get("properties", {}):
                    nxt.append(alt["properties"][k])
        nodes = nxt
    for n in nodes:
        n = resolve(n)
        kinds = [resolve(alt).get("type") in ("array", "object") for alt in n.get("anyOf", [n]) if resolve(alt).get("type") != "null"]
        if (all(kinds) and kinds) if strictly else any(kinds):
            return True
    return False


def decode_env(env: dict | None) -> list:
    """[name, value] pairs as pydantic-settings' decoder delivers them (assumed component): JSON for list/dict-typed fields"""
    out = []
    for name, text in (env or {}).items():
        low = name.lower()
        val = text
        if low.startswith(ENV_PREFIX):
            path = low[len(ENV_PREFIX):].split(ENV_DELIM)
            if field_is_complex(path):
                try:
                    val = json.loads(text)
                except ValueError:
                    val = text
        out.append([name, val])
    return out


def all_keys() -> list[str]:
    """every property name that occurs anywhere in the settings schema"""
    out = set(schema()["properties"].keys())
    for d in schema()["$defs"].values():
        out.update(d.get("properties", {}).keys())
    return sorted(out)


# candidate texts for pattern-constrained strings (filtered per pattern with re.fullmatch)
_PATTERN_POOL = ["a::b", "::x1::y_2", "ns::inner::deep", "a.b.c", "my.pkg_name.sub1", "org.x.y1", "@Foo", "@my.pkg.Ann", "Foo",
                 "java.lang.RuntimeException", "my.pkg.Err", "E1", "x", "abc"]
_WORDS = ["out", "gen", "src", "include", "x1", "lib_a", "deep/dir", "a-b", "My Dir", "v=1", "p:q", "UPPER", "tmp.d", "_u_", "k__k", "d\u00efr\U0001F4C1"]


# Edge texts for settings that are *free text* in the schema (type string without pattern / format / enumeration: prefixes,
# file extensions, annotations, credentials, descriptions, …). Every one of them is a valid value there, and every source has to
# deliver it verbatim: the empty text, blank text, texts that read as another scalar type (number, boolean, null) or as JSON,
# and texts that contain the separators of the spellings ('=', '.', '__', '[', ']', ',', quotes, '#', ':').
EDGE_TEXTS = ["", " ", "  x ", "\t", "null", "None", "~", "true", "False", "on", "0", "1", "-1", "1.5", "1e3", "0x10", "{}", "[]",
              "{\"a\": 1}", "[1]", "[a,b]", "\"\"", "\"q\"", "''", "it's", "a=b", "=", "a.b", ".", "a__b", "__", "_", "[x", "x]", "a,b", ",",
              "#c", "x #c", "a: b", "- a", "$HOME", "%d", "a\\nb", "é", "PyDjinni__x", "a\nb",
              "\U0001F600", "a\u20ac\U0001F4C1b"]


def is_free_text(node: dict) -> bool:
    node = resolve(node)
    return node.get("type") == "string" and not any(k in node for k in ("pattern", "format", "enum", "const"))


def _alts(node: dict) -> list[dict]:
    node = resolve(node)
    return [resolve(a) for a in node.get("anyOf", [node])]


def has_free_text(node: dict, depth=0) -> bool:
    """is there a free-text setting at or below this schema node (a text, a list of texts, or a section that holds one)?"""
    if depth > 8:
        return False
    for a in _alts(node):
        if is_free_text(a):
            return True
        if a.get("type") == "array" and is_free_text(a.get("items", {})):
            return True
        if a.get("type") == "object" and any(has_free_text(s, depth + 1) for s in a.get("properties", {}).values()):
            return True
    return False


def free_text_paths(node: dict | None = None, prefix=()) -> list[tuple]:
    """paths of all free-text settings of the live schema (list-valued ones end in '[]')"""
    node = schema() if node is None else node
    out = []
    for a in _alts(node):
        if is_free_text(a):
            out.append(prefix)
        elif a.get("type") == "array" and is_free_text(a.get("items", {})):
            out.append(prefix + ("[]",))
        elif a.get("type") == "object" and len(prefix) < 8:
            for k, s in a.get("properties", {}).items():
                out += free_text_paths(s, prefix + (k,))
    return sorted(set(out), key=out.index)


def text_in_all_spellings(s: str) -> bool:
    """does a text have a spelling in every source (file, `-o`, environment variable, `.env` line)?"""
    return opt_text(s) is not None and "'" not in s and "\n" not in s and "\\" not in s and "\x00" not in s and "${" not in s


class TreeGen:
    """type-directed generator of valid configuration values from the JSON schema"""

    def __init__(self, rng, p_optional=0.35, plain=False, p_edge=0.0, edge=None):
        self.r = rng
        self.p = p_optional
        self.plain = plain  # only text/bool/enum/list leaves that every spelling can express
        self.p_edge = p_edge  # free-text settings take an edge text with this probability
        self.edge = edge      # callable -> next edge text: then *every* free-text setting is present and takes one

    def text(self):
        w = self.r.choice(_WORDS[:8] if self.plain else _WORDS)
        if self.r.random() < 0.3:
            w += self.r.choice(["", "2", "_b", "/sub"])
        return w

    def free_text(self):
        if self.edge is not None:
            return self.edge()
        if self.p_edge and self.r.random() < self.p_edge:
            pool = [s for s in EDGE_TEXTS if text_in_all_spellings(s)] if self.plain else EDGE_TEXTS
            return self.r.choice(pool)
        return self.text()

    def value(self, node: dict, depth=0):
        node = resolve(node)
        if "anyOf" in node:
            alts = [a for a in node["anyOf"] if resolve(a).get("type") != "null"]
            if self.edge is not None and any(has_free_text(a) for a in alts):
                alts = [a for a in alts if has_free_text(a)]
            return self.value(self.r.choice(alts), depth)
        if "enum" in node:
            return self.r.choice(node["enum"])
        if "const" in node:
            return node["const"]
        t = node.get("type")
        if t == "object":
            return self.obj(node, depth)
        if t == "array":
            items = node.get("items", {"type": "string"})
            n = self.r.choice([1, 1, 2, 3])
            vals = [self.value(items, depth + 1) for _ in range(n)]
            if self.plain:   # an element with a comma has no `-o` spelling
                vals = [v.replace(",", ";") if isinstance(v, str) else v for v in vals]
            if node.get("uniqueItems"):
                vals = sorted(set(vals), key=vals.index)
            return vals
        if t == "boolean":
            return self.r.random() < 0.5
        if t == "integer":
            return self.r.randrange(0, 50)
        if t == "number":
            return self.r.randrange(0, 50)
        if t == "string":
            if "pattern" in node:
                ok = [c for c in _PATTERN_POOL if re.fullmatch(node["pattern"], c)]
                return self.r.choice(ok) if ok else None
            if node.get("format") == "uri":
                return "https://example.org/repo"
            return self.free_text() if is_free_text(node) else self.text()
        return None

    def obj(self, node: dict, depth=0, force=()):
        node = resolve(node)
        out = {}
        req = set(node.get("required", []))
        for k, sub in node.get("properties", {}).items():
            if k in req or k in force or (self.edge is not None and has_free_text(sub)) or self.r.random() < self.p / (1 + depth * 0.5):
                v = self.value(sub, depth + 1)
                if v is None or v == {}:
                    if k in req:
                        v = self.text() if v is None else v
                    else:
                        continue
                out[k] = v
        return out

    def generate_section(self, generators=None, extras=True):
        """a `generate` section: chosen generator sections (all required fields, random optional ones) + general options"""
        props = section_props("generate")
        gen_keys = [k for k, v in props.items() if "$ref" in v]
        if generators is None:
            generators = [g for g in gen_keys if self.r.random() < 0.4] or [self.r.choice(gen_keys)]
        out = {}
        if extras:
            for k, v in props.items():
                if k not in gen_keys and self.r.random() < self.p:
                    out[k] = self.value(v, 1)
        for g in generators:
            out[g] = self.obj(props[g], 1)
        return out

    def tree(self, generators=None):
        d = {"generate": self.generate_section(generators)}
        if not self.plain and self.r.random() < 0.2:
            d["build"] = {"conan": self.obj(section_props("build")["conan"], 1)} if self.r.random() < 0.7 else {}
            if d["build"] == {}:
                del d["build"]
        if not self.plain and self.r.random() < 0.2:
            d["package"] = self.obj(schema()["$defs"]["Package"], 1)
        return d


def edge_units() -> list[tuple[tuple, dict]]:
    """(path, schema node) of the units in which edge texts are exercised: every section below `generate` that holds a
    free-text setting, and every other top-level section that does"""
    out = []
    for top, node in schema()["properties"].items():
        if top == "generate":
            for k, v in section_props("generate").items():
                if has_free_text(v):
                    out.append((("generate", k), v))
        elif has_free_text(node):
            out.append(((top,), node))
    return out


def edge_tree(rng, unit: tuple[tuple, dict], rotation: int, only: int | None = None) -> tuple[dict, list[tuple]]:
    """a valid tree for one unit in which every free-text setting is present; the j-th one (document order) holds
    EDGE_TEXTS[(j + rotation) mod K], so that K rotations put every edge text into every free-text setting.
    `only`: just the j-th free-text setting takes an edge text (the others are ordinary words).
    Returns (tree, paths of the leaves that hold an edge text)."""
    counter = [0]
    used = []
    g = TreeGen(rng, p_optional=0.0)

    def nxt():
        j = counter[0]
        counter[0] += 1
        if only is not None and j != only:
            return g.text()
        v = EDGE_TEXTS[(j + rotation) % len(EDGE_TEXTS)]
        used.append(v)
        return v
    g.edge = nxt
    path, node = unit
    val = g.value(node, len(path))
    tree = from_leaves([(path, val)])
    marked = [p for p, v in leaves(tree) if (v in used if isinstance(v, str) else isinstance(v, list) and any(x in used for x in v))]
    return tree, marked


def minimal_sections() -> dict:
    """for every generator key the smallest valid section (required fields only), output below `out/<key>`"""
    import random
    g = TreeGen(random.Random(0), p_optional=0.0)
    props = section_props("generate")
    out = {}
    for k, v in props.items():
        if "$ref" in v:
            sec = g.obj(v, 1)
            if "out" in sec:
                sec["out"] = f"out/{k}"
            out[k] = sec
    return out


# --------------------------------------------------------------------------------------------
# trees: leaves, spellings
# --------------------------------------------------------------------------------------------

def leaves(tree: dict, prefix=()) -> list[tuple[tuple, object]]:
    out = []
    for k, v in tree.items():
        if isinstance(v, dict):
            out += leaves(v, prefix + (k,))
        else:
            out.append((prefix + (k,), v))
    return out


def from_leaves(ls) -> dict:
    out = {}
    for path, v in ls:
        d = out
        for k in path[:-1]:
            d = d.setdefault(k, {})
        d[path[-1]] = v
    return out


def has_empty_dict(tree: dict) -> bool:
    return any((v == {} or has_empty_dict(v)) for v in tree.values() if isinstance(v, dict))


def opt_text(v) -> str | None:
    """the `-o` spelling of a leaf value; None when the syntax cannot express it"""
    if isinstance(v, bool):
        return "true" if v else "false"
    if isinstance(v, (int, float)):
        return str(v)
    if isinstance(v, str):
        return None if (v.startswith("[") and v.endswith("]")) else v
    if isinstance(v, list):
        if not v or not all(isinstance(x, str) and "," not in x for x in v):
            return None
        return "[" + ",".join(v) + "]"
    return None


def to_opts(tree: dict) -> list[str] | None:
    out = []
    for path, v in leaves(tree):
        t = opt_text(v)
        if t is None or any(("." in k or "=" in k) for k in path):
            return None
        out.append(".".join(path) + "=" + t)
    return out


def env_text(v) -> str | None:
    if isinstance(v, bool):
        return "true" if v else "false"
    if isinstance(v, (int, float)):
        return str(v)
    if isinstance(v, str):
        return v
    if isinstance(v, list):
        return json.dumps(v)
    return None


def to_env(tree: dict, upper=False) -> dict | None:
    out = {}
    for path, v in leaves(tree):
        t = env_text(v)
        if t is None or len(path) < 2 or "\x00" in t:
            return None
        name = ENV_PREFIX + ENV_DELIM.join(path)
        out[name.upper() if upper else name] = t
    return out


def dotenv_ok(v) -> bool:
    """can the value be written as a single-quoted `.env` line? (no quote, line break, escape or `${…}` expansion)"""
    t = env_text(v)
    return t is not None and not any(x in t for x in ("'", "\n", "\\", "${", "\x00"))


def to_dotenv(tree: dict) -> str | None:
    env = to_env(tree)
    if env is None:
        return None
    lines = []
    for k, v in env.items():
        if not dotenv_ok(v):
            return None
        lines.append(f"{k}='{v}'")
    return "\n".join(lines) + "\n"


def to_yaml(tree) -> str:
    import yaml
    return yaml.safe_dump(tree, sort_keys=False)


def to_json(tree) -> str:
    return json.dumps(tree, indent=1)


def to_toml(tree) -> str:
    import tomli_w
    return tomli_w.dumps(tree)


# --------------------------------------------------------------------------------------------
# lexical styles: the many ways in which ONE document is written down in each file format
# --------------------------------------------------------------------------------------------
# A file format is a language, not one serialiser's output: indentation (spaces, tabs, none), compact / spaced separators, escaped
# or literal non-ASCII and non-BMP characters, key order, line ends, comments, flow / block collections, quoting styles, inline
# tables / dotted keys. Every styled text is checked by the harness itself to decode — with the format's own decoder, an assumed
# component — to exactly the tree it was written from (`styled` returns None otherwise), so all of them spell the same settings.

def _reorder(x, order: str):
    if isinstance(x, dict):
        ks = list(x)
        if order == "sorted":
            ks = sorted(ks)
        elif order == "reversed":
            ks = ks[::-1]
        return {k: _reorder(x[k], order) for k in ks}
    if isinstance(x, list):
        return [_reorder(v, order) for v in x]
    return x


def _u_escape(o: int) -> str:
    if o > 0xFFFF:
        o -= 0x10000
        return "\\u%04x\\u%04x" % (0xD800 + (o >> 10), 0xDC00 + (o & 0x3FF))
    return "\\u%04x" % o


def _json_str(s: str, esc: str) -> str:
    out = ['"']
    for ch in s:
        o = ord(ch)
        if esc == "all" or o < 0x20 or (esc in ("ascii", "ASCII") and o > 0x7E):
            e = _u_escape(o)
            out.append(e.upper().replace("\\U", "\\u") if esc == "ASCII" else e)
        elif ch in '"\\':
            out.append("\\" + ch)
        elif ch == "/" and esc == "all":
            out.append("\\/")
        else:
            out.append(ch)
    return "".join(out) + '"'


def _json_write(x, indent, item_sep, key_sep, esc, nl, level=0) -> str:
    if isinstance(x, dict) or isinstance(x, list):
        items = ([_json_str(k, esc) + key_sep + _json_write(v, indent, item_sep, key_sep, esc, nl, level + 1) for k, v in x.items()]
                 if isinstance(x, dict) else [_json_write(v, indent, item_sep, key_sep, esc, nl, level + 1) for v in x])
        o, c = "{}" if isinstance(x, dict) else "[]"
        if not items:
            return o + c
        if indent is None:
            return o + item_sep.join(items) + c
        pad = nl + indent * (level + 1)
        return o + pad + ("," + pad).join(items) + nl + indent * level + c
    if isinstance(x, str):
        return _json_str(x, esc)
    return json.dumps(x)


JSON_STYLES = {
    "compact": dict(indent=None, item_sep=",", key_sep=":"),
    "one-line": dict(indent=None),
    "indent-2": dict(indent="  "),
    "indent-4-literal": dict(indent="    ", esc="literal", trail="\n"),
    "indent-tab": dict(indent="\t"),
    "indent-tab-literal": dict(indent="\t", esc="literal", trail="\n"),
    "indent-mixed": dict(indent=" \t"),
    "lines-only": dict(indent=""),
    "escaped-upper": dict(indent=" ", esc="ASCII"),
    "escape-every-character": dict(indent="  ", esc="all"),
    "sorted-keys": dict(indent=" ", order="sorted", trail="\n"),
    "reversed-keys": dict(indent=None, order="reversed", esc="literal"),
    "crlf": dict(indent="  ", nl="\r\n", trail="\r\n"),
    "padded": dict(indent=None, lead=" \n\t\r\n", trail=" \n\n\t"),
    "wide-separators": dict(indent=None, item_sep=" ,\t", key_sep=" :\n "),
}


def json_styled(tree, style: str) -> str:
    p = JSON_STYLES[style]
    text = _json_write(_reorder(tree, p.get("order", "")), p.get("indent"), p.get("item_sep", ", "), p.get("key_sep", ": "),
                       p.get("esc", "ascii"), p.get("nl", "\n"))
    return p.get("lead", "") + text + p.get("trail", "")


YAML_STYLES = {
    "block": dict(),
    "block-indent-4": dict(indent=4),
    "block-indent-8-unicode": dict(indent=8, allow_unicode=True),
    "flow": dict(default_flow_style=True),
    "flow-one-line-unicode": dict(default_flow_style=True, width=1000000, allow_unicode=True),
    "flow-leaves": dict(default_flow_style=None),
    "unicode": dict(allow_unicode=True),
    "double-quoted": dict(default_style='"'),
    "single-quoted-unicode": dict(default_style="'", allow_unicode=True),
    "document-markers": dict(explicit_start=True, explicit_end=True),
    "sorted-keys": dict(sort_keys=True),
    "narrow": dict(width=12),
    "crlf": dict(line_break="\r\n"),
    "canonical": dict(canonical=True),
    "commented": dict(allow_unicode=True, post="comments"),
    "json-text": dict(post="json"),
    "json-text-tab-indented-literal": dict(post="json-literal"),
}


def yaml_styled(tree, style: str) -> str:
    import yaml
    p = dict(YAML_STYLES[style])
    post = p.pop("post", None)
    if post == "json":          # flow collections with double-quoted scalars: a JSON text that stays on the YAML side of the languages
        return json.dumps(tree, indent=1)
    if post == "json-literal":
        return json.dumps(tree, ensure_ascii=False)
    p.setdefault("sort_keys", False)
    text = yaml.safe_dump(tree, **p)
    if post == "comments":
        lines = text.split("\n")
        text = "# settings\n%YAML 1.1\n---\n" + "\n".join(l + ("   # c" if l.endswith(":") else "") for l in lines) + "\n\n# end\n"
    return text


def _toml_key(k: str, quote: str) -> str:
    if quote == "bare" and re.fullmatch(r"[A-Za-z0-9_-]+", k):
        return k
    if quote == "literal" and "'" not in k and "\n" not in k:
        return "'" + k + "'"
    return _toml_str(k, "basic")


def _toml_str(s: str, how: str) -> str:
    if how == "literal" and "'" not in s and not any(ord(c) < 0x20 and c != "\t" or ord(c) == 0x7F for c in s):
        return "'" + s + "'"
    if how == "multiline" and not any(ord(c) < 0x20 and c not in "\t\n" or ord(c) == 0x7F for c in s) and "'''" not in s and not s.endswith("'"):
        return "'''\n" + s + "'''"
    out = ['"']
    for ch in s:
        o = ord(ch)
        if ch in '"\\':
            out.append("\\" + ch)
        elif o < 0x20 or o == 0x7F or (how == "escaped" and o > 0x7E):
            out.append({"\n": "\\n", "\t": "\\t", "\r": "\\r"}.get(ch) if ch in "\n\t\r" and how != "escaped" else
                       ("\\U%08x" % o if o > 0xFFFF else "\\u%04x" % o))
        else:
            out.append(ch)
    return "".join(out) + '"'


def _toml_val(v, p) -> str:
    if isinstance(v, bool):
        return "true" if v else "false"
    if isinstance(v, int):
        return str(v)
    if isinstance(v, float):
        return repr(v)
    if isinstance(v, str):
        return _toml_str(v, p.get("strings", "basic"))
    if isinstance(v, list):
        items = [_toml_val(x, p) for x in v]
        if p.get("arrays") == "multiline" and items:
            return "[\n" + "".join(f"\t{i},  # item\n" for i in items) + "]"
        return "[" + ", ".join(items) + "]"
    if isinstance(v, dict):
        if not v:
            return "{}"
        return "{ " + ", ".join(_toml_key(k, p.get("keys", "bare")) + " = " + _toml_val(x, p) for k, x in v.items()) + " }"
    raise ValueError(f"no TOML spelling for {v!r}")


TOML_STYLES = {
    "tables": dict(layout="lib"),
    "tables-multiline-strings": dict(layout="lib", multiline=True),
    "dotted-keys": dict(layout="dotted"),
    "dotted-keys-literal-strings": dict(layout="dotted", strings="literal", keys="literal"),
    "inline-tables": dict(layout="inline"),
    "inline-tables-escaped": dict(layout="inline", strings="escaped", keys="basic"),
    "headers": dict(layout="headers", arrays="multiline"),
    "headers-quoted-keys-crlf": dict(layout="headers", keys="basic", strings="escaped", nl="\r\n"),
    "headers-dotted-below": dict(layout="headers1", strings="literal"),
    "headers-commented-multiline": dict(layout="headers", strings="multiline", comments=True),
}


def toml_styled(tree, style: str) -> str:
    p = TOML_STYLES[style]
    lay = p["layout"]
    kq = p.get("keys", "bare")
    if lay == "lib":
        import tomli_w
        return tomli_w.dumps(tree, multiline_strings=bool(p.get("multiline")))
    lines = []
    if p.get("comments"):
        lines.append("# settings")
    if lay == "dotted":
        for path, v in leaves(tree):
            lines.append(".".join(_toml_key(k, kq) for k in path) + " = " + _toml_val(v, p))
    elif lay == "inline":
        for k, v in tree.items():
            lines.append(_toml_key(k, kq) + " = " + _toml_val(v, p))
    else:
        depth = 1 if lay == "headers1" else 99

        def table(path, d, level):
            scal = [(k, v) for k, v in d.items() if not isinstance(v, dict)]
            subs = [(k, v) for k, v in d.items() if isinstance(v, dict)]
            if level >= depth:
                scal = leaves(d)
                scal = [(".".join(_toml_key(x, kq) for x in pth), v) for pth, v in scal]
                subs = []
            else:
                scal = [(_toml_key(k, kq), v) for k, v in scal]
            if path and (scal or not subs):
                lines.append(("" if not lines else "\n") + "[" + " . ".join(_toml_key(k, kq) for k in path) + "]" + ("  # table" if p.get("comments") else ""))
            for k, v in scal:
                lines.append(("  " if path else "") + k + " = " + _toml_val(v, p) + ("   # value" if p.get("comments") else ""))
            for k, v in subs:
                table(path + (k,), v, level + 1)
        table((), tree, 0)
    return p.get("nl", "\n").join("\n".join(lines).split("\n")) + p.get("nl", "\n")


STYLES = {"yaml": YAML_STYLES, "yml": YAML_STYLES, "json": JSON_STYLES, "toml": TOML_STYLES}


def decode_text(fmt: str, text: str):
    """the format's own decoder (assumed component), on the bytes of the file"""
    data = text.encode("utf-8")
    if fmt in ("yaml", "yml"):
        import yaml
        return yaml.safe_load(data)
    if fmt == "json":
        return json.loads(data)
    import tomllib
    return tomllib.loads(data.decode("utf-8"))


def styled(tree: dict, fmt: str, style: str) -> str | None:
    """`tree` written in file format `fmt` in the lexical style `style`; None when the style cannot express this tree (checked
    with the format's own decoder: the text decodes to exactly `tree`, same keys, same values, same value types)"""
    try:
        text = {"yaml": yaml_styled, "yml": yaml_styled, "json": json_styled, "toml": toml_styled}[fmt](tree, style)
        doc = decode_text(fmt, text)
    except Exception:  # noqa
        return None
    return text if canon_typed(doc) == canon_typed(tree) else None


def canon_typed(x):
    """canonical text that keeps bool / int / float / str apart and ignores dict order"""
    if isinstance(x, dict):
        return "{" + ",".join(json.dumps(k, ensure_ascii=False) + ":" + canon_typed(x[k]) for k in sorted(x)) + "}"
    if isinstance(x, list):
        return "[" + ",".join(canon_typed(v) for v in x) + "]"
    return type(x).__name__ + ":" + (json.dumps(x, ensure_ascii=False) if isinstance(x, (str, int, float, bool)) or x is None else repr(x))


def canon(x):
    """canonical JSON text of an observation (dict order is irrelevant). Characters are kept as they are: escaped, a character
    outside the BMP and the two lone surrogates a careless decoder makes of its escape would look the same"""
    return json.dumps(x, sort_keys=True, default=str, ensure_ascii=False)


# --------------------------------------------------------------------------------------------
# texts that are not valid Unicode; malformed values as single assignments; the sources of a configuration
# --------------------------------------------------------------------------------------------
# A Python `str` may hold lone surrogates: the JSON / YAML decoders make them of escapes (`"\ud800"`), an undecodable byte of a
# command-line argument or of an environment variable arrives as U+DC80..U+DCFF (PEP 383). The Lean model's strings are sequences of
# Unicode scalar values: on the way to the driver the surrogate U+D800+i is written as the private-use character U+E000+i (the
# generators never use these themselves), and read back on the way out.

NOT_UNICODE = ["h\udcff", "\ud800", "a\ud83d", "\udc00b", "x\udfffy", "\ude00\ud83d", "\udcff", "p\udc80q\udcfe"]


def encodable(x) -> bool:
    """no key and no text anywhere in `x` is a `str` that cannot be encoded (UTF-8)"""
    if isinstance(x, str):
        try:
            x.encode("utf-8")
            return True
        except UnicodeEncodeError:
            return False
    if isinstance(x, dict):
        return all(encodable(k) and encodable(v) for k, v in x.items())
    if isinstance(x, (list, tuple)):
        return all(encodable(v) for v in x)
    return True


def argv_text(s: str) -> bool:
    """can the text travel through `argv` / the process environment? (bytes that are not UTF-8 are U+DC80..U+DCFF; no NUL)"""
    try:
        os.fsencode(s)
        return "\x00" not in s
    except (UnicodeEncodeError, ValueError):
        return False


def _map_chars(x, f):
    if isinstance(x, str):
        return f(x)
    if isinstance(x, dict):
        return {_map_chars(k, f) if isinstance(k, str) else k: _map_chars(v, f) for k, v in x.items()}
    if isinstance(x, (list, tuple)):
        return [_map_chars(v, f) for v in x]
    return x


def _s2p(s: str) -> str:
    if not any(0xD800 <= ord(c) <= 0xDFFF or 0xE000 <= ord(c) <= 0xE7FF for c in s):
        return s
    if any(0xE000 <= ord(c) <= 0xE7FF for c in s):
        raise ValueError(f"the private-use characters U+E000..U+E7FF stand for lone surrogates on the way to the model: {ascii(s)}")
    return "".join(chr(ord(c) + 0x800) if 0xD800 <= ord(c) <= 0xDFFF else c for c in s)


def _p2s(s: str) -> str:
    if not any(0xE000 <= ord(c) <= 0xE7FF for c in s):
        return s
    return "".join(chr(ord(c) - 0x800) if 0xE000 <= ord(c) <= 0xE7FF else c for c in s)


def sur2pua(x):
    """a request for the model driver: lone surrogates as private-use characters"""
    return _map_chars(x, _s2p)


def pua2sur(x):
    """an answer of the model driver: back again"""
    return _map_chars(x, _p2s)


ABSENT = "<absent>"


def _free_text_prop(section: str) -> str | None:
    node = resolve(section_props("generate")[section])
    for k, v in node.get("properties", {}).items():
        if k != "out" and is_free_text(v) and any(is_free_text(a) for a in _alts(v)):
            return k
    return None


def malformed_assignments(rng, tree: dict, rot: int = 0) -> list[dict]:
    """single assignments that make the valid `tree` malformed: {'kind', 'path', 'bad', 'good', 'named'} — the key at `path` given a value
    `bad` that the documented schema refuses (ill-typed, out of an enumeration, a key that does not exist, a text / key that is not valid
    Unicode); `good`: a valid value for that key (ABSENT when the key itself is what is wrong or a whole section would be needed);
    `named`: the dotted key a diagnostic has to name. `text`: the bad value is a text / a list of texts, i.e. every source delivers it as it is."""
    gens = [k for k, v in tree["generate"].items() if isinstance(v, dict)]
    g = gens[rot % len(gens)]
    at = lambda path: next((v for p, v in leaves(tree) if p == path), ABSENT)

    def a(kind, path, bad, good=ABSENT, named=None):
        cur = at(path)
        return {"kind": kind, "path": list(path), "bad": bad, "good": cur if cur is not ABSENT and good is not ABSENT else good,
                "named": named if named is not None else ".".join(path),
                "text": isinstance(bad, str) or (isinstance(bad, list) and all(isinstance(x, str) for x in bad))}
    out = [
        a("unknown-top-key", ("bogus",), "1"),
        a("unknown-nested-key", ("generate", g, "bogus_key"), "x"),
        a("unknown-generate-key", ("generate", "bogus_gen", "out"), "x", named="generate.bogus_gen"),
        a("scalar-for-section", ("generate", g), "text"),
        a("garbage-for-bool", ("generate", "support_lib_sources"), "maybe", False),
        a("bad-enum-in-list", ("generate", "default_deriving"), ["eq", "nope"], ["eq"]),
        a("text-for-list", ("generate", "include_dirs"), "single", ["inc"]),
        a("bad-list-element", ("generate", "include_dirs"), ["ok", ["nested"]], ["inc"]),
        a("number-for-path", ("generate", g, "out"), 5, "out/other"),
        a("list-for-path", ("generate", g, "out"), ["a", "b"], "out/other"),
        a("null-for-required", ("generate", g, "out"), None, "out/other"),
    ]
    if g in ("cpp", "java", "jni", "objc", "cppcli"):
        out.append(a("bad-identifier-style", ("generate", g, "identifier", "enum"), "shouting", "snake_case"))
        out.append(a("unknown-identifier-kind", ("generate", g, "identifier", "bogus_kind"), "snake_case"))
    # texts that are not valid Unicode: in a free text, a path, an item of a list, where an enumerator / a boolean is expected, in a key
    nu = lambda j: NOT_UNICODE[(rot + j) % len(NOT_UNICODE)]
    ft = _free_text_prop(g)
    if ft is not None:
        out.append(a("not-encodable-text", ("generate", g, ft), nu(0), "hh"))
    out += [
        a("not-encodable-text", ("generate", g, "out"), "out/" + nu(1), "out/other"),
        a("not-encodable-text", ("generate", "include_dirs"), ["inc", "d" + nu(2)], ["inc"]),
        a("not-encodable-text", ("generate", "default_deriving"), [nu(3)], ["eq"]),
        a("not-encodable-text", ("generate", "support_lib_sources"), nu(4), True),
        a("not-encodable-text", ("generate", "list_processed_files"), nu(5) + ".json", "out/report.json"),
        a("not-encodable-key", ("generate", g, "k" + nu(6)), "x", named="generate." + g),
        a("not-encodable-key", ("t" + nu(7),), "x", named=""),
    ]
    return out


SOURCE_RANK = {"dict": 3, "opts": 3, "file": 2, "env": 1, "dotenv": 0}


def source_case(parts: dict) -> dict | None:
    """a `configure` case (`run_configure`) that delivers every tree of `parts` through its source: {'dict' | 'opts' | 'file:<fmt>[~<style>]' |
    'env' | 'ENV' | 'dotenv': tree}; None when a source cannot express its tree (checked with the format's own decoder for files)"""
    case = {}
    for src, tree in parts.items():
        if not tree:
            continue
        if src == "dict":
            case["options"] = tree
        elif src == "opts":
            if has_empty_dict(tree):
                return None
            o = to_opts(tree)
            if o is None:
                return None
            case["cli_opts"] = o
        elif src.startswith("file:"):
            fmt, _, style = src[5:].partition("~")
            try:
                text = styled(tree, fmt, style) if style else None
                if text is None:
                    text = {"yaml": to_yaml, "yml": to_yaml, "json": to_json, "toml": to_toml}[fmt](tree)
                text.encode("utf-8")
                if canon_typed(decode_text(fmt, text)) != canon_typed(tree):
                    return None
            except Exception:  # noqa  (TOML has no null, no text that is not Unicode, …)
                return None
            case["file"] = {"name": f"c.{fmt}", "text": text}
        elif src in ("env", "ENV"):
            e = to_env(tree, upper=(src == "ENV"))
            if e is None or not env_verbatim(tree) or not all(argv_text(k) and argv_text(v) and envsafe_name(k) for k, v in e.items()):
                return None
            case["env"] = e
        elif src == "dotenv":
            e, d = to_env(tree), to_dotenv(tree)
            if e is None or d is None or not env_verbatim(tree) or not encodable(d) or not all(envsafe_name(k) for k in e):
                return None
            case["dotenv"], case["dotenv_vars"] = d, e
        else:
            raise ValueError(src)
    if "options" in case and "cli_opts" in case:
        raise ValueError("one explicit source per case")
    if "file" not in case and "options" not in case and "cli_opts" not in case:
        return None
    if "options" not in case and "cli_opts" not in case:
        case["positional_only"] = True
    return case


def env_verbatim(tree: dict) -> bool:
    """does the environment deliver every value of the tree as it is? A list is written as JSON text, which is decoded only for settings
    that are list- or dictionary-typed (for a text-typed setting the JSON text itself would be the value)"""
    return all(not isinstance(v, list) or field_is_complex(p) for p, v in leaves(tree))


def envsafe_name(name: str) -> bool:
    """a variable name whose `__` nesting reads back as the path it was made from (lower-case keys, no `__` inside a key, none at its end)"""
    body = name[len(ENV_PREFIX):]
    keys = body.split(ENV_DELIM)
    return all(k and not k.endswith("_") and not k.startswith("_") for k in keys) and ENV_DELIM.join(keys) == body and encodable(name)


def text_only(v) -> bool:
    return isinstance(v, str) or (isinstance(v, list) and bool(v) and all(isinstance(x, str) for x in v))


def set_path(tree: dict, path, value) -> dict:
    """a copy of `tree` with `value` at `path` (whatever was there or below is replaced)"""
    out = copy.deepcopy(tree)
    d = out
    for k in path[:-1]:
        if not isinstance(d.get(k), dict):
            d[k] = {}
        d = d[k]
    d[path[-1]] = copy.deepcopy(value)
    return out


def without_path(tree: dict, path) -> dict:
    """a copy of `tree` without the key at `path` (dictionaries that become empty go too)"""
    out = copy.deepcopy(tree)
    chain, d = [], out
    for k in path[:-1]:
        if not isinstance(d.get(k), dict):
            return out
        chain.append((d, k))
        d = d[k]
    d.pop(path[-1], None)
    for parent, k in reversed(chain):
        if parent[k] == {}:
            del parent[k]
    return out


def named_keys_of(msg: str | None) -> list[str]:
    """the configuration keys a diagnostic names: `'a.b': …` (configure's own checks) / `in key 'a.b': …` (validation errors), one per line"""
    return re.findall(r"(?m)^(?:in key )?'([^'\n]*)':", msg or "")


def undecodable_env(env: dict | None) -> list[str]:
    """variables of list- / dictionary-typed settings whose text is no JSON: pydantic-settings' environment source refuses them while it
    gathers the variables — whether or not a source of higher precedence sets the same key"""
    out = []
    for name, text in (env or {}).items():
        low = name.lower()
        if low.startswith(ENV_PREFIX) and field_is_complex(low[len(ENV_PREFIX):].split(ENV_DELIM), strictly=True):
            try:
                json.loads(text)
            except ValueError:
                out.append(name)
    return out


# --------------------------------------------------------------------------------------------
# running the real code
# --------------------------------------------------------------------------------------------

def position_of(e) -> list | None:
    """[file name, line, column] of a diagnostic that carries a position (what its message has to name)"""
    p = getattr(e, "position", None)
    if p is None or getattr(p, "file", None) is None or getattr(p, "start", None) is None:
        return None
    return [Path(str(p.file)).name, p.start.line, p.start.col]


def first_position(e: BaseException) -> list | None:
    """position of the first reported error of what was raised"""
    items = getattr(e, "items", None)
    if isinstance(items, list):
        return position_of(items[0]) if items else None
    return position_of(e)


def classify(e: BaseException) -> dict:
    from pydjinni.exceptions import ApplicationException, ApplicationExceptionList
    tb = traceback.extract_tb(e.__traceback__)
    site = ""
    for fr in reversed(tb):
        if "pydjinni" in fr.filename:
            site = f"{Path(fr.filename).name}:{fr.name}"
            break
    if isinstance(e, ApplicationException) and getattr(e, "code", None):
        return {"kind": "app", "code": e.code, "cls": type(e).__name__, **message_of(e)}
    if isinstance(e, ApplicationExceptionList):
        codes = [getattr(i, "code", None) for i in e.items]
        ms = [message_of(i) for i in e.items]
        bad = next((m["unprintable"] for m in ms if "unprintable" in m), None)
        return {"kind": "applist", "codes": codes, "code": codes[0] if codes else None, "cls": type(e).__name__,
                "msg": "; ".join(m["msg"] for m in ms)[:300], **({"unprintable": bad} if bad else {})}
    return {"kind": "crash", "cls": type(e).__name__, "site": site, "msg": message_of(e)["msg"]}


def message_of(e: BaseException) -> dict:
    """{'msg'} — the text of a diagnostic as `main()` / a caller would print it; {'msg', 'unprintable': class} when rendering it fails"""
    try:
        return {"msg": str(e)[:300]}
    except BaseException as x:  # noqa
        return {"msg": f"<the diagnostic cannot be rendered: {type(x).__name__}: {str(x)[:150]}>", "unprintable": type(x).__name__}


class _Captured(Exception):
    def __init__(self, path, options):
        self.path, self.options = path, options


def cli_options(args: list[str]) -> dict:
    """run the real click command line up to the point where it calls `API().configure(path, options)`;
    returns what it passed ({'kind': 'captured', 'path', 'options'}) or how it ended before"""
    import click
    import pydjinni.cli.cli as climod

    class FakeAPI:
        def configure(self, path=None, options=None):
            raise _Captured(path, copy.deepcopy(options))

    real = climod.API
    climod.API = FakeAPI
    import logging
    try:
        climod.cli.main(args=list(args), prog_name="pydjinni", standalone_mode=False)
        return {"kind": "returned"}
    except _Captured as c:
        return {"kind": "captured", "path": None if c.path is None else str(c.path), "options": json.loads(json.dumps(c.options))}
    except click.exceptions.ClickException as e:
        return {"kind": "usage", "cls": type(e).__name__, "msg": e.format_message()[:200]}
    except click.exceptions.Exit as e:
        return {"kind": "exit", "code": e.exit_code}
    except BaseException as e:  # noqa
        return classify(e)
    finally:
        climod.API = real
        logging.getLogger().handlers.clear()


def write_file(base: Path, spec: dict | None) -> Path | None:
    """materialise a config file description: {'name', 'text' | 'bytes' (latin-1 str) | 'dir' | 'missing'}"""
    if spec is None:
        return None
    p = base / spec["name"]
    if p.is_dir():
        shutil.rmtree(p)
    elif p.exists():
        p.unlink()
    if spec.get("missing"):
        return p
    if spec.get("dir"):
        p.mkdir()
        return p
    if "bytes" in spec:
        p.write_bytes(spec["bytes"].encode("latin-1"))
    else:
        p.write_text(spec["text"], encoding="utf-8")
    return p


_API = None


def _api(fresh=False):
    global _API
    from pydjinni import API
    if fresh or _API is None:
        _API = API()
    return _API


def run_configure(base: Path, case: dict) -> dict:
    """one `API.configure` call with everything a case describes; observation = how it ended, `model_dump`,
    `generate.model_fields_set`, and the dict that reached validation"""
    warnings.filterwarnings("ignore")
    api = _api()
    path = write_file(base, case.get("file"))
    dotenv = base / ".env"
    if dotenv.exists():
        dotenv.unlink()
    if case.get("dotenv") is not None:
        dotenv.write_text(case["dotenv"])
    options = case.get("options")
    obs = {}
    if case.get("cli_opts") is not None:
        args = []
        for o in case["cli_opts"]:
            args += ["-o", o]
        args += ["--config", "None", "generate", "x.djinni", "cpp"]
        c = cli_options(args)
        obs["cli"] = c
        if c["kind"] != "captured":
            c = dict(c)
            c["stage"] = "options"
            return {**c, "cli": obs["cli"]}
        options = c["options"]
    saved_env = dict(os.environ)
    for k in [k for k in os.environ if k.lower().startswith(ENV_PREFIX)]:
        del os.environ[k]
    os.environ.update(case.get("env") or {})
    recorded = {}
    real_model = api._configuration_model

    class Proxy:
        def model_validate(self, d):
            try:
                recorded["merged"] = json.loads(json.dumps(d))
            except TypeError:
                recorded["merged"] = repr(d)
            return real_model.model_validate(d)

    api._configuration_model = Proxy()
    cwd = os.getcwd()
    os.chdir(base)
    try:
        if case.get("positional_only"):
            ctxt = api.configure(path)
        else:
            ctxt = api.configure(path, options=copy.deepcopy(options) if options is not None else None)
        cfg = ctxt.config
        obs.update({"kind": "ok", "dump": cfg.model_dump(mode="json"),
                    "fields_set": sorted(cfg.generate.model_fields_set) if cfg.generate is not None else None})
    except BaseException as e:  # noqa
        obs.update(classify(e))
    finally:
        api._configuration_model = real_model
        os.chdir(cwd)
        os.environ.clear()
        os.environ.update(saved_env)
    obs["merged"] = recorded.get("merged")
    obs["options_used"] = options
    return obs


def validate_tree(base: Path, tree: dict) -> dict:
    """the validation oracle: pydantic's verdict on a plain dict, in a clean environment and an empty directory"""
    warnings.filterwarnings("ignore")
    api = _api()
    saved_env = dict(os.environ)
    for k in [k for k in os.environ if k.lower().startswith(ENV_PREFIX)]:
        del os.environ[k]
    cwd = os.getcwd()
    clean = base / "_clean"
    clean.mkdir(exist_ok=True)
    os.chdir(clean)
    try:
        import pydantic
        try:
            cfg = api._configuration_model.model_validate(copy.deepcopy(tree))
            if not encodable(cfg.model_dump(mode="json")):
                # the settings that validation returns hold a text that cannot be written anywhere (independent check: `str.encode`)
                bad = [".".join(p) for p, v in leaves(cfg.model_dump(mode="json")) if not encodable(v)]
                return {"kind": "invalid", "errors": [f"{k}: not valid Unicode" for k in bad][:5]}
            return {"kind": "ok", "dump": cfg.model_dump(mode="json"),
                    "fields_set": sorted(cfg.generate.model_fields_set) if cfg.generate is not None else None}
        except pydantic.ValidationError as e:
            return {"kind": "invalid", "errors": [".".join(str(x) for x in er["loc"]) for er in e.errors()][:5]}
        except BaseException as e:  # noqa
            return classify(e)
    finally:
        os.chdir(cwd)
        os.environ.clear()
        os.environ.update(saved_env)


IDLS = {
    "empty": ("", []),
    "enum": ("e = enum { a; b; }\n", ["enum"]),
    "flags": ("f = flags { a; b; }\n", ["flags"]),
    "record": ("r = record { a: i32; }\n", ["record"]),
    "interface": ("i = interface +cpp { m(x: i32) -> bool; }\n", ["interface"]),
    "mixed": ("e = enum { a; }\nr = record { a: e; }\n", ["enum", "record"]),
}


def run_ready(base: Path, case: dict) -> dict:
    """configure (options dict) -> parse -> generate every requested target, each with clean False and True"""
    warnings.filterwarnings("ignore")
    api = _api(fresh=True)
    work = base / "ready"
    shutil.rmtree(work, ignore_errors=True)
    work.mkdir(parents=True)
    cwd = os.getcwd()
    os.chdir(work)
    out = {"generate": []}
    try:
        (work / "in.djinni").write_text(IDLS[case["idl"]][0])
        try:
            c = api.configure(options=copy.deepcopy(case["options"]))
            out["configure"] = {"kind": "ok", "fields_set": sorted(c.config.generate.model_fields_set) if c.config.generate is not None else None,
                                "configured": [t.key for t in c.configured_targets]}
        except BaseException as e:  # noqa
            out["configure"] = classify(e)
            return out
        try:
            g = c.parse("in.djinni")
            out["parse"] = {"kind": "ok"}
        except BaseException as e:  # noqa
            out["parse"] = classify(e)
            return out
        for t in case["targets"]:
            for clean in (False, True):
                try:
                    g.generate(t, clean=clean)
                    out["generate"].append({"target": t, "clean": clean, "kind": "ok"})
                except BaseException as e:  # noqa
                    out["generate"].append({"target": t, "clean": clean, **classify(e)})
    finally:
        os.chdir(cwd)
        shutil.rmtree(work, ignore_errors=True)
    return out


def context_options(sections, i: int) -> dict:
    """the settings of context `i` of a history: the smallest valid section for every generator key given, each with its output
    below `out/c<i>/`, so that what a `generate` wrote tells whose settings the generators worked with"""
    if sections is None:
        return {"build": {"conan": {}}}
    mins = minimal_sections()
    gen = {"support_lib_sources": False}
    for g in sections:
        sec = copy.deepcopy(mins[g])
        sec["out"] = f"out/c{i}/{g}"
        gen[g] = sec
    return {"generate": gen}


def run_history(base: Path, case: dict) -> dict:
    """ONE `API` object, several configured contexts, a sequence of requests on them:
    ["configure", c] the context is made anew from the same settings; ["parse", c]; ["generate", c, target, clean] on the
    `GenerateContext` the last successful parse of context c returned (skipped when there is none).
    Observation per step: how it ended, and for `generate` the contexts below whose output directories files were written."""
    warnings.filterwarnings("ignore")
    api = _api(fresh=True)
    work = base / "history"
    shutil.rmtree(work, ignore_errors=True)
    work.mkdir(parents=True)
    cwd = os.getcwd()
    os.chdir(work)
    out = {"configure": [], "steps": []}
    try:
        (work / "in.djinni").write_text(IDLS[case["idl"]][0])
        options = [context_options(secs, i) for i, secs in enumerate(case["contexts"])]
        contexts, gen = [], {}
        for o in options:
            try:
                contexts.append(api.configure(options=copy.deepcopy(o)))
                out["configure"].append({"kind": "ok"})
            except BaseException as e:  # noqa
                contexts.append(None)
                out["configure"].append(classify(e))
        if any(c is None for c in contexts):
            return out
        for st in case["steps"]:
            op, c = st[0], st[1]
            if op == "configure":
                try:
                    contexts[c] = api.configure(options=copy.deepcopy(options[c]))
                    gen.pop(c, None)
                    out["steps"].append({"kind": "ok"})
                except BaseException as e:  # noqa
                    out["steps"].append(classify(e))
            elif op == "parse":
                try:
                    gen[c] = contexts[c].parse("in.djinni")
                    out["steps"].append({"kind": "ok"})
                except BaseException as e:  # noqa
                    out["steps"].append(classify(e))
            else:
                if c not in gen:
                    out["steps"].append({"kind": "skipped"})
                    continue
                shutil.rmtree(work / "out", ignore_errors=True)
                try:
                    gen[c].generate(st[2], clean=bool(st[3]) if len(st) > 3 else False)
                    o = {"kind": "ok"}
                except BaseException as e:  # noqa
                    o = classify(e)
                o["wrote"] = sorted({int(p.relative_to(work / "out").parts[0][1:]) for p in (work / "out").rglob("*")
                                     if p.is_file() and p.relative_to(work / "out").parts[0][1:].isdigit()}) if (work / "out").exists() else []
                out["steps"].append(o)
    finally:
        os.chdir(cwd)
        shutil.rmtree(work, ignore_errors=True)
    return out


_FUNCS = {"configure": run_configure, "validate": lambda b, c: validate_tree(b, c["tree"]), "ready": run_ready, "history": run_history}


def _worker(arg):
    base, wid, kind_cases = arg
    d = Path(base) / f"w{wid}"
    d.mkdir(parents=True, exist_ok=True)
    out = []
    for kind, case in kind_cases:
        try:
            out.append(_FUNCS[kind](d, case))
        except BaseException as e:  # noqa
            out.append({"kind": "harness-error", "msg": f"{type(e).__name__}: {e}", "tb": traceback.format_exc()[-1500:]})
    return out


def register(kind: str, fn):
    _FUNCS[kind] = fn


def run_pool(base: Path, kind_cases: list[tuple[str, dict]], workers: int = 12) -> list[dict]:
    """run (kind, case) pairs in forked workers; results in input order"""
    import multiprocessing as mp
    if not kind_cases:
        return []
    schema()
    workers = max(1, min(workers, len(kind_cases) // 4 or 1))
    chunks = [kind_cases[i::workers] for i in range(workers)]
    ctxm = mp.get_context("fork")
    with ctxm.Pool(workers) as pool:
        res = pool.map(_worker, [(str(base), i, ch) for i, ch in enumerate(chunks)])
    out = [None] * len(kind_cases)
    for w, r in enumerate(res):
        for j, x in enumerate(r):
            out[w + j * workers] = x
    return out
