"""Shared machinery of the system-level checks C17 (configuration) and C19 (command line).

* config trees generated from the live JSON schema of the assembled settings model,
* the spellings of one tree as YAML / JSON / TOML text, `-o` options, environment variables, `.env` file,
* adapters that run the real code (`API.configure`, the click command with a recording stand-in for the API,
  parse/generate sequences) and classify how the call ended,
* a fork-based worker pool (every real run happens in a child process with its own scratch directory,
  environment and working directory).
"""
from __future__ import annotations

import copy
import json
import os
import re
import shutil
import sys
import traceback
import warnings
from pathlib import Path

ENV_PREFIX = "pydjinni__"
ENV_DELIM = "__"

# --------------------------------------------------------------------------------------------
# live schema
# --------------------------------------------------------------------------------------------

_SCHEMA = None


def schema() -> dict:
    global _SCHEMA
    if _SCHEMA is None:
        warnings.filterwarnings("ignore")
        from pydjinni import API
        _SCHEMA = json.loads(json.dumps(API().configuration_model.model_json_schema()))   # str-enum keys -> plain text
    return _SCHEMA


def resolve(node: dict) -> dict:
    while "$ref" in node:
        ref = node["$ref"].split("/")[-1]
        extra = {k: v for k, v in node.items() if k != "$ref"}
        node = {**schema()["$defs"][ref], **extra}
    return node


def section_props(section: str) -> dict:
    """properties of a top-level section (`generate`, `build`, `package`)"""
    top = schema()["properties"][section]
    for alt in top.get("anyOf", [top]):
        if "$ref" in alt:
            return resolve(alt)["properties"]
    return {}


def field_is_complex(path) -> bool:
    """is the settings field at `path` list- or dict-typed? (pydantic-settings JSON-decodes the text of such variables)"""
    nodes = [schema()]
    for k in path:
        nxt = []
        for n in nodes:
            n = resolve(n)
            for alt in n.get("anyOf", [n]):
                alt = resolve(alt)
                if k in alt.get("properties", {}):
                    nxt.append(alt["properties"][k])
        nodes = nxt
    for n in nodes:
        n = resolve(n)
        for alt in n.get("anyOf", [n]):
            if resolve(alt).get("type") in ("array", "object"):
                return True
    return False


def decode_env(env: dict | None) -> list:
    """[name, value] pairs as pydantic-settings' decoder delivers them (assumed component): JSON for list/dict-typed fields"""
    out = []
    for name, text in (env or {}).items():
        low = name.lower()
        val = text
        if low.startswith(ENV_PREFIX):
            path = low[len(ENV_PREFIX):].split(ENV_DELIM)
            if field_is_complex(path):
                try:
                    val = json.loads(text)
                except ValueError:
                    val = text
        out.append([name, val])
    return out


def all_keys() -> list[str]:
    """every property name that occurs anywhere in the settings schema"""
    out = set(schema()["properties"].keys())
    for d in schema()["$defs"].values():
        out.update(d.get("properties", {}).keys())
    return sorted(out)


# candidate texts for pattern-constrained strings (filtered per pattern with re.fullmatch)
_PATTERN_POOL = ["a::b", "::x1::y_2", "ns::inner::deep", "a.b.c", "my.pkg_name.sub1", "org.x.y1", "@Foo", "@my.pkg.Ann", "Foo",
                 "java.lang.RuntimeException", "my.pkg.Err", "E1", "x", "abc"]
_WORDS = ["out", "gen", "src", "include", "x1", "lib_a", "deep/dir", "a-b", "My Dir", "v=1", "p:q", "UPPER", "tmp.d", "_u_", "k__k"]


# Edge texts for settings that are *free text* in the schema (type string without pattern / format / enumeration: prefixes,
# file extensions, annotations, credentials, descriptions, …). Every one of them is a valid value there, and every source has to
# deliver it verbatim: the empty text, blank text, texts that read as another scalar type (number, boolean, null) or as JSON,
# and texts that contain the separators of the spellings ('=', '.', '__', '[', ']', ',', quotes, '#', ':').
EDGE_TEXTS = ["", " ", "  x ", "\t", "null", "None", "~", "true", "False", "on", "0", "1", "-1", "1.5", "1e3", "0x10", "{}", "[]",
              "{\"a\": 1}", "[1]", "[a,b]", "\"\"", "\"q\"", "''", "it's", "a=b", "=", "a.b", ".", "a__b", "__", "_", "[x", "x]", "a,b", ",",
              "#c", "x #c", "a: b", "- a", "$HOME", "%d", "a\\nb", "é", "PyDjinni__x", "a\nb"]


def is_free_text(node: dict) -> bool:
    node = resolve(node)
    return node.get("type") == "string" and not any(k in node for k in ("pattern", "format", "enum", "const"))


def _alts(node: dict) -> list[dict]:
    node = resolve(node)
    return [resolve(a) for a in node.get("anyOf", [node])]


def has_free_text(node: dict, depth=0) -> bool:
    """is there a free-text setting at or below this schema node (a text, a list of texts, or a section that holds one)?"""
    if depth > 8:
        return False
    for a in _alts(node):
        if is_free_text(a):
            return True
        if a.get("type") == "array" and is_free_text(a.get("items", {})):
            return True
        if a.get("type") == "object" and any(has_free_text(s, depth + 1) for s in a.get("properties", {}).values()):
            return True
    return False


def free_text_paths(node: dict | None = None, prefix=()) -> list[tuple]:
    """paths of all free-text settings of the live schema (list-valued ones end in '[]')"""
    node = schema() if node is None else node
    out = []
    for a in _alts(node):
        if is_free_text(a):
            out.append(prefix)
        elif a.get("type") == "array" and is_free_text(a.get("items", {})):
            out.append(prefix + ("[]",))
        elif a.get("type") == "object" and len(prefix) < 8:
            for k, s in a.get("properties", {}).items():
                out += free_text_paths(s, prefix + (k,))
    return sorted(set(out), key=out.index)


def text_in_all_spellings(s: str) -> bool:
    """does a text have a spelling in every source (file, `-o`, environment variable, `.env` line)?"""
    return opt_text(s) is not None and "'" not in s and "\n" not in s and "\\" not in s and "\x00" not in s and "${" not in s


class TreeGen:
    """type-directed generator of valid configuration values from the JSON schema"""

    def __init__(self, rng, p_optional=0.35, plain=False, p_edge=0.0, edge=None):
        self.r = rng
        self.p = p_optional
        self.plain = plain  # only text/bool/enum/list leaves that every spelling can express
        self.p_edge = p_edge  # free-text settings take an edge text with this probability
        self.edge = edge      # callable -> next edge text: then *every* free-text setting is present and takes one

    def text(self):
        w = self.r.choice(_WORDS[:8] if self.plain else _WORDS)
        if self.r.random() < 0.3:
            w += self.r.choice(["", "2", "_b", "/sub"])
        return w

    def free_text(self):
        if self.edge is not None:
            return self.edge()
        if self.p_edge and self.r.random() < self.p_edge:
            pool = [s for s in EDGE_TEXTS if text_in_all_spellings(s)] if self.plain else EDGE_TEXTS
            return self.r.choice(pool)
        return self.text()

    def value(self, node: dict, depth=0):
        node = resolve(node)
        if "anyOf" in node:
            alts = [a for a in node["anyOf"] if resolve(a).get("type") != "null"]
            if self.edge is not None and any(has_free_text(a) for a in alts):
                alts = [a for a in alts if has_free_text(a)]
            return self.value(self.r.choice(alts), depth)
        if "enum" in node:
            return self.r.choice(node["enum"])
        if "const" in node:
            return node["const"]
        t = node.get("type")
        if t == "object":
            return self.obj(node, depth)
        if t == "array":
            items = node.get("items", {"type": "string"})
            n = self.r.choice([1, 1, 2, 3])
            vals = [self.value(items, depth + 1) for _ in range(n)]
            if self.plain:   # an element with a comma has no `-o` spelling
                vals = [v.replace(",", ";") if isinstance(v, str) else v for v in vals]
            if node.get("uniqueItems"):
                vals = sorted(set(vals), key=vals.index)
            return vals
        if t == "boolean":
            return self.r.random() < 0.5
        if t == "integer":
            return self.r.randrange(0, 50)
        if t == "number":
            return self.r.randrange(0, 50)
        if t == "string":
            if "pattern" in node:
                ok = [c for c in _PATTERN_POOL if re.fullmatch(node["pattern"], c)]
                return self.r.choice(ok) if ok else None
            if node.get("format") == "uri":
                return "https://example.org/repo"
            return self.free_text() if is_free_text(node) else self.text()
        return None

    def obj(self, node: dict, depth=0, force=()):
        node = resolve(node)
        out = {}
        req = set(node.get("required", []))
        for k, sub in node.get("properties", {}).items():
            if k in req or k in force or (self.edge is not None and has_free_text(sub)) or self.r.random() < self.p / (1 + depth * 0.5):
                v = self.value(sub, depth + 1)
                if v is None or v == {}:
                    if k in req:
                        v = self.text() if v is None else v
                    else:
                        continue
                out[k] = v
        return out

    def generate_section(self, generators=None, extras=True):
        """a `generate` section: chosen generator sections (all required fields, random optional ones) + general options"""
        props = section_props("generate")
        gen_keys = [k for k, v in props.items() if "$ref" in v]
        if generators is None:
            generators = [g for g in gen_keys if self.r.random() < 0.4] or [self.r.choice(gen_keys)]
        out = {}
        if extras:
            for k, v in props.items():
                if k not in gen_keys and self.r.random() < self.p:
                    out[k] = self.value(v, 1)
        for g in generators:
            out[g] = self.obj(props[g], 1)
        return out

    def tree(self, generators=None):
        d = {"generate": self.generate_section(generators)}
        if not self.plain and self.r.random() < 0.2:
            d["build"] = {"conan": self.obj(section_props("build")["conan"], 1)} if self.r.random() < 0.7 else {}
            if d["build"] == {}:
                del d["build"]
        if not self.plain and self.r.random() < 0.2:
            d["package"] = self.obj(schema()["$defs"]["Package"], 1)
        return d


def edge_units() -> list[tuple[tuple, dict]]:
    """(path, schema node) of the units in which edge texts are exercised: every section below `generate` that holds a
    free-text setting, and every other top-level section that does"""
    out = []
    for top, node in schema()["properties"].items():
        if top == "generate":
            for k, v in section_props("generate").items():
                if has_free_text(v):
                    out.append((("generate", k), v))
        elif has_free_text(node):
            out.append(((top,), node))
    return out


def edge_tree(rng, unit: tuple[tuple, dict], rotation: int, only: int | None = None) -> tuple[dict, list[tuple]]:
    """a valid tree for one unit in which every free-text setting is present; the j-th one (document order) holds
    EDGE_TEXTS[(j + rotation) mod K], so that K rotations put every edge text into every free-text setting.
    `only`: just the j-th free-text setting takes an edge text (the others are ordinary words).
    Returns (tree, paths of the leaves that hold an edge text)."""
    counter = [0]
    used = []
    g = TreeGen(rng, p_optional=0.0)

    def nxt():
        j = counter[0]
        counter[0] += 1
        if only is not None and j != only:
            return g.text()
        v = EDGE_TEXTS[(j + rotation) % len(EDGE_TEXTS)]
        used.append(v)
        return v
    g.edge = nxt
    path, node = unit
    val = g.value(node, len(path))
    tree = from_leaves([(path, val)])
    marked = [p for p, v in leaves(tree) if (v in used if isinstance(v, str) else isinstance(v, list) and any(x in used for x in v))]
    return tree, marked


def minimal_sections() -> dict:
    """for every generator key the smallest valid section (required fields only), output below `out/<key>`"""
    import random
    g = TreeGen(random.Random(0), p_optional=0.0)
    props = section_props("generate")
    out = {}
    for k, v in props.items():
        if "$ref" in v:
            sec = g.obj(v, 1)
            if "out" in sec:
                sec["out"] = f"out/{k}"
            out[k] = sec
    return out


# --------------------------------------------------------------------------------------------
# trees: leaves, spellings
# --------------------------------------------------------------------------------------------

def leaves(tree: dict, prefix=()) -> list[tuple[tuple, object]]:
    out = []
    for k, v in tree.items():
        if isinstance(v, dict):
            out += leaves(v, prefix + (k,))
        else:
            out.append((prefix + (k,), v))
    return out


def from_leaves(ls) -> dict:
    out = {}
    for path, v in ls:
        d = out
        for k in path[:-1]:
            d = d.setdefault(k, {})
        d[path[-1]] = v
    return out


def has_empty_dict(tree: dict) -> bool:
    return any((v == {} or has_empty_dict(v)) for v in tree.values() if isinstance(v, dict))


def opt_text(v) -> str | None:
    """the `-o` spelling of a leaf value; None when the syntax cannot express it"""
    if isinstance(v, bool):
        return "true" if v else "false"
    if isinstance(v, (int, float)):
        return str(v)
    if isinstance(v, str):
        return None if (v.startswith("[") and v.endswith("]")) else v
    if isinstance(v, list):
        if not v or not all(isinstance(x, str) and "," not in x for x in v):
            return None
        return "[" + ",".join(v) + "]"
    return None


def to_opts(tree: dict) -> list[str] | None:
    out = []
    for path, v in leaves(tree):
        t = opt_text(v)
        if t is None or any(("." in k or "=" in k) for k in path):
            return None
        out.append(".".join(path) + "=" + t)
    return out


def env_text(v) -> str | None:
    if isinstance(v, bool):
        return "true" if v else "false"
    if isinstance(v, (int, float)):
        return str(v)
    if isinstance(v, str):
        return v
    if isinstance(v, list):
        return json.dumps(v)
    return None


def to_env(tree: dict, upper=False) -> dict | None:
    out = {}
    for path, v in leaves(tree):
        t = env_text(v)
        if t is None or len(path) < 2 or "\x00" in t:
            return None
        name = ENV_PREFIX + ENV_DELIM.join(path)
        out[name.upper() if upper else name] = t
    return out


def dotenv_ok(v) -> bool:
    """can the value be written as a single-quoted `.env` line? (no quote, line break, escape or `${…}` expansion)"""
    t = env_text(v)
    return t is not None and not any(x in t for x in ("'", "\n", "\\", "${", "\x00"))


def to_dotenv(tree: dict) -> str | None:
    env = to_env(tree)
    if env is None:
        return None
    lines = []
    for k, v in env.items():
        if not dotenv_ok(v):
            return None
        lines.append(f"{k}='{v}'")
    return "\n".join(lines) + "\n"


def to_yaml(tree) -> str:
    import yaml
    return yaml.safe_dump(tree, sort_keys=False)


def to_json(tree) -> str:
    return json.dumps(tree, indent=1)


def to_toml(tree) -> str:
    import tomli_w
    return tomli_w.dumps(tree)


def canon(x):
    """canonical JSON text of an observation (dict order is irrelevant)"""
    return json.dumps(x, sort_keys=True, default=str)


# --------------------------------------------------------------------------------------------
# running the real code
# --------------------------------------------------------------------------------------------

def position_of(e) -> list | None:
    """[file name, line, column] of a diagnostic that carries a position (what its message has to name)"""
    p = getattr(e, "position", None)
    if p is None or getattr(p, "file", None) is None or getattr(p, "start", None) is None:
        return None
    return [Path(str(p.file)).name, p.start.line, p.start.col]


def first_position(e: BaseException) -> list | None:
    """position of the first reported error of what was raised"""
    items = getattr(e, "items", None)
    if isinstance(items, list):
        return position_of(items[0]) if items else None
    return position_of(e)


def classify(e: BaseException) -> dict:
    from pydjinni.exceptions import ApplicationException, ApplicationExceptionList
    tb = traceback.extract_tb(e.__traceback__)
    site = ""
    for fr in reversed(tb):
        if "pydjinni" in fr.filename:
            site = f"{Path(fr.filename).name}:{fr.name}"
            break
    if isinstance(e, ApplicationException) and getattr(e, "code", None):
        return {"kind": "app", "code": e.code, "cls": type(e).__name__, "msg": str(e)[:300]}
    if isinstance(e, ApplicationExceptionList):
        codes = [getattr(i, "code", None) for i in e.items]
        return {"kind": "applist", "codes": codes, "code": codes[0] if codes else None, "cls": type(e).__name__,
                "msg": "; ".join(str(i) for i in e.items)[:300]}
    return {"kind": "crash", "cls": type(e).__name__, "site": site, "msg": str(e)[:300]}


class _Captured(Exception):
    def __init__(self, path, options):
        self.path, self.options = path, options


def cli_options(args: list[str]) -> dict:
    """run the real click command line up to the point where it calls `API().configure(path, options)`;
    returns what it passed ({'kind': 'captured', 'path', 'options'}) or how it ended before"""
    import click
    import pydjinni.cli.cli as climod

    class FakeAPI:
        def configure(self, path=None, options=None):
            raise _Captured(path, copy.deepcopy(options))

    real = climod.API
    climod.API = FakeAPI
    import logging
    try:
        climod.cli.main(args=list(args), prog_name="pydjinni", standalone_mode=False)
        return {"kind": "returned"}
    except _Captured as c:
        return {"kind": "captured", "path": None if c.path is None else str(c.path), "options": json.loads(json.dumps(c.options))}
    except click.exceptions.ClickException as e:
        return {"kind": "usage", "cls": type(e).__name__, "msg": e.format_message()[:200]}
    except click.exceptions.Exit as e:
        return {"kind": "exit", "code": e.exit_code}
    except BaseException as e:  # noqa
        return classify(e)
    finally:
        climod.API = real
        logging.getLogger().handlers.clear()


def write_file(base: Path, spec: dict | None) -> Path | None:
    """materialise a config file description: {'name', 'text' | 'bytes' (latin-1 str) | 'dir' | 'missing'}"""
    if spec is None:
        return None
    p = base / spec["name"]
    if p.is_dir():
        shutil.rmtree(p)
    elif p.exists():
        p.unlink()
    if spec.get("missing"):
        return p
    if spec.get("dir"):
        p.mkdir()
        return p
    if "bytes" in spec:
        p.write_bytes(spec["bytes"].encode("latin-1"))
    else:
        p.write_text(spec["text"], encoding="utf-8")
    return p


_API = None


def _api(fresh=False):
    global _API
    from pydjinni import API
    if fresh or _API is None:
        _API = API()
    return _API


def run_configure(base: Path, case: dict) -> dict:
    """one `API.configure` call with everything a case describes; observation = how it ended, `model_dump`,
    `generate.model_fields_set`, and the dict that reached validation"""
    warnings.filterwarnings("ignore")
    api = _api()
    path = write_file(base, case.get("file"))
    dotenv = base / ".env"
    if dotenv.exists():
        dotenv.unlink()
    if case.get("dotenv") is not None:
        dotenv.write_text(case["dotenv"])
    options = case.get("options")
    obs = {}
    if case.get("cli_opts") is not None:
        args = []
        for o in case["cli_opts"]:
            args += ["-o", o]
        args += ["--config", "None", "generate", "x.djinni", "cpp"]
        c = cli_options(args)
        obs["cli"] = c
        if c["kind"] != "captured":
            c = dict(c)
            c["stage"] = "options"
            return {**c, "cli": obs["cli"]}
        options = c["options"]
    saved_env = dict(os.environ)
    for k in [k for k in os.environ if k.lower().startswith(ENV_PREFIX)]:
        del os.environ[k]
    os.environ.update(case.get("env") or {})
    recorded = {}
    real_model = api._configuration_model

    class Proxy:
        def model_validate(self, d):
            try:
                recorded["merged"] = json.loads(json.dumps(d))
            except TypeError:
                recorded["merged"] = repr(d)
            return real_model.model_validate(d)

    api._configuration_model = Proxy()
    cwd = os.getcwd()
    os.chdir(base)
    try:
        if case.get("positional_only"):
            ctxt = api.configure(path)
        else:
            ctxt = api.configure(path, options=copy.deepcopy(options) if options is not None else None)
        cfg = ctxt.config
        obs.update({"kind": "ok", "dump": cfg.model_dump(mode="json"),
                    "fields_set": sorted(cfg.generate.model_fields_set) if cfg.generate is not None else None})
    except BaseException as e:  # noqa
        obs.update(classify(e))
    finally:
        api._configuration_model = real_model
        os.chdir(cwd)
        os.environ.clear()
        os.environ.update(saved_env)
    obs["merged"] = recorded.get("merged")
    obs["options_used"] = options
    return obs


def validate_tree(base: Path, tree: dict) -> dict:
    """the validation oracle: pydantic's verdict on a plain dict, in a clean environment and an empty directory"""
    warnings.filterwarnings("ignore")
    api = _api()
    saved_env = dict(os.environ)
    for k in [k for k in os.environ if k.lower().startswith(ENV_PREFIX)]:
        del os.environ[k]
    cwd = os.getcwd()
    clean = base / "_clean"
    clean.mkdir(exist_ok=True)
    os.chdir(clean)
    try:
        import pydantic
        try:
            cfg = api._configuration_model.model_validate(copy.deepcopy(tree))
            return {"kind": "ok", "dump": cfg.model_dump(mode="json"),
                    "fields_set": sorted(cfg.generate.model_fields_set) if cfg.generate is not None else None}
        except pydantic.ValidationError as e:
            return {"kind": "invalid", "errors": [".".join(str(x) for x in er["loc"]) for er in e.errors()][:5]}
        except BaseException as e:  # noqa
            return classify(e)
    finally:
        os.chdir(cwd)
        os.environ.clear()
        os.environ.update(saved_env)


IDLS = {
    "empty": ("", []),
    "enum": ("e = enum { a; b; }\n", ["enum"]),
    "flags": ("f = flags { a; b; }\n", ["flags"]),
    "record": ("r = record { a: i32; }\n", ["record"]),
    "interface": ("i = interface +cpp { m(x: i32) -> bool; }\n", ["interface"]),
    "mixed": ("e = enum { a; }\nr = record { a: e; }\n", ["enum", "record"]),
}


def run_ready(base: Path, case: dict) -> dict:
    """configure (options dict) -> parse -> generate every requested target, each with clean False and True"""
    warnings.filterwarnings("ignore")
    api = _api(fresh=True)
    work = base / "ready"
    shutil.rmtree(work, ignore_errors=True)
    work.mkdir(parents=True)
    cwd = os.getcwd()
    os.chdir(work)
    out = {"generate": []}
    try:
        (work / "in.djinni").write_text(IDLS[case["idl"]][0])
        try:
            c = api.configure(options=copy.deepcopy(case["options"]))
            out["configure"] = {"kind": "ok", "fields_set": sorted(c.config.generate.model_fields_set) if c.config.generate is not None else None,
                                "configured": [t.key for t in c.configured_targets]}
        except BaseException as e:  # noqa
            out["configure"] = classify(e)
            return out
        try:
            g = c.parse("in.djinni")
            out["parse"] = {"kind": "ok"}
        except BaseException as e:  # noqa
            out["parse"] = classify(e)
            return out
        for t in case["targets"]:
            for clean in (False, True):
                try:
                    g.generate(t, clean=clean)
                    out["generate"].append({"target": t, "clean": clean, "kind": "ok"})
                except BaseException as e:  # noqa
                    out["generate"].append({"target": t, "clean": clean, **classify(e)})
    finally:
        os.chdir(cwd)
        shutil.rmtree(work, ignore_errors=True)
    return out


_FUNCS = {"configure": run_configure, "validate": lambda b, c: validate_tree(b, c["tree"]), "ready": run_ready}


def _worker(arg):
    base, wid, kind_cases = arg
    d = Path(base) / f"w{wid}"
    d.mkdir(parents=True, exist_ok=True)
    out = []
    for kind, case in kind_cases:
        try:
            out.append(_FUNCS[kind](d, case))
        except BaseException as e:  # noqa
            out.append({"kind": "harness-error", "msg": f"{type(e).__name__}: {e}", "tb": traceback.format_exc()[-1500:]})
    return out


def register(kind: str, fn):
    _FUNCS[kind] = fn


def run_pool(base: Path, kind_cases: list[tuple[str, dict]], workers: int = 12) -> list[dict]:
    """run (kind, case) pairs in forked workers; results in input order"""
    import multiprocessing as mp
    if not kind_cases:
        return []
    schema()
    workers = max(1, min(workers, len(kind_cases) // 4 or 1))
    chunks = [kind_cases[i::workers] for i in range(workers)]
    ctxm = mp.get_context("fork")
    with ctxm.Pool(workers) as pool:
        res = pool.map(_worker, [(str(base), i, ch) for i, ch in enumerate(chunks)])
    out = [None] * len(kind_cases)
    for w, r in enumerate(res):
        for j, x in enumerate(r):
            out[w + j * workers] = x
    return out
