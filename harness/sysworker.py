"""Worker process of the system-level checks (C14, C15, C10): runs jobs against the real `pydjinni.API`.

usage: sysworker.py <jobs.json> <out.json>      (PYTHONPATH selects the implementation; PYDJINNI_VERIF=1 switches the
                                                  FileReaderWriter write log on; PYTHONHASHSEED is whatever the parent set)

A job is executed in a sandbox directory of its own with a fresh `API()` object:
  files / pre   files to create (inputs / pre-existing clutter),  cwd  working directory inside the sandbox
  contexts      list of option dicts for `API.configure(options=…)` (`{ROOT}` = absolute sandbox root); an entry of the form
                {"config_file": spelling, "options": {...}} is configured from a *file plus overriding options*
                (`API.configure(path, options=…)`; the file is one of `files`; `{ROOT}` inside the files named by `subst_files` is replaced)
  calls         [{"op": "parse", "ctx": i, "idl": spelling, "write": {path: text}?} | {"op": "generate", "gc": k, "target": t, "clean": b} | {"op": "report", "gc": k}]
                (`write`: files created / replaced in the sandbox just before the parse — an edit of the IDL between two runs)
                | {"op": "wipe", "paths": [sandbox-relative files / directories], "sample": {"seed", "p"}?}  the *user* removes them
                  between two calls (`sample`: only a pseudo-random part of the files generated so far below `paths`)
                | {"op": "cli", "argv": [...], "report_ctx": i}  the real command line (`pydjinni.cli.cli.main`) in a process of
                  its own, working directory = the job's; its write log comes through $PYDJINNI_VERIF_WRITELOG, the report it
                  wrote is read from the report path of context i
  snapshot_calls  true: a directory snapshot around every call (`created` / `deleted` per call)
  symlinks      {link: target} symbolic links to directories, created after the files (`{ROOT}/…` = absolute target,
                otherwise the target as spelled, relative to the directory of the link)
A configuration that `API.configure` refuses is an observation (`configure[i]`), calls on it are `skipped`.
The observation: per call the slice of the write log, exception class / diagnostics (with the message text, sandbox
root replaced: C10 compares it between runs of the same implementation, never with a model), for a parse the dumped
declarations (with the source position: file relative to the sandbox root, line, column); the configuration fields the model needs as the implementation validated them; directory
snapshots before/after; the parsed report and its validation against `API().processed_files_model`; for every input
entry of a report whether it exists and which file it denotes (`os.path.realpath`, relative to the real sandbox root);
per parse call the files below the sandbox that were opened for reading (`sys.addaudithook`, same naming).
"""
from __future__ import annotations

import hashlib
import json
import os
import shutil
import sys
import traceback
from pathlib import Path


def sha(b: bytes) -> str:
    return hashlib.sha256(b).hexdigest()


def snapshot(root: Path) -> dict:
    out = {}
    for d, _, fs in os.walk(root):
        for f in fs:
            p = os.path.join(d, f)
            try:
                out[p] = sha(open(p, "rb").read())
            except OSError:
                out[p] = "?"
    return out


def style_dump(s):
    from pydjinni.config.types import IdentifierStyle
    if s is None:
        return {"case": "none", "prefix": None}
    if isinstance(s, IdentifierStyle):
        return {"case": s.style.value, "prefix": s.prefix}
    return {"case": s.value, "prefix": None}


def out_dump(o):
    from pydjinni.config.types import OutPaths
    if type(o) is OutPaths:
        return {"source": str(o.source), "header": str(o.header)}
    return str(o)


def gcfg_dump(key: str, c) -> dict:
    ident = getattr(c, "identifier", None)
    d = {
        "out": out_dump(c.out),
        "file": style_dump(getattr(ident, "file", None)) if ident is not None and hasattr(ident, "file") else {"case": "snake_case", "prefix": None},
        "type": style_dump(getattr(ident, "type", None)) if ident is not None and hasattr(ident, "type") else {"case": "PascalCase", "prefix": None},
        "pkgStyle": style_dump(getattr(ident, "package", None)) if ident is not None and hasattr(ident, "package") else {"case": "snake_case", "prefix": None},
        "headerExt": getattr(c, "header_extension", "hpp"),
        "sourceExt": getattr(c, "source_extension", "cpp"),
        "package": [str(x) for x in getattr(c, "package", [])] if key == "java" else [],
        "support": [str(x) for x in getattr(c, "support_types_package", [])] if key == "java" else [],
        "typePrefix": getattr(c, "type_prefix", "") or "",
        "stringSer": bool(getattr(c, "string_serialization", True)),
        "loader": bool(getattr(c, "loader", True)),
        "nativeLib": getattr(c, "native_lib", None),
        "bridging": (str(c.swift.bridging_header) if key == "objc" and c.swift.bridging_header is not None else None),
        "outFile": (str(c.out_file) if key == "yaml" and c.out_file is not None else None),
    }
    rest = c.model_dump(mode="json")
    rest.pop("out", None)
    d["content"] = sha(json.dumps(rest, sort_keys=True).encode())[:16]
    return d


def decl_dump(t) -> dict:
    from pydjinni.parser.ast import Enum, Flags, Record, Interface, Function, ErrorDomain
    kind = ("enum" if isinstance(t, Enum) else "flags" if isinstance(t, Flags) else "record" if isinstance(t, Record)
            else "interface" if isinstance(t, Interface) else "function" if isinstance(t, Function) else "error" if isinstance(t, ErrorDomain) else "?")
    pos = t.position

    def ref_dump(r):
        return None if r is None else [str(r.name), bool(r.optional), [ref_dump(a) for a in r.parameters]]
    written = None
    if isinstance(t, Function):
        # the declaration as written, positions left out: two function types with equal dumps are the same declaration twice
        written = {"params": [[str(p.name), ref_dump(p.type_ref), str(getattr(p, "comment", None))] for p in t.parameters],
                   "ret": ref_dump(t.return_type_ref), "throws": None if t.throwing is None else [ref_dump(x) for x in t.throwing],
                   "targets": [str(x) for x in t.targets], "comment": str(getattr(t, "comment", None)), "deprecated": str(getattr(t, "deprecated", None))}
    return {
        "written": written,
        "name": str(t.name), "ns": [str(x) for x in t.namespace], "kind": kind,
        "targets": [str(x) for x in getattr(t, "targets", [])],
        "anonymous": bool(getattr(t, "anonymous", False)),
        "hasFields": bool(getattr(t, "fields", [])),
        "eq": any(str(getattr(d, "value", d)) == "eq" for d in getattr(t, "deriving", [])),
        "ord": any(str(getattr(d, "value", d)) == "ord" for d in getattr(t, "deriving", [])),
        "async": any(getattr(m, "asynchronous", False) for m in getattr(t, "methods", [])),
        "content": f"{os.path.basename(str(pos.file)) if pos and pos.file else ''}:{pos.start.line if pos and pos.start else 0}:{pos.start.col if pos and pos.start else 0}",
        # where the declaration stands in the source (the working directory is still the job's)
        "src": {"file": os.path.abspath(str(pos.file)) if pos and pos.file else None,
                "line": pos.start.line if pos and pos.start else None, "col": pos.start.col if pos and pos.start else None},
    }


def diag_dump(e) -> dict:
    p = getattr(e, "position", None)
    try:
        msg = str(getattr(e, "description", None) or e)
    except Exception as x:      # str() of some exception lists raises
        msg = f"<unprintable {type(x).__name__}>"
    return {"cls": type(e).__name__, "msg": msg[:400],
            "file": os.path.basename(str(p.file)) if p is not None and getattr(p, "file", None) is not None else None,
            "line": p.start.line if p is not None and getattr(p, "start", None) is not None else None,
            "col": p.start.col if p is not None and getattr(p, "start", None) is not None else None}


def norm_diag(d: dict, root: str) -> dict:
    d["msg"] = d.get("msg", "").replace(root, "{ROOT}")
    return d


def config_digest(cctx) -> str:
    try:
        return sha(json.dumps(cctx.config.model_dump(mode="json"), sort_keys=True, default=str).encode())
    except Exception as e:      # not dumpable: an observation of its own, equal before and after
        return f"<undumpable {type(e).__name__}>"


def tables() -> dict:
    from pydjinni import API
    import pydjinni.generator.generator as gg
    api = API()
    root = Path(gg.__file__).parent
    sup = {}
    commons = {}
    for tk, t in api.generation_targets.items():
        for g in t.generator_instances:
            fs = []
            for kind, sub in (("header", "include"), ("source", "src")):
                d = g._generator_directory / "support_lib" / sub
                if d.exists():
                    fs += [[kind, str(p.relative_to(d))] for p in sorted(d.rglob("*")) if p.is_file()]
            if g.support_lib_commons:
                for kind, sub in (("header", "include"), ("source", "src")):
                    d = root / "support_lib" / sub
                    if d.exists():
                        fs += [[kind, str(p.relative_to(d))] for p in sorted(d.rglob("*")) if p.is_file()]
            sup[g.key] = fs
            commons[g.key] = bool(g.support_lib_commons)
    # reserved words: every `LanguageKeywords` object visible in a generator's `type.py`; the literal words of the IDL grammar
    kws, idl_kw = {}, []
    try:
        import importlib
        from pydjinni.generator.validator import LanguageKeywords
        for mod in ("cpp.cpp", "java.java", "java.jni", "objc.objc", "objc.objcpp", "cppcli.cppcli", "yaml.yaml"):
            try:
                m = importlib.import_module(f"pydjinni.generator.{mod}.type")
            except Exception:
                continue
            for v in vars(m).values():
                if isinstance(v, LanguageKeywords):
                    kws.setdefault(str(v.language), [str(k) for k in v.keywords])
        from pydjinni.parser.grammar.IdlLexer import IdlLexer
        idl_kw = sorted({x.strip("'") for x in IdlLexer.literalNames if x[1:2].isalpha()})
    except Exception:
        pass
    return {"support": sup, "commons": commons, "keywords": kws, "idl_keywords": idl_kw,
            "targets": {tk: [g.key for g in t.generator_instances] for tk, t in api.generation_targets.items()},
            "writes_header": {g.key: bool(g.writes_header) for t in api.generation_targets.values() for g in t.generator_instances}}


def subst(x, root: str):
    if isinstance(x, str):
        return x.replace("{ROOT}", root)
    if isinstance(x, dict):
        return {k: subst(v, root) for k, v in x.items()}
    if isinstance(x, list):
        return [subst(v, root) for v in x]
    return x


RAWSET = {"n": 0, "where": []}
OPENED = {"on": False, "installed": False, "paths": []}


def install_open_probe():
    """every `open` for reading while a parse call runs (the files the front end actually reads), whoever opens them"""
    if OPENED["installed"]:
        return
    OPENED["installed"] = True

    def hook(event, args):
        if event == "open" and OPENED["on"]:
            path, mode = args[0], args[1]
            if isinstance(path, (str, bytes, os.PathLike)) and (mode is None or "r" in str(mode)) and "+" not in str(mode or ""):
                OPENED["paths"].append(os.fsdecode(path))
    sys.addaudithook(hook)


def identity(p: str, cwd: str, realroot: str) -> dict:
    """which file the path `p` (as spelled; relative = relative to `cwd`, nothing normalised) denotes"""
    a = p if os.path.isabs(p) else os.path.join(cwd, p)
    ex = os.path.isfile(a)
    return {"entry": p, "exists": ex, "real": os.path.relpath(os.path.realpath(a), realroot) if ex else None}


def install_loop_probe():
    """count template `for` loops that receive a raw Python set (iteration order depends on the hash seed)"""
    import jinja2.runtime as jr
    orig = jr.LoopContext.__init__

    def init(self, iterable, *a, **k):
        if isinstance(iterable, (set, frozenset)):
            RAWSET["n"] += 1
        return orig(self, iterable, *a, **k)
    jr.LoopContext.__init__ = init


def run_job(job: dict, base: Path, idx: int) -> dict:
    if job.get("op") == "tables":
        return tables()
    from pydjinni import API
    from pydjinni.exceptions import ApplicationException, ApplicationExceptionList
    root = base / f"j{idx}"
    shutil.rmtree(root, ignore_errors=True)
    root.mkdir(parents=True)
    R = str(root)
    for rel, text in {**job.get("files", {}), **job.get("pre", {})}.items():
        p = root / rel
        p.parent.mkdir(parents=True, exist_ok=True)
        p.write_text(subst(text, R) if rel in job.get("subst_files", ()) else text)
    cwd = root / job.get("cwd", ".")
    cwd.mkdir(parents=True, exist_ok=True)
    for link, target in (job.get("symlinks") or {}).items():
        lp = root / link
        lp.parent.mkdir(parents=True, exist_ok=True)
        os.symlink(subst(target, R), lp, target_is_directory=True)
    realroot = os.path.realpath(R)
    install_open_probe()
    obs = {"root": R, "calls": [], "cfg": [], "meta": []}
    before = snapshot(root) if job.get("snapshot") else None
    old = os.getcwd()
    os.chdir(cwd)
    RAWSET["n"] = 0
    try:
        api = API()
        frw = api._file_reader_writer
        contexts = []
        config_before = []
        obs["configure"] = []
        for opts in job["contexts"]:
            try:
                if isinstance(opts, dict) and "config_file" in opts:
                    cf = Path(subst(opts["config_file"], R))
                    cctx = api.configure(cf if opts.get("path_object") else str(cf), options=subst(opts.get("options") or {}, R))
                else:
                    cctx = api.configure(options=subst(opts, R))
            except ApplicationException as e:
                # a refused configuration is an observation of its own (C10: the same refusal under every hash seed)
                contexts.append(None)
                config_before.append(None)
                obs["configure"].append({"ok": False, "exc": {"cls": type(e).__name__, "msg": str(e)[:400].replace(R, "{ROOT}"), "app": True},
                                         "diags": [norm_diag(diag_dump(e), R)]})
                obs["cfg"].append({})
                obs["meta"].append({"supportLib": True, "report": None, "include_dirs": []})
                continue
            obs["configure"].append({"ok": True, "exc": None, "diags": []})
            contexts.append(cctx)
            config_before.append(config_digest(cctx))
            gen = cctx.config.generate
            obs["cfg"].append({k: gcfg_dump(k, getattr(gen, k)) for k in ("cpp", "java", "jni", "objc", "objcpp", "cppcli", "yaml")
                               if k in gen.model_fields_set and getattr(gen, k) is not None})
            obs["meta"].append({"configured_targets": [t.key for t in cctx.configured_targets],
                                "fields_set": sorted(gen.model_fields_set),
                                "supportLib": bool(gen.support_lib_sources),
                                "report": str(gen.list_processed_files) if gen.list_processed_files is not None else None,
                                "include_dirs": [str(x) for x in gen.include_dirs]})
        results = []
        percall = bool(job.get("snapshot_calls"))
        for call in job["calls"]:
            n0 = len(getattr(frw, "_verif_log", []))
            rec = {"ok": True, "exc": None, "diags": []}
            if call["op"] == "parse" and contexts[call["ctx"]] is not None:       # an edit of the sources just before the parse is the user's, not the call's
                for rel, text in (call.get("write") or {}).items():
                    (root / rel).parent.mkdir(parents=True, exist_ok=True)
                    (root / rel).write_text(text)
            snap0 = snapshot(root) if percall else None
            try:
                if call["op"] == "wipe":
                    sample = call.get("sample")
                    if sample:
                        # the user removes some of the files generated so far (a pseudo-random part of the logged files below `paths`)
                        import random as _random
                        rr = _random.Random(sample["seed"])
                        logged = sorted({os.path.normpath(x[1] if os.path.isabs(x[1]) else os.path.join(str(cwd), x[1])) for x in getattr(frw, "_verif_log", [])})
                        tops = [os.path.normpath(str(root / rel)) for rel in call["paths"]]
                        for f in logged:
                            if any(f.startswith(t + os.sep) for t in tops) and os.path.isfile(f) and rr.random() < sample["p"]:
                                os.unlink(f)
                    for rel in ([] if sample else call["paths"]):
                        q = root / rel
                        if q.is_dir():
                            shutil.rmtree(q)
                        elif q.exists():
                            q.unlink()
                elif call["op"] == "cli":
                    import subprocess
                    import tempfile
                    fd, wl = tempfile.mkstemp(prefix="writelog_", dir=str(base))
                    os.close(fd)
                    env = dict(os.environ, PYDJINNI_VERIF="1", PYDJINNI_VERIF_WRITELOG=wl)
                    pr = subprocess.run([sys.executable, "-c", "from pydjinni.cli.cli import main; main()"] + [subst(a, R) for a in call["argv"]],
                                        cwd=str(cwd), env=env, capture_output=True, text=True, timeout=300)
                    rec["rc"] = pr.returncode
                    rec["output"] = (pr.stdout[-600:] + pr.stderr[-600:]).replace(R, "{ROOT}")
                    rec["ok"] = pr.returncode == 0
                    rec["cli_log"] = [json.loads(l) for l in open(wl).read().splitlines() if l.strip()]
                    os.unlink(wl)
                    rec["report_path"] = obs["meta"][call["report_ctx"]]["report"] if call.get("report_ctx") is not None else None
                elif call["op"] == "parse" and contexts[call["ctx"]] is None:
                    results.append(None)
                    rec["ok"] = False
                    rec["skipped"] = "context was refused by configure"
                elif call["op"] != "parse" and results[call["gc"]] is None:
                    rec["ok"] = False
                    rec["skipped"] = "no parse result"
                elif call["op"] == "parse":
                    try:
                        OPENED["paths"], OPENED["on"] = [], True
                        try:
                            gc = contexts[call["ctx"]].parse(subst(call["idl"], R))
                        finally:
                            OPENED["on"] = False
                            seen = [os.path.realpath(x if os.path.isabs(x) else os.path.join(str(cwd), x)) for x in OPENED["paths"]]
                            rec["opened"] = [os.path.relpath(x, realroot) for x in seen if x.startswith(realroot + os.sep)]
                        results.append(gc)
                        rec["defs"] = [decl_dump(t) for t in gc.defs]
                        for d in rec["defs"]:
                            if d["src"]["file"]:
                                d["src"]["file"] = os.path.relpath(d["src"]["file"], R)
                    except ApplicationExceptionList as e:
                        results.append(None)
                        rec["ok"] = False
                        rec["diags"] = [norm_diag(diag_dump(x), R) for x in e.items]
                elif call["op"] == "generate":
                    gc = results[call["gc"]]
                    gc.generate(call["target"], clean=bool(call.get("clean")))
                elif call["op"] == "report":
                    p = results[call["gc"]].write_processed_files()
                    rec["report_path"] = str(p) if p is not None else None
            except ApplicationException as e:
                rec["ok"] = False
                rec["exc"] = {"cls": type(e).__name__, "msg": str(e)[:400].replace(R, "{ROOT}"), "app": True}
                rec["diags"] = [norm_diag(diag_dump(e), R)]
                if call["op"] == "parse":
                    results.append(None)
            except Exception as e:  # internal error
                rec["ok"] = False
                rec["exc"] = {"cls": type(e).__name__, "msg": str(e)[:300], "app": False, "tb": traceback.format_exc()[-1500:]}
                if call["op"] == "parse":
                    results.append(None)
            rec["log"] = [list(x) for x in getattr(frw, "_verif_log", [])[n0:]] + rec.pop("cli_log", [])
            if percall:
                snap1 = snapshot(root)
                rec["created"] = sorted(p for p in snap1 if p not in snap0 or snap0[p] != snap1[p])
                rec["deleted"] = sorted(p for p in snap0 if p not in snap1)
                rec["existing"] = sorted(snap0)
            if job.get("normalized"):
                # digests that do not depend on where the sandbox is: the sandbox root is replaced in the bytes
                files, sizes = {}, {}
                for _, pth, _ in rec["log"]:
                    try:
                        raw = open(pth, "rb").read()
                        files[pth.replace(R, "{ROOT}")] = sha(raw.replace(R.encode(), b"{ROOT}"))
                        sizes[pth.replace(R, "{ROOT}")] = len(raw)
                    except OSError:
                        files[pth.replace(R, "{ROOT}")] = "?"
                rec["files"] = files
                rec["sizes"] = sizes
            obs["calls"].append(rec)
        # the validated configuration of every context, before the first and after the last call (a context is an input, not a state)
        obs["config_unchanged"] = [None if c is None else config_digest(c) == b for c, b in zip(contexts, config_before)]
        obs["parsed_idl"] = [str(x) for x in frw.processed_files.parsed.idl]
        obs["parsed_ext"] = [str(x) for x in frw.processed_files.parsed.external_types]
        obs["rawset_loops"] = RAWSET["n"]
        # the report file(s), parsed with the format's own reader and validated against the published model
        reports = []
        for call, rec in zip(job["calls"], obs["calls"]):
            if call["op"] in ("report", "cli") and rec.get("report_path"):
                rp = Path(rec["report_path"])
                if not rp.is_absolute():
                    rp = cwd / rp
                try:
                    raw = rp.read_bytes()
                    if rp.suffix in (".yaml", ".yml"):
                        import yaml
                        data = yaml.safe_load(raw)
                    elif rp.suffix == ".json":
                        data = json.loads(raw)
                    else:
                        import tomllib
                        data = tomllib.loads(raw.decode())
                    valid = True
                    try:
                        API().processed_files_model.model_validate(data)
                    except Exception as e:
                        valid = f"{type(e).__name__}: {str(e)[:300]}"
                    parsed = data.get("parsed", {}) if isinstance(data, dict) else {}
                    inputs = {k: [identity(str(x), str(cwd), realroot) for x in (parsed.get(k) or [])] for k in ("idl", "external_types")}
                    reports.append({"path": str(rp), "data": data, "valid": valid, "sha": sha(raw), "inputs": inputs})
                except Exception as e:
                    reports.append({"path": str(rp), "data": None, "valid": f"unreadable {type(e).__name__}: {e}"})
        obs["reports"] = reports
    except Exception as e:
        obs["fatal"] = {"cls": type(e).__name__, "msg": str(e)[:500], "tb": traceback.format_exc()[-2000:]}
    finally:
        os.chdir(old)
    if before is not None:
        after = snapshot(root)
        obs["before"] = before
        obs["after"] = after
    if not job.get("keep"):
        shutil.rmtree(root, ignore_errors=True)
    return obs


def main():
    spec = json.loads(Path(sys.argv[1]).read_text())
    base = Path(spec["base"])
    base.mkdir(parents=True, exist_ok=True)
    install_loop_probe()
    out = []
    for i, job in enumerate(spec["jobs"]):
        out.append(run_job(job, base, i))
    Path(sys.argv[2]).write_text(json.dumps(out))


if __name__ == "__main__":
    main()
