"""Packaging harness for C20: stub build tools on PATH, the real packaging pipeline in a process of its own.

* `STUB`: one shell script installed under the names conan / java / nuget / lipo / xcodebuild / git. It logs
  (index, tool, cwd, argv) to `$STUB_ROOT/log.tsv`, exits 3 at the invocations listed in `$STUB_FAIL_AT` (a *set* of
  indices: a handled probe and its fallback can both be made to fail), removes every stub after
  invocation `$STUB_MISSING_AT - 1` (so that `shutil.which` finds nothing from that point on), and otherwise leaves
  the files the real tool would leave (the same ones the Lean model lists as the step's effect).
  The Android target runs its own `gradlew` wrapper script (rendered from the template); the stub is `java`.
* worker (`python pkg.py --worker <dir>`): imports pydjinni while sitting in an unrelated directory (the default
  `working_dir` of `execute` used to be bound at import time), then handles one case per forked child, because the
  working directory is process state. The child builds a sandbox `<dir>/c<id>/{bin,proj}`, runs
  build…/package (and publish) through the public API, and reports exception code, cwd before/after, the file
  listing and the stub log.
  A case `{"seq": [case, …]}` runs its steps one after the other in ONE child (`_run_seq`): each step in a sandbox of its own
  below the child's directory, with `os.chdir` between them — the working directory and pydjinni's module state carry over.
* `run_cases`: pool of workers; `model_request`: the same case as a request for the Lean model (`c20.run`).
* environment: `HELPER_STUB` under the names of `helper_candidates` (optional formatters / caches / wrappers a case asks for: `helpers`);
  every stub logs the status it exits with; `_install_recorders` wraps `shutil.which`, `os.system`, `subprocess.Popen(shell=True)` so the
  observation also holds the names looked up and the command lines handed to the shell; `_tree` before / after gives the new paths.
* `address_forms`: spellings of the Swift package repository (`{root}` = the sandbox); `UNQUOTED_OUT`: `package.out` outside the model's domain.
"""
from __future__ import annotations

import json
import os
import select
import shutil
import subprocess
import sys
import time
from pathlib import Path

TOOLS = ["conan", "java", "nuget", "lipo", "xcodebuild", "git"]
COREUTILS = ["sh", "uname", "dirname", "basename", "ls", "sed", "tr", "xargs", "expr", "cat", "mkdir", "touch", "rm",
             "printf", "echo", "pwd", "readlink", "env", "test", "cut", "head"]
TARGET = "T"
VERSION = "1.2.3"
NET = "net8.0"

STUB = r'''#!/bin/sh
# stub tool: logs its invocation, fails at the chosen point, otherwise leaves what the real tool would leave
n=$(cat "$STUB_ROOT/counter" 2>/dev/null || echo 0)
echo $((n+1)) > "$STUB_ROOT/counter"
tool=$(basename "$0")
st=0
case " $STUB_FAIL_AT " in *" $n "*) st=3;; esac
# the tool itself records the status it is about to exit with: what the shell makes of it is the caller's business
printf '%s\t%s\t%s\t%s\t%s\n' "$n" "$tool" "$st" "$(pwd)" "$*" >> "$STUB_ROOT/log.tsv"
if [ "$STUB_MISSING_AT" = "$((n+1))" ]; then for t in conan java nuget lipo xcodebuild git; do rm -f "$STUB_ROOT/bin/$t"; done; fi
if [ "$st" != 0 ]; then exit $st; fi
case "$tool" in
conan)
  while [ $# -gt 0 ]; do if [ "$1" = "--output-folder" ]; then of="$2"; fi; shift; done
  mkdir -p "$of/dist"
  case "$STUB_KIND" in
   aar) mkdir -p "$of/dist/T/com/x"; echo j > "$of/dist/T/com/x/A.java"; echo so > "$of/dist/libT.so";;
   nuget) echo dll > "$of/dist/T.dll"; if [ -n "$STUB_PDB" ]; then echo pdb > "$of/dist/T.pdb"; fi;;
   swiftpackage) mkdir -p "$of/dist/T.framework"; echo bin > "$of/dist/T.framework/T"; echo plist > "$of/dist/T.framework/Info.plist"
      if [ -n "$STUB_DSYM" ]; then mkdir -p "$of/dist/T.framework.dSYM/Contents/Resources/DWARF"; echo d > "$of/dist/T.framework.dSYM/Contents/Resources/DWARF/T"; fi;;
  esac;;
java)
  for a in "$@"; do if [ "$a" = "assembleRelease" ]; then mkdir -p build/outputs/aar; echo aar > build/outputs/aar/T-release.aar; fi; done;;
nuget)
  if [ "$1" = "pack" ]; then
    sym=""
    while [ $# -gt 0 ]; do if [ "$1" = "-OutputDirectory" ]; then od="$2"; fi; if [ "$1" = "-Symbols" ]; then sym=1; fi; shift; done
    mkdir -p "$od"; echo pkg > "$od/T.1.2.3.nupkg"; if [ -n "$sym" ]; then echo pkg > "$od/T.1.2.3.symbols.nupkg"; fi
  fi;;
lipo)
  while [ $# -gt 0 ]; do if [ "$1" = "-output" ]; then echo fat > "$2"; fi; shift; done;;
xcodebuild)
  while [ $# -gt 0 ]; do if [ "$1" = "-output" ]; then mkdir -p "$2"; echo plist > "$2/Info.plist"; fi; shift; done;;
git)
  if [ "$1" = "clone" ]; then for a in "$@"; do dst="$a"; done; mkdir -p "$dst/.git"; echo ref > "$dst/.git/HEAD"; echo swift > "$dst/Package.swift"; fi;;
esac
exit 0
'''


# ---- the environment dimension: optional helper programs that may or may not be installed next to the named tools ----
# A helper never fails and never writes a file. Run with a command as its arguments (`ccache cc …`, `time cmd`, `nice cmd`, `xcrun cmd`)
# it runs that command and passes its status on; otherwise it swallows its standard input (`… | xcpretty`, `… | tee log`).
# It logs itself to a file of its own (`helpers.tsv`), so the numbering of the invocation points of the named tools is unchanged.
HELPER_STUB = r'''#!/bin/sh
name=$(basename "$0")
st=0
if [ $# -gt 0 ] && [ -x "$STUB_ROOT/bin/$1" ]; then "$@"; st=$?; else cat >/dev/null 2>&1; fi
printf '%s\t%s\t%s\n' "$name" "$st" "$*" >> "$STUB_ROOT/helpers.tsv"
exit $st
'''

# formatters / wrappers / launchers commonly put around build tools
COMMON_HELPERS = ["xcpretty", "xcbeautify", "ccache", "sccache", "tee", "time", "nice", "ionice", "stdbuf", "unbuffer", "script", "ts",
                  "pv", "caffeinate", "arch", "xcrun", "mint", "bundle", "sudo", "nohup", "timeout", "retry", "chronic",
                  "mono", "dotnet", "gradle", "mvn", "ssh", "ssh-agent", "sshpass", "gh", "hub", "git-lfs", "cmake", "ninja", "brew"]
_PROGRAM = __import__("re").compile(r"^[A-Za-z][A-Za-z0-9_+.-]*$")


def helper_candidates(src: Path) -> tuple[list[str], list[str]]:
    """Names of programs the packaging code could look for or start besides the named tools, derived from the code under test:
    every constant handed to a `which(…)` call, every constant that is (part of) an argument of `execute` / `os.system` /
    `subprocess.*` (any word of a command line can become a command once the shell sees an operator before it) — plus the
    common wrappers and formatters. Never a named tool, never one of the core utilities the gradle wrapper script needs.
    Returns (all candidates, those the code looks up with `which` itself)."""
    import ast
    found, looked_up = set(), set()
    for d in ("packaging", "builder"):
        for f in sorted((src / "pydjinni" / d).rglob("*.py")):
            try:
                tree = ast.parse(f.read_text())
            except (SyntaxError, UnicodeDecodeError):
                continue
            for node in ast.walk(tree):
                if not isinstance(node, ast.Call):
                    continue
                fn = node.func
                name = fn.attr if isinstance(fn, ast.Attribute) else getattr(fn, "id", "")
                if name not in ("which", "execute", "system", "run", "call", "check_call", "check_output", "Popen", "popen"):
                    continue
                for sub in ast.walk(node):
                    if isinstance(sub, ast.Constant) and isinstance(sub.value, str):
                        for word in sub.value.replace("|", " ").replace(";", " ").replace("&", " ").split():
                            word = word.strip("'\"()`$")
                            if _PROGRAM.match(word):
                                found.add(word.rsplit("/", 1)[-1])
                                if name == "which":
                                    looked_up.add(word.rsplit("/", 1)[-1])
    named = set(TOOLS) | set(COREUTILS) | {"gradlew", "gradlew.bat"}
    return sorted((found | set(COMMON_HELPERS)) - named), sorted(looked_up - named)


# ---- the address dimension of the Swift package `publish`: how `package.swiftpackage.publish.repository` is spelled ----
# `{root}` stands for the sandbox directory (absolute local paths). Whether a form is published through git or copied into a
# directory is NOT stated here: the model decides it from the spelling (`Pkg.classifyRepo`, the rule of the code), the check compares.
def address_forms() -> list[str]:
    hosts = ["github.com", "gitlab.example.com", "h", "10.0.0.7", "git.example.org:2222"]
    scp, url = [], []
    tails = ["repo.git", "foo/bar.git", "group/subgroup/repo.git", "a/b/c/d/e.git", "/srv/git/repo.git", "~user/repo.git", "~/repo.git",
             "repo.git/", "g//r.git", "g/./r.git", "foo/bar", ".git", "x/.git", "r.git.", "r.GIT", "foo/bar.git.git", "2222/grp/r.git",
             "foo-bar_baz/r.v2.git", "team/repo", "x.git/y"]
    for i, t in enumerate(tails):
        scp.append(f"git@{hosts[i % 4]}:{t}")
    scp += ["user@h:foo/bar.git", "git@h", "git@", "git@h:", " git@h:foo/bar.git", "Git@h:foo/bar.git", "git@h:foo/bar.git ", "org-1234@github.com:foo/bar.git"]
    for i, t in enumerate(["foo/bar.git", "repo.git", "group/subgroup/repo.git", "a/b/c/d/e.git", "foo/bar", "", "repo.git/", "~user/repo.git"]):
        scheme = "https" if i % 3 else "http"
        host = hosts[i % len(hosts)]
        user = "user@" if i % 4 == 1 else ""
        url.append(f"{scheme}://{user}{host}/{t}")
    url += ["HTTPS://GitHub.com/foo/bar.git", "https://h:8443/g/s/r.git", "https://h/r.git?ref=main#frag"]
    other = ["ssh://git@h/foo/bar.git", "ssh://git@h:22/g/s/r.git", "git://h/r.git", "git+ssh://git@h/r.git", "file:///srv/git/r.git", "ftp://h/r.git"]
    local = ["published", "./published", "published/", "a/b/c", "pub.git", "git@dir", "~/pub", "../pub", "{root}/ext/pub", "{root}/ext/pub.git/",
             "{root}/proj/abs_pub", "out put", "."]
    return scp + url + other + local


DEFAULT_ADDRESS = {"local": "published", "git": "git@github.com:foo/bar.git", "url": "https://github.com/foo/bar.git"}


def address_of(case) -> str:
    """the repository address of a Swift package case as the configuration spells it (with `{root}` for the sandbox directory)"""
    return case.get("address") or DEFAULT_ADDRESS[case.get("publish_mode", "local")]


def dist_files(case) -> list[list[str]]:
    k = case["key"]
    if k == "aar":
        return [["T", "com", "x", "A.java"], ["libT.so"]]
    if k == "nuget":
        return [["T.dll"]] + ([["T.pdb"]] if case.get("pdb") else [])
    out = [["T.framework", "T"], ["T.framework", "Info.plist"]]
    if case.get("dsym"):
        out.append(["T.framework.dSYM", "Contents", "Resources", "DWARF", "T"])
    return out


def template_files(src: Path, key: str) -> list[list[str]]:
    d = src / "pydjinni" / "packaging" / key / "template"
    return sorted(list(p.relative_to(d).parts) for p in d.rglob("*") if p.is_file())


ALL_PLATFORMS = {"aar": ["android"], "nuget": ["windows"], "swiftpackage": ["macos", "ios", "ios_simulator"]}


def options(case, root: Path) -> dict:
    key = case["key"]
    plats = {p: [] for p in ALL_PLATFORMS[key]}
    if not case.get("explicit"):
        for p, archs in case["platforms"]:
            plats[p] = archs
    if key == "aar":
        pub = {"group_id": "g", "artifact_id": "a"}
        if case.get("publish_mode") == "remote":
            pub.update({"maven_registry": "https://maven.example.org/repo", "username": "u", "password": "p"})
    elif key == "nuget":
        pub = {"username": "u", "password": "p"}
        if case.get("publish_mode") == "local":
            pub["source"] = "localfeed"
        if case.get("readme"):
            pub["readme"] = "README.md"
    else:
        pub = {"repository": address_of(case).replace("{root}", str(root)), "username": "u", "password": "p"}
    pkg = {"target": TARGET, "version": VERSION, key: {"platforms": plats, "publish": pub}}
    spelled = out_spelling(case, root)
    if spelled is not None:
        pkg["out"] = spelled
    return {"package": pkg, "build": {"conan": {}}}


# ---- where the operation is started and where `package.out` (with the build and package directories below it) lies ----
# cwd: "proj" = the project directory; "sub" = a sub-directory of it (the process working directory at call time is not the
#      directory the absolute paths of the configuration were written for).
# out: "dist" the default (relative, one level); "nested" relative, several levels; "in_abs" absolute, in the project directory;
#      "else_abs" absolute, outside the project directory; "dotdot" relative through `..`, outside the project directory.
OUT_KINDS = ("dist", "nested", "in_abs", "else_abs", "dotdot")
CWD_KINDS = ("proj", "sub")


# Values outside the model's domain: `execute` joins the command line unquoted, so a blank or a shell operator in a path that is
# spliced into it changes what the shell runs (`Pkg.executeSh_simple` holds for simple commands only). `package.out` spelled so:
UNQUOTED_OUT = {"u_semi": "a;true #b", "u_blank": "my out", "u_pipe": "x|cat"}


def outside_dom(case) -> bool:
    return out_kind(case) in UNQUOTED_OUT


def out_kind(case) -> str:
    return case.get("out") or ("in_abs" if case.get("out_abs") else "dist")


def cwd_components(case) -> list[str]:
    return ["proj", "sub"] if case.get("cwd") == "sub" else ["proj"]


def out_spelling(case, root: Path):
    """`package.out` as the configuration spells it (None = not configured)"""
    k = out_kind(case)
    if k in UNQUOTED_OUT:
        return UNQUOTED_OUT[k]
    if k == "dist":
        return None
    if k == "nested":
        return "build/out/pkg"
    if k == "in_abs":
        return str(root / "proj" / "outabs")
    if k == "else_abs":
        return str(root / "ext" / "out")
    if k == "dotdot":
        return "../" * len(cwd_components(case)) + "ext_up/artifacts"
    raise ValueError(k)


def out_components(case) -> dict:
    """the same as a path value of the model"""
    k = out_kind(case)
    if k in UNQUOTED_OUT:
        return {"abs": False, "c": [UNQUOTED_OUT[k]]}
    return {"dist": {"abs": False, "c": ["dist"]}, "nested": {"abs": False, "c": ["build", "out", "pkg"]},
            "in_abs": {"abs": True, "c": ["proj", "outabs"]}, "else_abs": {"abs": True, "c": ["ext", "out"]},
            "dotdot": {"abs": False, "up": len(cwd_components(case)), "c": ["ext_up", "artifacts"]}}[k]


def out_base(case) -> list[str]:
    """the directory `package.out` denotes, from the sandbox root"""
    k = out_kind(case)
    if k in UNQUOTED_OUT:
        return cwd_components(case) + [UNQUOTED_OUT[k]]
    return {"dist": cwd_components(case) + ["dist"], "nested": cwd_components(case) + ["build", "out", "pkg"],
            "in_abs": ["proj", "outabs"], "else_abs": ["ext", "out"], "dotdot": ["ext_up", "artifacts"]}[k]


def pkg_out(case) -> list[str]:
    return out_base(case) + [case.get("configuration", "release"), "package", case["key"]]


def repo_dir(case) -> list[str]:
    return out_base(case) + [case.get("configuration", "release"), "build", case["key"], "package_repository"]


def pkg_build(case) -> list[str]:
    return out_base(case) + [case.get("configuration", "release"), "build", case["key"], "package"]


def initial_files(case) -> list[list[str]]:
    fs = []
    if case.get("readme"):
        fs.append(cwd_components(case) + ["README.md"])
    if case.get("stale"):
        fs.append(pkg_out(case) + [stale_name(case)])
    return fs


def stale_name(case) -> str:
    return {"aar": "T.aar", "nuget": "T.0.9.0.nupkg", "swiftpackage": "Package.swift"}[case["key"]]


def pre_publish_edits(case):
    remove, add = [], []
    if case.get("remove_gradlew"):
        remove.append(pkg_build(case) + ["gradlew"])
    if case.get("repo_exists"):
        add += [repo_dir(case) + ["Package.swift"], repo_dir(case) + [".git", "HEAD"]]
    return remove, add


def prior_case(case, prior) -> dict:
    """an earlier run of the package operation on the same tree: the case's configuration with the switches of `prior` (clean, platforms, …)"""
    return {**{k: v for k, v in case.items() if k not in ("fault", "prior", "history")}, **prior, "phase": "package"}


def model_request(case, templates) -> dict:
    req = _model_request(case, templates)
    if case.get("prior"):
        # the history of the tree: the configurations of the earlier (succeeding) package runs — Lean `afterRuns`
        req["prior"] = [_model_request(prior_case(case, p), templates)["cfg"] for p in case["prior"]]
    return req


def _model_request(case, templates) -> dict:
    key = case["key"]
    mode = case.get("publish_mode", "local")
    cfg = {"key": key, "target": TARGET, "version": VERSION, "configuration": case.get("configuration", "release"),
           "out": out_components(case), "platforms": case["platforms"], "clean": bool(case.get("clean")),
           "templates": templates, "distFiles": dist_files(case), "netVersion": NET,
           "readme": {"abs": False, "c": ["README.md"]} if (key == "nuget" and case.get("readme")) else None,
           "mavenRemote": mode == "remote", "nugetLocal": mode == "local",
           # the address as spelled, the sandbox directory being the model's root: `Pkg.classifyRepo` says what publish makes of it
           "repository": address_of(case).replace("{root}", "") if key == "swiftpackage" else DEFAULT_ADDRESS["git"]}
    req = {"op": "c20.run", "cfg": cfg, "phase": case["phase"], "cwd": cwd_components(case), "files": initial_files(case), "fault": None}
    f = case.get("fault")
    if f:
        req["fault"] = {"k": f["k"], "kind": f["model_kind"]}
        if f.get("also"):
            req["fault"]["also"] = list(f["also"])
        if f.get("then_missing") is not None:
            req["fault"]["thenMissing"] = f["then_missing"]
    if case["phase"] == "publish":
        req["remove"], req["add"] = pre_publish_edits(case)
    return req


def sig_of(tool: str, argv: list[str]) -> tuple[str, list[str]]:
    """the arguments that identify an invocation point (same shape as the model's `Call.sig`)"""
    if tool == "conan":
        plat = next((argv[i + 1].rsplit("/", 1)[-1] for i, a in enumerate(argv) if a == "--profile:host"), "?")
        arch = next((a.split("=", 1)[1] for a in argv if a.startswith("arch=")), "?")
        return "conan", ["build", plat, arch]
    if tool == "java":
        task = next((a for a in argv if a.startswith("assemble") or a.startswith("publish")), "?")
        return "gradlew", [task]
    if tool == "nuget":
        if argv[:1] == ["pack"]:
            return "nuget", ["pack"] + (["-Symbols"] if "-Symbols" in argv else [])
        if argv[:1] == ["sources"]:
            return "nuget", argv[:2]
        return "nuget", argv[:1]
    if tool == "lipo":
        out = next((argv[i + 1] for i, a in enumerate(argv) if a == "-output"), "")
        return "lipo", ["-create", "dSYM" if ".dSYM" in out else "framework"]
    if tool == "xcodebuild":
        return "xcodebuild", argv[:1]
    if tool == "git":
        return "git", argv[:1] + (["--tags"] if "--tags" in argv else [])
    return tool, argv


# ---------------------------------------------------------------------------------------------
# worker side
# ---------------------------------------------------------------------------------------------

def _rel(root: Path, p) -> list[str]:
    p = Path(os.path.abspath(str(p)))
    try:
        return list(p.relative_to(root).parts)
    except ValueError:
        return ["/"] + list(p.parts[1:])


def _listing(root: Path) -> list[list[str]]:
    """every file of the sandbox except the stub tools and their log (the output base may lie outside the project directory)"""
    out = []
    for top in sorted(os.listdir(root)):
        if top == "bin" or not (root / top).is_dir():
            continue
        for d, _, files in os.walk(root / top):
            for f in files:
                out.append(list((Path(d) / f).relative_to(root).parts))
    return sorted(out)


def _install_stubs(root: Path, with_tools: bool, helpers=()):
    b = root / "bin"
    b.mkdir(exist_ok=True)
    for u in COREUTILS:
        p = shutil.which(u, path="/usr/bin:/bin")
        if p and not (b / u).exists():
            os.symlink(p, b / u)
    for t in TOOLS:
        if (b / t).exists():
            (b / t).unlink()
        if with_tools:
            (b / t).write_text(STUB)
            os.chmod(b / t, 0o755)
    # optional helper programs of the environment: they stay installed when the named tools disappear
    for h in helpers:
        if h not in TOOLS and h not in COREUTILS and not (b / h).exists():
            (b / h).write_text(HELPER_STUB)
            os.chmod(b / h, 0o755)


def _read_log(root: Path) -> list[dict]:
    f = root / "log.tsv"
    out = []
    if f.exists():
        for line in f.read_text().split("\n"):
            if line:
                n, tool, st, cwd, args = (line.split("\t") + ["", ""])[:5]
                t, sig = sig_of(tool, args.split())
                out.append({"tool": t, "sig": sig, "ranIn": _rel(root, cwd), "exit": int(st or 0)})
    return out


def _read_helpers(root: Path) -> list[list]:
    f = root / "helpers.tsv"
    out = []
    if f.exists():
        for line in f.read_text().split("\n"):
            if line:
                name, st, args = (line.split("\t") + ["", ""])[:3]
                out.append([name, int(st or 0), args.split()[:1]])
    return out


# what the operation asked the environment: names looked up with `shutil.which`, command lines handed to the shell
_REC = {"which": [], "cmds": []}


def _install_recorders():
    """thin recording wrappers (they delegate unchanged); installed before pydjinni is imported, so that `from shutil import which`
    style imports bind the wrapper too"""
    import subprocess as sp
    if getattr(shutil.which, "_c20", False):
        return
    real_which, real_system, real_popen_init = shutil.which, os.system, sp.Popen.__init__

    def which(cmd, *a, **k):
        _REC["which"].append(str(cmd))
        return real_which(cmd, *a, **k)

    def system(command):
        _REC["cmds"].append(str(command))
        return real_system(command)

    def popen_init(self, args, *a, **k):
        if k.get("shell"):
            _REC["cmds"].append(args if isinstance(args, str) else " ".join(map(str, args)))
        return real_popen_init(self, args, *a, **k)

    which._c20 = True
    shutil.which, os.system, sp.Popen.__init__ = which, system, popen_init


def _tree(root: Path) -> set:
    """every file AND directory of the sandbox (components from the sandbox root) except the stub tools and their logs"""
    out = set()
    for top in os.listdir(root):
        if top in ("bin", "log.tsv", "counter", "helpers.tsv"):
            continue
        out.add((top,))
        if (root / top).is_dir() and not (root / top).is_symlink():
            for d, dirs, files in os.walk(root / top):
                rel = Path(d).relative_to(root).parts
                for n in dirs + files:
                    out.add(rel + (n,))
    return out


def _arm(root: Path, fault, helpers=()):
    """(re)arm the stubs for one phase: counter and log reset, fault point set"""
    for n in ("counter", "log.tsv", "helpers.tsv"):
        if (root / n).exists():
            (root / n).unlink()
    os.environ["STUB_FAIL_AT"] = "-1"
    os.environ["STUB_MISSING_AT"] = "-1"
    _install_stubs(root, with_tools=not (fault and fault["kind"] == "missing" and fault["k"] == 0), helpers=helpers)
    if fault:
        if fault["kind"] == "nonzero":
            os.environ["STUB_FAIL_AT"] = " ".join(str(k) for k in [fault["k"]] + list(fault.get("also") or []))
            if fault.get("then_missing") is not None:      # always > k >= 0
                os.environ["STUB_MISSING_AT"] = str(fault["then_missing"])
        elif fault["k"] > 0:
            os.environ["STUB_MISSING_AT"] = str(fault["k"])
    _REC["which"].clear()
    _REC["cmds"].clear()


def _guarded(fn):
    from pydjinni.exceptions import ApplicationException
    try:
        fn()
        return None, None
    except ApplicationException as e:
        return int(e.code), type(e).__name__
    except BaseException as e:  # noqa: BLE001 - anything else is an internal error of the operation
        return 1, type(e).__name__


def _run_case(case, root: Path, api):
    from pydjinni import API
    proj = root.joinpath(*cwd_components(case))     # the directory the operation is started in
    proj.mkdir(parents=True)
    for fpath in initial_files(case):
        p = root.joinpath(*fpath)
        p.parent.mkdir(parents=True, exist_ok=True)
        p.write_text("x")
    os.environ["PATH"] = str(root / "bin")
    os.environ["STUB_ROOT"] = str(root)
    os.environ["STUB_KIND"] = case["key"]
    os.environ["STUB_PDB"] = "1" if case.get("pdb") else ""
    os.environ["STUB_DSYM"] = "1" if case.get("dsym") else ""
    os.environ.pop("JAVA_HOME", None)
    os.chdir(proj)
    key, conf = case["key"], case.get("configuration", "release")
    opts = options(case, root)
    out_dir = root.joinpath(*pkg_out(case))

    def out_listing():
        return sorted(list(p.relative_to(out_dir).parts) for p in out_dir.rglob("*") if p.is_file()) if out_dir.exists() else []

    def do_package(a, case=case, opts=opts):
        pc = a.configure(options=opts).package(key, conf)
        for plat, archs in case["platforms"]:
            pc.build(plat, architectures=set(archs) if case.get("explicit") else None, clean=bool(case.get("clean")))
        pc.write_package(clean=bool(case.get("clean")))

    obs = {}
    helpers = case.get("helpers") or ()
    # the history of the output tree: earlier package runs with succeeding tools, each like a command line call of its own (a fresh API
    # object), in the same project directory into the same `package.out`; nothing is removed between the runs
    for prior in case.get("prior") or ():
        pc_ = prior_case(case, prior)
        _arm(root, None, helpers)
        code, exc = _guarded(lambda: do_package(API(), pc_, options(pc_, root)))
        if code is not None or os.getcwd() != str(proj) or not out_listing():
            return {"prepare_failed": True, "code": code, "exc": exc, "cwdAfter": _rel(root, os.getcwd())}
    if case["phase"] == "package":
        _arm(root, case.get("fault"), helpers)
        tree_before = _tree(root)
        obs["outBefore"] = out_listing()
        obs["cwdBefore"] = _rel(root, os.getcwd())
        obs["code"], obs["exc"] = _guarded(lambda: do_package(api))
    else:
        _arm(root, None, helpers)
        code, exc = _guarded(lambda: do_package(api))
        if code is not None or os.getcwd() != str(proj):
            return {"prepare_failed": True, "code": code, "exc": exc, "cwdAfter": _rel(root, os.getcwd())}
        remove, add = pre_publish_edits(case)
        for r in remove:
            p = root.joinpath(*r)
            if p.is_dir():
                shutil.rmtree(p)
            elif p.exists():
                p.unlink()
        for a in add:
            p = root.joinpath(*a)
            p.parent.mkdir(parents=True, exist_ok=True)
            p.write_text("x")
        _arm(root, case.get("fault"), helpers)
        tree_before = _tree(root)
        obs["outBefore"] = out_listing()
        obs["cwdBefore"] = _rel(root, os.getcwd())
        # a separate `pydjinni publish` invocation: fresh API object
        obs["code"], obs["exc"] = _guarded(lambda: API().configure(options=opts).publish(key, conf))
    obs["cwdAfter"] = _rel(root, os.getcwd())
    obs["outAfter"] = out_listing()
    obs["files"] = _listing(root)
    obs["calls"] = _read_log(root)
    # files and directories that are there now and were not there before the operation
    obs["newPaths"] = sorted(list(p) for p in _tree(root) - tree_before)
    obs["cmdlines"] = list(_REC["cmds"])
    obs["whichAsked"] = sorted(set(_REC["which"]))
    obs["helperCalls"] = _read_helpers(root)
    return obs


def _run_seq(case, root: Path, api):
    """several operations in ONE process: step i runs in a sandbox of its own (`<root>/s<i>`: project directory, output base, stub
    tools and their log), the process changes into the step's start directory between the operations, nothing else is reset —
    module state of pydjinni, the `API` object (unless the step asks for a fresh one) and the process working directory carry over"""
    from pydjinni import API
    out = []
    for i, step in enumerate(case["seq"]):
        sub = root / f"s{i}"
        sub.mkdir(parents=True)
        try:
            out.append(_run_case(step, sub, API() if step.get("fresh_api") else api))
        except BaseException as e:  # noqa: BLE001
            import traceback
            out.append({"harness_error": f"{type(e).__name__}: {e}", "trace": traceback.format_exc()[-1500:]})
    return {"steps": out}


def worker_main(base: Path):
    elsewhere = base / "elsewhere"
    elsewhere.mkdir(parents=True, exist_ok=True)
    os.chdir(elsewhere)          # pydjinni is imported here, the cases run somewhere else
    _install_recorders()
    from pydjinni import API
    api = API()
    for line in sys.stdin:
        line = line.strip()
        if not line:
            continue
        case = json.loads(line)
        root = base / f"c{case['id']}"
        shutil.rmtree(root, ignore_errors=True)
        root.mkdir(parents=True)
        r, w = os.pipe()
        pid = os.fork()
        if pid == 0:
            try:
                os.close(r)
                dn = os.open(os.devnull, os.O_WRONLY)
                os.dup2(dn, 1)
                os.dup2(dn, 2)
                os.dup2(os.open(os.devnull, os.O_RDONLY), 0)      # a tool that reads its standard input must not eat the case feed
                try:
                    res = _run_seq(case, root, api) if "seq" in case else _run_case(case, root, api)
                except BaseException as e:  # noqa: BLE001
                    import traceback
                    res = {"harness_error": f"{type(e).__name__}: {e}", "trace": traceback.format_exc()[-1500:]}
                os.write(w, json.dumps(res).encode())
            finally:
                os._exit(0)
        os.close(w)
        data, deadline = b"", time.time() + float(case.get("timeout", 30))
        while True:
            left = deadline - time.time()
            if left <= 0:
                os.kill(pid, 9)
                data = json.dumps({"hang": True}).encode()
                break
            rd, _, _ = select.select([r], [], [], left)
            if rd:
                chunk = os.read(r, 1 << 16)
                if not chunk:
                    break
                data += chunk
        os.close(r)
        os.waitpid(pid, 0)
        shutil.rmtree(root, ignore_errors=True)
        try:
            res = json.loads(data or b"{}")
        except ValueError:
            res = {"harness_error": "unreadable child result"}
        res["id"] = case["id"]
        sys.stdout.write(json.dumps(res) + "\n")
        sys.stdout.flush()


# ---------------------------------------------------------------------------------------------
# pool
# ---------------------------------------------------------------------------------------------

def run_cases(tmp: Path, cases: list[dict], env: dict, workers: int = 12) -> list[dict]:
    """Run every case; result order follows `cases`. Each worker gets a round-robin share."""
    if not cases:
        return []
    workers = max(1, min(workers, len(cases)))
    env = dict(env)
    env["PYTHONHASHSEED"] = "0"
    procs = []
    for i in range(workers):
        share = cases[i::workers]
        base = tmp / f"w{i}"
        base.mkdir(parents=True, exist_ok=True)
        p = subprocess.Popen([sys.executable, str(Path(__file__).resolve()), "--worker", str(base)], stdin=subprocess.PIPE,
                             stdout=subprocess.PIPE, stderr=subprocess.PIPE, text=True, env=env, cwd=str(base))
        procs.append((p, share))
    results = {}
    # feed all, then collect (pipes are small: write in a thread-free way by using communicate per worker)
    import threading
    outs = [None] * len(procs)

    def drive(ix):
        p, share = procs[ix]
        outs[ix] = p.communicate("".join(json.dumps(c) + "\n" for c in share))

    ts = [threading.Thread(target=drive, args=(i,)) for i in range(len(procs))]
    for t in ts:
        t.start()
    for t in ts:
        t.join()
    for (p, share), (so, se) in zip(procs, outs):
        for line in so.split("\n"):
            if line.strip():
                r = json.loads(line)
                results[r["id"]] = r
        if p.returncode != 0 and len([c for c in share if c["id"] in results]) != len(share):
            raise RuntimeError(f"packaging worker failed rc={p.returncode}: {se[-2000:]}")
    return [results.get(c["id"], {"harness_error": "no result"}) for c in cases]


if __name__ == "__main__":
    if len(sys.argv) >= 3 and sys.argv[1] == "--worker":
        worker_main(Path(sys.argv[2]))
