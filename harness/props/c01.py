"""C01 — accepted IDL yields glue code that compiles, or a documented diagnostic.

Theorem (Props/C01.lean): every named type a declaration's C++ type specifiers write (through generic
arguments and inline function signatures of any depth) is covered by the declaration's dependency list —
listed itself, or provided by a listed inline function type's own header (`written_types_covered`);
`<optional>` is a dependency whenever `std::optional<…>` is written (`optional_header_included_record`).

Tie (every run): (i) the dependency lists of all declarations, named and anonymous, model (`c01.deps`) vs the
real parser's `decl.dependencies`; (ii) file level: the `#include` lines of every generated C++ header contain
the header of every listed dependency and `<optional>` exactly when a dependency is optional.

Specification on the implementation's observation: (a) `generate` ends in success or a documented
application diagnostic (never UndefinedError/AttributeError/KeyError/RecursionError); (b) coverage of the written
names by the implementation's own dependency lists; every C++/JNI header compiles alone and every C++/JNI
source compiles against the copied support library and jni.h (g++ -fsyntax-only), all Java compiles together
(javac) — judged for programs of the closed feature set and for one witness per known-finding shape;
(c) no output of any target contains an unrendered template marker, and no undefined template value was
printed or iterated (PYDJINNI_VERIF hook). Objective-C, Objective-C++ and C++/CLI have no compiler here:
for them only (a) and (c) are decided (stated as partial in DESIGN.md).

Reserved identifiers (`keyword_obligations`, model Gen/Keywords.lean, theorems Props/C01Keywords.lean, translator harness/kwtables.py):
a name property validated against a table never emits a word of that table, the *converted* name decides, every `split`
component is checked (`emitted_not_reserved`, `reserved_refused`, `validate_split`, `split_join`), and with reference table ⊆
implementation table no reserved word of the language is emitted (`no_reserved_word_emitted`, `modelled_property_sound`).
Generated every run from the live tree and discharged by `decide +kernel`: reference ⊆ live keyword table per language; every
name-producing property of every `type.py` (by `ast`) is the one the model lists, decorator for decorator; every place a
template prints such a property is validated, harmless by construction, or a listed finding. Tie: every name property of every
marshalling object of one program that uses the run's name pool in every role, under several identifier-style configurations,
against `nameOutcome`. Specification on the observation: a property never *returns* a reserved word of its language; a
candidate is turned into a small program whose generated code contains the word as identifier (g++/javac reject it and accept
its twin; token comparison for Objective-C and C++/CLI) and reported as `keyword:<generator>:<role>`.
"""
from __future__ import annotations

import json
import os
import random
import re
import shutil
from pathlib import Path

import common
import front
import genrun
import judges
import kwtables

LEAN_MODULE = "PydjinniModel.Props.C01All"
THEOREMS = [
    "Pydjinni.Gen.mentions_sub_provided",
    "Pydjinni.Gen.providedT_iff",
    "Pydjinni.Gen.providedF_iff",
    "Pydjinni.Gen.written_types_covered",
    "Pydjinni.Gen.optional_dep_of_writtenT",
    "Pydjinni.Gen.optional_header_included_record",
    "Pydjinni.Gen.Keywords.emitted_not_reserved",
    "Pydjinni.Gen.Keywords.emitted_not_reserved_whole",
    "Pydjinni.Gen.Keywords.reserved_refused",
    "Pydjinni.Gen.Keywords.converted_reserved_refused",
    "Pydjinni.Gen.Keywords.outcome_error_documented",
    "Pydjinni.Gen.Keywords.validate_split",
    "Pydjinni.Gen.Keywords.split_join",
    "Pydjinni.Gen.Keywords.no_reserved_word_emitted",
    "Pydjinni.Gen.Keywords.modelled_property_sound",
    "Pydjinni.Gen.Keywords.tokens_join",
    "Pydjinni.Gen.Keywords.namespace_components_not_reserved",
    "Pydjinni.Gen.Keywords.pascal_not_reserved",
    "Pydjinni.Gen.Keywords.glued_not_reserved",
]
LEVEL = "proof"
TARGETS = ["cpp", "java", "objc", "cppcli", "yaml"]
DOCUMENTED = {"InvalidIdentifierException", "GenerationException", "ConfigurationException", "ParsingException", "TypeResolvingException"}

# ---------------------------------------------------------------------------------------------------
# shapes: one small program per feature (the closed world the random generator composes from) and one
# witness per known finding. `expect` is the key of the known finding the shape exhibits (None = must be clean).
# ---------------------------------------------------------------------------------------------------
SHAPES = {
    "ns_same_name_all_targets": ("namespace geo { point = record { x: i32; } }\nnamespace ui { point = record { y: i32; } hit = record { a: .geo.point; b: point; } }", "compile:same-name-in-two-namespaces"),
    "enum": ("e = enum { a; b; }", None),
    "enum_empty": ("e = enum { }", None),
    "flags_all_last": ("f = flags { x; y; n = none; a = all; }", None),
    "flags_empty": ("f = flags { }", None),
    "rec_prims": ("r = record { a: bool; b: i8; c: i16; d: i32; e: i64; f: f32; g: f64; h: string; i: binary; j: date; }", None),
    "rec_prims_eq": ("r = record { a: bool; b: i8; c: i16; d: i32; e: i64; f: f32; g: f64; h: string; i: binary; j: date; } deriving(eq)", None),
    "rec_prims_ord": ("r = record { b: i8; c: i16; d: i32; e: i64; f: f32; g: f64; h: string; j: date; } deriving(ord)", None),
    "rec_opt": ("r = record { a: i32?; b: string?; c: list<i32>?; }", None),
    "rec_coll": ("r = record { a: list<i32>; b: set<string>; c: map<string, list<i64>>; }", None),
    "rec_coll_eq": ("r = record { a: list<i32>; b: set<string>; c: map<string, list<i64>>; } deriving(eq)", None),
    "rec_nested": ("e = enum {a;}\nf = flags {x;}\ns = record { a: i32; } deriving(eq, ord)\nr = record { e1: e; f1: f; s1: s; } deriving(eq)", None),
    "rec_nested_ord": ("e = enum {a;}\ns = record { a: i32; } deriving(eq, ord)\nr = record { e1: e; s1: s; } deriving(ord)", None),
    "rec_empty": ("r = record { }", None),
    "rec_base_cpp": ("r = record +cpp { a: i32; }", "skip-compile:record-extension-needs-user-header"),
    "rec_base_java": ("r = record +java { a: i32; } deriving(eq)", None),
    "iface_cpp": ("i = interface +cpp { m(a: i32) -> i32; n(); static s() -> i; const c() -> string; }", None),
    "iface_java": ("i = interface +java { m(a: i32) -> i32; n(); }", None),
    "iface_both": ("i = interface { m(a: i32) -> i32; n(s: string) -> string; }", "compile:java-proxy-returns-string-like"),
    "iface_opt_str": ("i = interface +cpp { m(a: string?) -> string?; }", None),
    "iface_rec": ("r = record { a: i32; }\ni = interface +cpp { m(a: r, b: list<r>, c: r?) -> r; }", None),
    "iface_iface": ("j = interface +cpp { x(); }\ni = interface +cpp { m(a: j, b: j?) -> j; }", None),
    "iface_flags_enum": ("e = enum {a;}\nf = flags {x;}\ni = interface +cpp { m(a: e, b: f) -> f; }", None),
    "iface_throws": ("i = interface +cpp { m() throws -> i32; }", None),
    "iface_throws_err": ("err = error { a; b(code: i32); }\ni = interface +cpp { m() throws err -> i32; n() throws err; }", None),
    "iface_main": ("i = main interface +cpp { static s(); }", None),
    "iface_fnparam": ("i = interface +cpp { m(cb: (x: i32) -> bool); n(cb: ()); }", None),
    "iface_fn_nested": ("r = record { a: i32; }\ni = interface +cpp { m(cb: (x: list<r>, y: (z: r?) -> bool) -> r); }", "compile:inline-function-inside-inline-function"),
    "fn_named": ("f = function (a: i32) -> bool;", None),
    "fn_named_void": ("f = function ();", None),
    "fn_cpp_only": ("f = function +cpp (a: i32);", None),
    "fn_throws": ("f = function (a: i32) throws -> i32;", None),
    "fn_rec": ("r = record {a: i32;}\nf = function (a: list<r>) -> r;", None),
    "fn_rec_nested": ("r = record {a: i32;}\ns = record { b: r; }\nf = function (a: list<r>) -> map<string, s>;", None),
    "enum_in_generic": ("e = enum { k; }\nf = function (a: list<e>);", "compile:optional-enum-across-jni"),
    "fn_fn": ("g = function (a: i32);\nf = function (cb: g) -> g;", None),
    "err_simple": ("err = error { a; b; }", None),
    "err_params": ("err = error { a(code: i32); b(code: i32 ok: bool); }", None),
    "err_str": ("err = error { a(msg: string); }", None),
    "err_opt": ("err = error { a(msg: i32?); }", None),
    "err_rec_nested": ("r = record {a: i32;}\nerr = error { c(x: list<r>); }", None),
    "err_empty": ("err = error { }", None),
    "ns": ("namespace a.b { e = enum {x;} r = record { f: e; } }\nr2 = record { f: a.b.r; }", None),
    "ns_iface": ("namespace a { r = record {x: i32;} i = interface +cpp { m(p: r) -> r; } }", None),
    "ns_throws_other": ("namespace a { err = error { k; } }\nnamespace b { i = interface +cpp { m() throws a.err; } }", None),
    "deprecated": ("# @deprecated use other\ne = enum { \n# @deprecated\n a; }\n# @deprecated\nr = record { \n# @deprecated x\n a: i32; }\n# @deprecated\ni = interface +cpp { \n# @deprecated\n m(); }", None),
    "comments": ("# doc\ne = enum { \n# item doc\n a; }\n# rec doc\nr = record { \n# field doc\n a: i32; }\n# if doc\ni = interface +cpp { \n# method doc\n# @param a the a\n# @returns something\n m(a: i32) -> i32; }", None),
    "kw_field": ("r = record { default: i32; }", "documented:InvalidIdentifierException"),
    "kw_method": ("i = interface +cpp { new(); }", "documented:InvalidIdentifierException"),
    "kw_param": ("i = interface +cpp { m(class: i32); }", "documented:InvalidIdentifierException"),
    "kw_two_roles": ("e = enum { delete; other; }\ni = interface +cpp { delete(id: i32); }", "documented:InvalidIdentifierException"),
    "kw_two_roles_rev": ("i = interface +cpp { m(delete: i32); }\ne = enum { delete; }", "documented:InvalidIdentifierException"),
    "kw_harmless_roles": ("e = enum { delete; new; class; }\ndelete = record { a: i32; }", None),
    "kw_java_field": ("e = enum { native; }\nr = record { native: i32; }", "documented:InvalidIdentifierException"),
    "kw_cxx20_word": ("r = record { constinit: i32; }", "documented:InvalidIdentifierException"),
    "kw_jni_param_camel": ("i = interface +cpp { m(delete_: i32); }", "documented:InvalidIdentifierException"),
    "cb_nested_generic_pair": ("foo = record { a: i32; }\nbar = record { b: i32; }\ni = interface +cpp { m(cb: (items: list<list<foo>>)); n(cb: (items: list<list<bar>>)); }", None),
    "cb_generic_pair_depth1": ("foo = record { a: i32; }\nbar = record { b: i32; }\ni = interface +cpp { m(cb: (items: map<string, foo>)); n(cb: (items: map<string, bar>)); }", None),
    "date_bin": ("i = interface +cpp { m(d: date, b: binary) -> date; }", None),
    "gen_nested": ("i = interface +cpp { m(a: map<string, list<set<i32>>>) -> list<list<string>>; }", None),
    # ---- witnesses of known findings (see findings/C01.json) ----
    "flags_all_first": ("f = flags { a = all; x; y; }", None),
    "flags_all_only": ("f = flags { a = all; }", None),
    "rec_opt_eq": ("r = record { a: i32?; b: string?; } deriving(eq)", None),
    "rec_ord_java": ("r = record { b: i32; } deriving(ord)", None),
    "rec_bool_ord": ("r = record { a: bool; } deriving(ord)", "compile:ord-over-bool-or-optional"),
    "rec_empty_eq": ("r = record { } deriving(eq)", None),
    "rec_opt_enum": ("e = enum {a;}\nr = record { a: e?; b: list<e?>; }", "compile:optional-enum-across-jni"),
    "iface_opt_prim": ("i = interface +cpp { m(a: i32?) -> i32?; }", None),
    "iface_opt_prim_java": ("i = interface +java { m(a: i32?) -> i32?; }", None),
    "iface_java_string": ("i = interface +java { n(s: string) -> string; }", "compile:java-proxy-returns-string-like"),
    "iface_async_cpp": ("i = interface +cpp { async m(a: i32) -> i32; }", None),
    "iface_async_both": ("i = interface { async m(a: i32) -> i32; }", None),
    "iface_async_throws": ("err = error { a; }\ni = interface +cpp { async m() throws err -> string; }", None),
    "iface_async_rec": ("r = record {a: i32;}\ni = interface +cpp { async m() -> r; async l() -> list<r>; }", None),
    "iface_async_java": ("i = interface +java { async m(a: i32) -> i32; }", "compile:async-on-non-cpp-interface"),
    "iface_async_void": ("i = interface +cpp { async n(); }", None),
    "iface_async_void_all": ("s = record { a: i32; }\ni = interface +cpp { async a(); static async b(); static async c(v: s); async d(v: s) throws; static async e() -> i32; const f(); }", None),
    "iface_async_void_java": ("i = interface +java { async a(); async b(v: i32); }", "compile:async-on-non-cpp-interface"),
    "deprecated_special": ('# @deprecated use "other" instead (see C:\\docs\\x)\ne = enum {\n # @deprecated it\'s "old"; 100% \\n\n a; b; }\n# @deprecated "q"\nr = record {\n # @deprecated \\\n a: i32; }\n# @deprecated tab\there\ni = interface +cpp {\n # @deprecated "x" and \\"y\\"\n m(); }', None),
    "fn_opt_ret": ("f = function (a: i32?) -> bool?;", None),
    "kw_enum_null": ("e = enum { null; }", None),
    "map_key_rec": ("r = record { a: i32; } deriving(eq)\ns = record { m: map<r, i32>; }", "compile:record-as-hash-key"),
    "generic_bare": ("r = record { a: list; }", "compile:generic-without-arguments"),
    "inline_fn_long_name": ("i = interface +cpp { m(cb: (p0: map<string, list<set<i64>>>, p1: map<string, list<set<i64>>>, p2: map<string, list<set<i64>>>, p3: map<string, list<set<i64>>>, p4: map<string, list<set<i64>>>, p5: map<string, list<set<i64>>>, p6: map<string, list<set<i64>>>, p7: map<string, list<set<i64>>>, p8: map<string, list<set<i64>>>) -> bool); }", "crash:inline-function-file-name-too-long"),
    "fn_self": ("t = function (p: list<t?>);", "crash:self-referential-function-type"),
    "rec_self": ("r = record { a: r; }", "compile:type-dependency-cycle"),
    "rec_eq_noneq": ("s = record { a: i32; }\nr = record { f: s; } deriving(eq)", None),
}


def classify(ast) -> list[str]:
    """shape signature of an accepted program (canonical AST of the real parser): the known-finding keys it may exhibit"""
    decls = front.flatten_decls(ast)
    by_name = {}
    for d in decls:
        by_name[".".join(d["ns"] + [d["n"]])] = d
        by_name.setdefault(d["n"], d)
    keys = set()

    def kind_of(t):
        d = by_name.get(t["n"].lstrip("."))
        return d["k"] if d else ("collection" if t["n"] in ("list", "set", "map") else "builtin")

    def walk_types(t, f):
        if t is None:
            return
        if "fn" in t:
            for p in t["fn"]["params"]:
                walk_types(p["t"], f)
            walk_types(t["fn"]["ret"], f)
            return
        f(t)
        for a in t["a"]:
            walk_types(a, f)

    PRIM = {"bool", "i8", "i16", "i32", "i64", "f32", "f64"}
    simple = {}
    for d in decls:
        simple.setdefault(d["n"], set()).add(tuple(d["ns"]))
    if any(len(v) > 1 for v in simple.values()):
        # the generators whose file names carry no namespace component write both declarations to one path (C15)
        keys.add("compile:same-name-in-two-namespaces")
    for d in decls:
        k = d["k"]
        alltypes = []
        if k == "flags":
            mods = [("all" if i["all"] else "none" if i["none"] else "ord") for i in d["items"]]
            del mods
        if k == "enum" and any(i["n"].lower() in ("null", "eof", "errno", "true", "false", "min", "max") for i in d["items"]):
            keys.add("compile:macro-named-enumerator")
        if k == "record":
            alltypes = [f["t"] for f in d["fields"]]
            if "eq" in d["deriving"]:
                for f in d["fields"]:
                    def chk(t):
                        dd = by_name.get(t["n"].lstrip("."))
                        if dd and dd["k"] == "record" and "eq" not in dd["deriving"]:
                            keys.add("compile:eq-over-non-eq-record")
                    walk_types(f["t"], chk)
            if "ord" in d["deriving"]:
                if any("fn" not in f["t"] and (f["t"]["o"] or f["t"]["n"] == "bool") for f in d["fields"]):
                    keys.add("compile:ord-over-bool-or-optional")
            for f in d["fields"]:
                def selfref(t, me=d):
                    if by_name.get(t["n"].lstrip(".")) is me:
                        keys.add("compile:type-dependency-cycle")
                walk_types(f["t"], selfref)
        if k == "interface":
            for m in d["methods"]:
                sig = [p["t"] for p in m["params"]] + ([m["ret"]] if m["ret"] else [])
                alltypes += sig
                if m["async"]:
                    if "cpp" not in d["targets"]:
                        keys.add("compile:async-on-non-cpp-interface")
                if set(d["targets"]) - {"cpp"}:
                    r = m["ret"]
                    if r is not None and "fn" not in r and r["n"] in ("string", "binary", "date"):
                        keys.add("compile:java-proxy-returns-string-like")
        if k == "function":
            f = d["fn"]
            sig = [p["t"] for p in f["params"]] + ([f["ret"]] if f["ret"] else [])
            alltypes += sig
            if set(f["targets"]) - {"cpp"} and f["ret"] is not None and "fn" not in f["ret"] and f["ret"]["n"] in ("string", "binary", "date"):
                keys.add("compile:java-proxy-returns-string-like")
            for t in sig:
                def selfref(t, me=d):
                    if by_name.get(t["n"].lstrip(".")) is me:
                        keys.add("crash:self-referential-function-type")
                walk_types(t, selfref)
        if k == "error":
            for c in d["codes"]:
                alltypes += [p["t"] for p in c["params"]]
        for t in alltypes:
            if "fn" in t:
                if len(t["fn"]["name"]) > 200:
                    keys.add("crash:inline-function-file-name-too-long")
                inner = [q["t"] for q in t["fn"]["params"]] + ([t["fn"]["ret"]] if t["fn"]["ret"] else [])
                if any("fn" in q for q in inner):
                    keys.add("compile:inline-function-inside-inline-function")
                r0 = t["fn"]["ret"]
                if r0 is not None and "fn" not in r0 and r0["n"] in ("string", "binary", "date"):
                    keys.add("compile:java-proxy-returns-string-like")
            def generic(t):
                if t["n"] in ("list", "set", "map") and not t["a"]:
                    keys.add("compile:generic-without-arguments")
                if t["n"] in ("map", "set") and t["a"] and kind_of(t["a"][0]) == "record":
                    keys.add("compile:record-as-hash-key")
                if t["o"] and kind_of(t) in ("enum", "flags"):
                    keys.add("compile:optional-enum-across-jni")
                for a in t["a"]:
                    if "fn" not in a and kind_of(a) in ("enum", "flags"):
                        keys.add("compile:optional-enum-across-jni")
            walk_types(t, generic)
    return sorted(keys)


# ---------------------------------------------------------------------------------------------------
# worker: parse, observe dependency lists, generate all targets, judge
# ---------------------------------------------------------------------------------------------------

INCLUDE = re.compile(r'^\s*#\s*include\s+(<[^>]+>|"[^"]+")', re.M)


def _case(root: Path, case: dict) -> dict:
    from pydjinni import API
    from pydjinni.exceptions import ApplicationException, ApplicationExceptionList
    from pydjinni.generator.filters import quote
    from pydjinni.parser.ast import Function
    res = {"kind": "ok", "stage": "", "units": [], "files": [], "markers": {}, "undefined": [], "cxx": {}, "javac": [], "includes": {}, "ast": None}
    (root / "w").mkdir(parents=True)
    (root / "w" / "m.djinni").write_text(case["text"])
    os.chdir(root / "w")
    api = None
    try:
        res["stage"] = "configure"
        api = API()
        ctx = api.configure(options=case["config"])
        res["stage"] = "parse"
        gen = ctx.parse(root / "w" / "m.djinni")
        res["ast"] = [front.dump_node(n) for n in gen.ast]

        def key(d):
            return ("<anon>:" + str(d.name)) if (isinstance(d, Function) and d.anonymous) else ".".join([str(x) for x in d.namespace] + [str(d.name)])
        for d in gen.defs:
            deps = [{"k": key(t.type_def) if t.type_def is not None else "?" + str(t.name), "o": bool(t.optional)} for t in d.dependencies]
            u = {"key": key(d), "deps": deps}
            try:
                u["header"] = quote(d.cpp.header)
                u["dep_headers"] = sorted({quote(t.type_def.cpp.header) for t in d.dependencies if t.type_def is not None and getattr(t.type_def.cpp, "header", None)})
            except ApplicationException:
                u["header"] = None
            res["units"].append(u)
        for t in case["targets"]:
            res["stage"] = "generate:" + t
            gen.generate(t, clean=bool(case.get("clean")))
        for rnd in range(1, case.get("rounds", 1)):
            # the same configured context again (what the language server does on every save): parse, generate with clean
            gen = ctx.parse(root / "w" / "m.djinni")
            for t in case["targets"]:
                res["stage"] = f"round{rnd + 1}:generate:" + t
                gen.generate(t, clean=bool(case.get("clean")))
        res["stage"] = "done"
    except ApplicationExceptionList as e:
        res["kind"] = "diags"
        res["cls"] = sorted({type(i).__name__ for i in e.items})
    except ApplicationException as e:
        res["kind"] = "raised"
        res["cls"] = [type(e).__name__]
        res["msg"] = str(getattr(e, "description", ""))[:200]
    except RecursionError:
        res["kind"] = "crash"
        res["exc"] = "RecursionError"
    except Exception as e:
        import traceback
        tb = traceback.extract_tb(e.__traceback__)
        res["kind"] = "crash"
        res["exc"] = type(e).__name__
        res["msg"] = str(e)[:200]
        res["site"] = f"{Path(tb[-1].filename).name}:{tb[-1].name}" if tb else "?"
    if api is not None:
        for t in api.generation_targets.values():
            for g in t.generator_instances:
                res["undefined"] += [list(x) for x in getattr(g, "_verif_undefined_log", [])]
    out = root / "w" / "out"
    if out.exists():
        for p in sorted(out.rglob("*")):
            if p.is_file() and "pydjinni" not in p.relative_to(out).parts[1:]:
                rel = p.relative_to(out).as_posix()
                res["files"].append(rel)
                try:
                    text = p.read_text()
                except UnicodeDecodeError:
                    continue
                m = [x for x in ("//>", "/*>", "//?", "/*#") if x in text] + (["{{…}}"] if re.search(r"\{\{[^{}\n]*\}\}", text) and not rel.startswith("yaml") else [])
                if m:
                    res["markers"][rel] = m
                if rel.startswith("cpp/") and p.suffix in (".hpp", ".h"):
                    res["includes"]['"' + p.relative_to(out / "cpp").as_posix() + '"'] = INCLUDE.findall(text)
        if res["kind"] == "ok" and case.get("judge", True):
            from concurrent.futures import ThreadPoolExecutor
            with ThreadPoolExecutor(2) as pool:
                srcs = [out / "cpp", out / "jni"] if case.get("judge_sources", True) else []
                if (out / "cpp").exists():
                    (out / "cpp" / "gsl").mkdir(exist_ok=True)
                    (out / "cpp" / "gsl" / "pointers").write_text(GSL_STUB)
                hdrs = [out / "cpp", out / "jni"]
                if "cpp" not in case["targets"]:
                    hdrs, srcs = [], []        # the JNI glue is written against the C++ headers: nothing to compile without them
                cx = judges.judge_cpp_tree(out, root / "tu", pool, hdrs, srcs, [out / "cpp", out / "jni"])
            res["cxx_jobs"] = int(cx.pop("__count__")[0])
            res["cxx"] = cx
            if (out / "java").exists():
                for rel, text in ANN_SOURCES.items():
                    (out / "java" / rel).parent.mkdir(parents=True, exist_ok=True)
                    (out / "java" / rel).write_text(text)
            res["javac"] = judges.javac_tree(out / "java", root / "jv")
    os.chdir("/")
    return res


def _worker(args):
    import signal
    base, idx, chunk = args
    out = []

    class Hang(BaseException):
        pass

    def on_alarm(*_):
        raise Hang()
    signal.signal(signal.SIGALRM, on_alarm)
    for j, case in enumerate(chunk):
        root = Path(base) / f"c01_{idx}_{j}"
        shutil.rmtree(root, ignore_errors=True)
        root.mkdir(parents=True)
        signal.alarm(240)
        try:
            out.append(_case(root, case))
        except Hang:
            os.chdir("/")
            out.append({"kind": "hang", "stage": "?", "units": [], "files": [], "markers": {}, "undefined": [], "cxx": {}, "javac": [], "includes": {}, "ast": None})
        finally:
            signal.alarm(0)
            shutil.rmtree(root, ignore_errors=True)
    return out


def run_cases(base: Path, cases: list[dict], workers=15):
    import multiprocessing as mp
    front.target_keys()
    workers = max(1, min(workers, len(cases)))
    order = sorted(range(len(cases)), key=lambda i: -len(cases[i]["text"]))      # longest first: better packing
    chunks = [[cases[i] for i in order[w::workers]] for w in range(workers)]
    with mp.get_context("fork").Pool(workers) as pool:
        res = pool.map(_worker, [(str(base), w, ch) for w, ch in enumerate(chunks)])
    out = [None] * len(cases)
    for w, r in enumerate(res):
        for j, x in enumerate(r):
            out[order[w + j * workers]] = x
    return out


# ---------------------------------------------------------------------------------------------------
# closed-world random programs
# ---------------------------------------------------------------------------------------------------

def closed_program(r: random.Random) -> str:
    """random composition of features that are individually and pairwise clean on this tree (see SHAPES with expect None)"""
    prim = ["bool", "i8", "i16", "i32", "i64", "f32", "f64", "string", "binary", "date"]
    ns = r.choice([[], ["a"], ["a", "b"]])
    lines, recs, enums, flagsl, errs, ifaces = [], [], [], [], [], []

    def ty(depth=0, allow_opt=True, for_iface=False):
        m = r.random()
        if depth < 2 and m < 0.25:
            g = r.choice(["list", "set", "map"])
            if g == "map":
                t = f"map<{r.choice(['string', 'i32', 'i64'])}, {ty(depth + 1, False)}>"
            elif g == "set":
                t = f"set<{r.choice(['string', 'i32', 'i64'])}>"
            else:
                t = f"list<{ty(depth + 1, False)}>"
        elif m < 0.45 and recs:
            t = r.choice(recs)
        elif m < 0.55 and enums and depth == 0:
            return r.choice(enums)
        else:
            t = r.choice(prim)
            if for_iface and allow_opt and r.random() < 0.2 and t in ("string", "binary", "date"):
                return t + "?"
            return t
        if allow_opt and r.random() < 0.15 and not for_iface:
            t += "?"
        return t
    n = r.randint(2, 6)
    for i in range(n):
        k = r.choice(["enum", "flags", "record", "record", "interface", "function", "error"])
        if k == "enum":
            lines.append(f"e{i} = enum {{ " + " ".join(f"k{j};" for j in range(r.randint(1, 4))) + " }")
            enums.append(f"e{i}")
        elif k == "flags":
            items = [f"x{j};" for j in range(r.randint(1, 4))] + (["n = none;"] if r.random() < 0.4 else []) + (["al = all;"] if r.random() < 0.4 else [])
            lines.append(f"f{i} = flags {{ " + " ".join(items) + " }")
            flagsl.append(f"f{i}")
        elif k == "record":
            fields = [f"v{j}: {ty()};" for j in range(r.randint(1, 4))]
            lines.append(f"r{i} = record {{ " + " ".join(fields) + " }")
            recs.append(f"r{i}")
        elif k == "interface":
            ms = []
            for j in range(r.randint(1, 3)):
                ps = ", ".join(f"p{q}: {ty(for_iface=True)}" for q in range(r.randint(0, 3)))
                ret = f" -> {ty(for_iface=True)}" if r.random() < 0.6 else ""
                thr = (" throws " + r.choice(errs)) if errs and r.random() < 0.3 else (" throws" if r.random() < 0.1 else "")
                ms.append(f"{r.choice(['', '', 'const ', 'static '])}m{j}({ps}){thr}{ret};")
            if r.random() < 0.3:
                ms.append(f"cb{i}(f: ({ 'x: ' + ty(for_iface=True) if r.random() < 0.7 else ''}){' -> ' + r.choice(['bool', 'i32']) if r.random() < 0.5 else ''});")
            lines.append(f"i{i} = interface +cpp {{ " + " ".join(ms) + " }")
            ifaces.append(f"i{i}")
        elif k == "function":
            ps = ", ".join(f"p{q}: {ty(for_iface=True)}" for q in range(r.randint(0, 2)))
            ret = f" -> {r.choice(['bool', 'i32', 'f64'] + recs)}" if r.random() < 0.5 else ""
            lines.append(f"fn{i} = function ({ps}){ret};")
        else:
            codes = [f"c{j}" + (f"(a: {r.choice(['i32', 'string', 'bool'])})" if r.random() < 0.5 else "") + ";" for j in range(r.randint(1, 3))]
            lines.append(f"er{i} = error {{ " + " ".join(codes) + " }")
            errs.append(f"er{i}")
    body = "\n".join(lines)
    for part in reversed(ns):
        body = f"namespace {part} {{\n{body}\n}}"
    return body


KW_POOL = ["delete", "new", "class", "default", "register", "native", "final", "int", "null", "operator", "template", "this",
           "transient", "volatile", "goto", "const", "friend", "typename", "synchronized", "package", "import", "abstract", "id", "self",
           "nil", "super", "bool", "char", "event", "internal", "ref", "namespace", "interface", "auto", "union"]


def keyword_program(r: random.Random) -> str:
    """the same target-language keyword as identifier in two or three different roles (a harmless role first):
    the outcome must be the documented invalid-identifier diagnostic, or code that compiles"""
    kw = r.choice(KW_POOL)
    idl_reserved = {"namespace", "interface", "const", "import", "main", "static", "enum", "flags", "record", "function", "property", "async", "error", "throws", "deriving"}
    if kw in idl_reserved:
        kw = "delete"
    roles = {
        "enum_item": f"e_{{n}} = enum {{ {kw}; other; }}",
        "flag": f"f_{{n}} = flags {{ {kw}; other; }}",
        "type": f"{kw} = record {{ a: i32; }}",
        "field": f"r_{{n}} = record {{ {kw}: i32; b: string; }}",
        "method": f"i_{{n}} = interface +cpp {{ {kw}(a: i32); }}",
        "param": f"j_{{n}} = interface +cpp {{ m({kw}: i32) -> i32; }}",
        "error_code": f"er_{{n}} = error {{ {kw}; other(a: i32); }}",
        "error_param": f"es_{{n}} = error {{ c({kw}: i32); }}",
        "fn_param": f"fn_{{n}} = function ({kw}: i32) -> bool;",
    }
    picks = r.sample(sorted(roles), r.choice([2, 2, 3]))
    if "type" in picks:
        picks.remove("type")
        picks.insert(r.randrange(len(picks) + 1), "type")
    return "\n".join(roles[k].replace("{n}", str(i)) for i, k in enumerate(picks))


# one program that uses every clean feature shape; it is generated and judged under every configuration switch
FEATURE_PROGRAM = """
# kinds of things
# @deprecated use other
kind = enum { a_one; b_two; }
perm = flags { can_read; can_write; nothing = none; everything = all; }
oops = error { plain; with_code(code: i32); with_msg(msg: string detail: i32?); }
prims = record { a: bool; b: i8; c: i16; d: i32; e: i64; f: f32; g: f64; h: string; i: binary; j: date; } deriving(eq)
ordered = record { b: i8; e: i64; f: f32; g: f64; h: string; j: date; } deriving(eq, ord)
opts = record { a: i32?; b: string?; c: list<i32>?; d: i64?; e: bool?; f: f64?; } deriving(eq)
colls = record { a: list<i32>; b: set<string>; c: map<string, list<i64>>; k: kind; p: perm; o: ordered; } deriving(eq)
empty_rec = record { }
namespace deep.er {
    inner = record { first_field: i32; other: ordered; }
    # a listener
    listener = interface +java { on_event(item: inner, k: kind) -> bool; on_done(); }
}
# the service
service = main interface +cpp {
    # does it
    # @param a_value the value
    # @returns something
    do_it(a_value: i32, text: string?, when: date, blob: binary) -> i64?;
    get(items: list<prims>, one: opts?) -> map<string, colls>;
    static create() -> service;
    const describe() -> string;
    risky() throws oops -> i32;
    plain_throw() throws;
    listen(l: deep.er.listener, cb: (x: i32) -> bool);
    flags_and_enums(k: kind, p: perm) -> perm;
    async later(a: i32) -> i32;
    async later_rec() throws oops -> deep.er.inner;
    async fire_and_forget(a: i32);
    static async warm_up(cfg: opts);
    # @deprecated use "later" instead (C:\\old\\api)
    old_one();
}
both = interface { async ping(a: i32) -> i32; poke(v: i32?) -> i32?; }
node = interface +cpp { next() -> node; static make() -> node; weight() -> i32; }
callback = function (a: list<prims>) -> opts;
thrower = function (a: i32) throws -> i32;
"""

def ns_collision_program(r: random.Random) -> str:
    """equally named types in different namespaces, used side by side (C++ keeps them apart by namespace directory)"""
    name = r.choice(["point", "item", "kind"])
    spaces = r.sample(["geo", "ui", "geo.flat", "core.model", "ui.model"], r.choice([2, 3]))
    kinds = [r.choice(["record", "record", "enum", "flags"]) for _ in spaces]
    out = []
    for sp, k in zip(spaces, kinds):
        body = {"record": f"{name} = record {{ v{len(out)}: i32; }}", "enum": f"{name} = enum {{ a{len(out)}; b; }}", "flags": f"{name} = flags {{ x{len(out)}; y; }}"}[k]
        out.append(f"namespace {sp} {{ {body} }}")
    refs = [f".{sp}.{name}" for sp in spaces]
    r.shuffle(refs)
    user_ns = r.choice([None, spaces[-1], "app"])
    fields = " ".join(f"f{i}: {t};" for i, t in enumerate(refs))
    params = ", ".join(f"p{i}: {t}" for i, t in enumerate(refs))
    users = [f"holder = record {{ {fields} l: list<{refs[0]}>; o: {refs[-1]}?; }}",
             f"tracker = interface +cpp {{ track({params}) -> {refs[0]}; all() -> map<string, {refs[-1]}>; }}",
             f"picker = function ({params}) -> bool;"]
    users = r.sample(users, r.choice([1, 2, 3]))
    body = " ".join(users)
    out.append(f"namespace {user_ns} {{ {body} }}" if user_ns else body)
    return "\n".join(out)


# a small program for the switches that reach the C++ / JNI glue (quick tier: all of them, every run)
GLUE_PROGRAM = """
kind = enum { a_one; b_two; }
oops = error { plain; with_code(code: i32); }
namespace deep.er {
    inner = record { first_field: i32; k: kind; tags: list<string>; } deriving(eq)
    listener = interface +java { on_event(item: inner, k: kind) -> bool; }
}
service = main interface +cpp {
    get(items: list<deep.er.inner>, one: deep.er.inner?) -> map<string, deep.er.inner>;
    static create() -> service;
    risky(l: deep.er.listener) throws oops -> i32;
    async later(a: i32) -> deep.er.inner;
}
callback = function (a: deep.er.inner) -> bool;
node = interface +cpp { next() -> node; static make() -> node; }
"""

# stand-in for the user's not-null wrapper (configuration switch cpp.not-null), put on the include path like a user would
GSL_STUB = """#pragma once
#include <memory>
#include <utility>
namespace gsl {
template <class T> class not_null {
public:
    not_null(T t) : p_(std::move(t)) {}
    template <class U> not_null(const not_null<U>& o) : p_(o.get()) {}
    operator T() const { return p_; }
    T get() const { return p_; }
    decltype(auto) operator->() const { return p_.operator->(); }
    decltype(auto) operator*() const { return *p_; }
private:
    T p_;
};
}
"""

ANN_SOURCES = {
    "ann/lib/NonNull.java": "package ann.lib;\nimport java.lang.annotation.*;\n@Target({ElementType.TYPE_USE})\npublic @interface NonNull {}\n",
    "ann/lib/Nullable.java": "package ann.lib;\nimport java.lang.annotation.*;\n@Target({ElementType.TYPE_USE})\npublic @interface Nullable {}\n",
    "ann/lib/Generated.java": "package ann.lib;\nimport java.lang.annotation.*;\n@Target({ElementType.TYPE})\npublic @interface Generated {}\n",
    "ann/lib/NativeError.java": "package ann.lib;\npublic class NativeError extends RuntimeException { public NativeError(String m) { super(m); } }\n",
}

# valid generator configuration switches (each is applied on top of the default configuration); the Java ones that name
# user classes come with those classes (ANN_SOURCES), as a user's project would
FEATURES = {
    "java.interfaces": {"java": {"interfaces": True}},
    "java.package-private": {"java": {"class_access_modifier": "package"}},
    "java.non-final-records": {"java": {"use_final_for_record": False}},
    "java.nullability-annotations": {"java": {"nonnull_annotation": "@ann.lib.NonNull", "nullable_annotation": "@ann.lib.Nullable"}},
    "java.nonnull-annotation": {"java": {"nonnull_annotation": "@ann.lib.NonNull"}},
    "java.class-annotation": {"java": {"annotation": "@ann.lib.Generated"}},
    "java.native-lib": {"java": {"native_lib": "mylib"}},
    "java.function-prefix": {"java": {"function_prefix": "Fn"}},
    "java.no-string-serialization": {"java": {"string_serialization": False}},
    "java.cpp-exception": {"java": {"cpp_exception": "ann.lib.NativeError"}},
    "java.identifier-styles": {"java": {"identifier": {"field": "snake_case", "method": "PascalCase", "enum": "camelCase"}}},
    "java.deep-package": {"java": {"package": "org.example.deep.pkg", "support_types_package": "support.types"}},
    "cpp.flat-namespace": {"cpp": {"namespace": "lib"}},
    "cpp.deep-namespace": {"cpp": {"namespace": "a::b::c::d"}},
    "cpp.identifier-styles": {"cpp": {"identifier": {"type": "snake_case", "enum": "PascalCase", "field": "camelCase", "method": "camelCase"}}},
    "cpp.file-style-pascal": {"cpp": {"identifier": {"file": "PascalCase"}}},
    "cpp.file-style-camel": {"cpp": {"identifier": {"file": "camelCase"}}},
    "cpp.header-extension": {"cpp": {"header_extension": "h"}},
    "jni.no-loader": {"jni": {"loader": False}},
    "jni.flat-namespace": {"jni": {"namespace": "glue"}},
    "jni.identifier-styles": {"jni": {"identifier": {"class_name": "snake_case", "method": "snake_case", "field": "snake_case"}}},
    "cppcli.nullability-attributes": {"cppcli": {"nullability_attributes": True}},
    "cppcli.no-string-serialization": {"cppcli": {"string_serialization": False}},
    "objc.strict-protocols": {"objc": {"strict_protocols": False}},
    "objc.no-string-serialization": {"objc": {"string_serialization": False}},
    "objc.no-prefix": {"objc": {"type_prefix": ""}},
    # optional settings left at their defaults (the harness's base configuration sets them)
    "cpp.no-namespace": {"cpp": {"namespace": "__unset__"}},
    "cpp.not-null": {"cpp": {"not_null": {"type": "::gsl::not_null", "header": "<gsl/pointers>"}}},
    "jni.no-namespace": {"jni": {"namespace": "__unset__"}},
    "cppcli.no-namespace": {"cppcli": {"namespace": "__unset__"}},
    "objcpp.no-namespace": {"objcpp": {"namespace": "__unset__"}},
}


def config(r: random.Random | None, features=()):
    v = {"support_lib_sources": True}
    for f in features:
        genrun.front_merge(v, json.loads(json.dumps(FEATURES[f])))
    cfg = genrun.default_config(variant=v)
    for sect in cfg["generate"].values():
        if isinstance(sect, dict):
            for k in [k for k, x in sect.items() if x == "__unset__"]:
                del sect[k]
    return cfg


def pick_features(r: random.Random):
    return sorted(r.sample(sorted(FEATURES), r.choice([0, 1, 1, 2, 3])))


# ---------------------------------------------------------------------------------------------------

def covered(units: dict, u: str, x: str, depth=0) -> bool:
    deps = [d["k"] for d in units.get(u, {"deps": []})["deps"]]
    if x in deps:
        return True
    if depth > 8:
        return False
    return any(a.startswith("<anon>:") and covered(units, a, x, depth + 1) for a in deps)


# witnesses of the reserved-identifier findings that no single name property returns (see Gen/Keywords.lean `knownUnvalidated`)
KEYWORD_WITNESSES = [
    {"key": "keyword:objc:user_info_key", "gen": "objc", "word": "int", "lang": "Objective-C", "targets": ["objc"],
     "real": "i = error { n(t: i32); }", "twin": "qqi = error { n(t: i32); }",
     "variant": {"objc": {"type_prefix": "", "identifier": {"type": "none"}}}},
]


def keyword_obligations(ctx):
    """the reserved-identifier clause: generated obligations, correspondence with `nameOutcome`, specification on what the real
    properties return, failing-input search (module docstring; harness/kwtables.py)"""
    import time
    t_start = time.time()
    ref = ctx.driver.one({"op": "c01.kwref"})
    if "error" in ref:
        raise RuntimeError(f"driver error {ref}")
    tables = kwtables.live_tables()
    rows = kwtables.property_rows()
    all_sites, untyped = kwtables.print_sites()
    row_keys = {(r["gen"], r["cls"], r["attr"]) for r in rows}
    sites = [s for s in all_sites if (s["gen"], s["cls"], s["attr"]) in row_keys]
    bare = {(s["gen"], s["cls"], s["attr"]) for s in sites if s["bare"]}
    src, names = kwtables.lean_source(tables, rows, sites)
    ok, out = common.lean_check_file(src, "C01_keywords")
    failed = kwtables.failed_obligations(src, names, ok, out)
    for n in names:
        ctx.obligation(f"keywords: {n}", n not in failed, kind="generated", detail="" if n not in failed else out[-400:])
    ctx.obligation("keywords: every template expression that prints `<decl>.<generator>.<attribute>` could be typed", not untyped, kind="generated",
                   detail=json.dumps(untyped[:3]))
    ctx.stats["kw_tables"] = {k: len(v) for k, v in tables.items()}
    ctx.stats["kw_property_rows"] = len(rows)
    ctx.stats["kw_print_sites"] = len(sites)
    missing = {lang: [w for w in words if w not in tables.get(lang, [])] for lang, words in ref["reference"].items()}
    missing = {k: v for k, v in missing.items() if v}
    # correspondence and specification on the real properties
    pool = kwtables.name_pool(ctx.seed, tables, ref["reference"], ctx.n(60, 200))
    cfgs = kwtables.configs(ctx.seed, ctx.n(2, 6))
    results = kwtables.evaluate(ctx.tmp, pool, cfgs, rows)
    infra = [r for r in results if r["kind"] != "ok"]
    if infra:
        raise common.Infra(f"keyword pool program could not be evaluated: {infra[0].get('label')} {infra[0]['kind']} {infra[0].get('msg', '')}")
    kwtables.model_answers(ctx.driver, tables, results)
    breaks, cands, stats = kwtables.compare(results, ref)
    for r in results:
        ctx.count(key=f"keywords/{r['label']}/{common.sha(json.dumps(r['config'], sort_keys=True) + ' '.join(pool))[:16]}", nontrivial=bool(r["tuples"]),
                  sample={"name": "keywords:" + r["label"], "names": len(pool), "properties_evaluated": len(r["tuples"])})
    ctx.stats["kw_names"] = len(pool)
    ctx.stats["kw_tuples"] = stats
    ctx.stats["kw_correspondence_breaks"] = len(breaks)
    ctx.stats["kw_spec_candidates"] = len(cands)
    ctx.obligation(f"keywords: nameOutcome = real name property on {stats['tuples']} (property, name, configuration) tuples", not breaks, kind="dynamic",
                   detail=json.dumps(breaks[:2], default=str))
    verdicts = kwtables.confirm(ctx.tmp, cands, tables, bare, groups=ctx.n(6, 16), per_group=ctx.n(4, 6))
    reported = set()
    for v in verdicts:
        ctx.stat("kw_confirm_" + ("confirmed" if v["confirmed"] else v["outcome"]))
        c = v["cand"]
        key = f"keyword:{c['gen']}:{c['role']}"
        if v["confirmed"] and key not in reported:
            reported.add(key)
            ctx.report(key, f"a reserved word of {c['lang']} is written into the generated {c['gen']} code as an identifier",
                       {"input": {"m.djinni": v["program"], "config": v["config"], "targets": v["targets"]}, "twin": v.get("twin"), "word": c["word"],
                        "name_property": f"{c['cls']}.{c['attr']}", "idl_name": c["name"], "configuration": c["config"],
                        "evidence": {k: v.get(k) for k in ("identifier_uses", "files", "compiler")}})
    # findings that are a concatenation of several properties: fixed witnesses
    import multiprocessing as mp
    wjobs = []
    for w in KEYWORD_WITNESSES:
        cfg = genrun.default_config(variant=json.loads(json.dumps(w["variant"])))
        wjobs.append({"cand": {"gen": w["gen"], "word": w["word"], "lang": w["lang"], "key": w["key"]}, "real": w["real"], "twin": w["twin"], "config": cfg, "targets": w["targets"]})
    with mp.get_context("fork").Pool(len(wjobs)) as pool_:
        wres = pool_.map(kwtables._confirm_worker, [(str(ctx.tmp), 900 + i, j) for i, j in enumerate(wjobs)])
    for w, v in zip(KEYWORD_WITNESSES, wres):
        if v["confirmed"]:
            ctx.report(w["key"], f"a reserved word of {w['lang']} is written into the generated {w['gen']} code as an identifier",
                       {"input": {"m.djinni": w["real"], "config": v["config"], "targets": w["targets"]}, "twin": w["twin"], "word": w["word"],
                        "evidence": v.get("identifier_uses")})
        else:
            ctx.stat("known_finding_witness_now_clean:" + w["key"])
    ctx.stats["kw_wall_s"] = round(time.time() - t_start, 1)
    ctx.assumptions += ["reserved identifiers: the reference tables of Gen/Keywords.lean are the specification (C++20 [lex.key], JLS 17 §3.9 + literals, C99 §6.4.1, "
                        "ECMA-372 true keywords) and deliberately leave out context-sensitive words",
                        "reserved identifiers: 'printed in identifier position' = printed by a template output expression; string-literal and comment positions are "
                        "over-approximated as identifier positions; a print glued to literal identifier characters counts as part of a longer identifier",
                        "reserved identifiers: a candidate is confirmed by g++/javac for C++, JNI and Java and by identifier-token comparison with a twin program "
                        "for Objective-C and C++/CLI (no compiler here)"]
    # a broken obligation or correspondence without a concrete program
    if (failed or breaks or untyped) and not any(k.startswith("keyword:") for k in [v["key"] for v in ctx.violations]):
        first = {"obligations_failed": failed[:6], "lean_output": out[-600:] if failed else "", "missing_reference_words": missing,
                 "first_break": breaks[0] if breaks else None, "untyped": untyped[:2], "candidates_tried": [
                     {"program": v["program"], "outcome": v["outcome"], "uses": v.get("identifier_uses")} for v in verdicts[:6]]}
        ctx.report("correspondence:keywords", "keyword tables / validated roles / nameOutcome and the implementation disagree; no program whose generated code "
                   "contains a reserved word as identifier was found",
                   {"correspondence": "generated obligations of harness/kwtables.py and c01.kwname vs the real name properties", **first}, no_failing_input=True)


def run(ctx):
    keyword_obligations(ctx)
    ctx.coverage["rule"] = ("one small program per feature shape (closed world) and one witness per known finding, plus random compositions of clean "
                            "features under configuration variants; all targets generated; C++/JNI headers and sources judged with g++, Java with javac; "
                            "distinct = distinct program text; non-trivial = generation succeeded and at least one file was judged")
    ctx.assumptions += ["'compiles' is judged by g++ 12 (-std=c++20 -fsyntax-only, string_serialization off: no <format> here) and javac 17; Objective-C, Objective-C++ "
                        "and C++/CLI output is only checked for markers/undefined values and the documented-outcome clause",
                        "closed-world generation: random programs only compose features whose shapes are individually judged in this run"]
    cases = []
    names = list(SHAPES) if not ctx.quick else list(SHAPES)
    for n in names:
        cases.append({"name": "shape:" + n, "text": SHAPES[n][0], "expect": SHAPES[n][1], "config": config(None), "targets": TARGETS})
    for i in range(ctx.n(12, 400)):
        r = random.Random(f"{ctx.seed}/c01/{i}")
        fs = pick_features(r)
        cases.append({"name": f"random:{i}", "text": closed_program(r), "expect": None, "config": config(r, fs), "features": fs, "targets": TARGETS,
                      "judge_sources": (not ctx.quick) or i % 3 == 0, **({"rounds": 2 + i % 2, "clean": True} if i % 4 == 1 else {})})
    # equally named types in different namespaces, C++ target (which separates them by namespace directories)
    for i in range(ctx.n(6, 80)):
        r = random.Random(f"{ctx.seed}/c01/nscoll/{i}")
        fs = pick_features(r) if i % 2 else []
        fs = [f for f in fs if f.startswith("cpp.")]
        cases.append({"name": f"ns-collision:{i}", "text": ns_collision_program(r), "expect": None, "config": config(r, fs), "features": fs, "targets": ["cpp"],
                      "judge_sources": True, "ignore_shapes": ["compile:same-name-in-two-namespaces"]})
    # every configuration switch on its own, over a program that uses every clean feature (and a random one)
    # switches that only change Java / Objective-C / C++/CLI text are judged on that target alone (cheap: every run);
    # the ones that reach the C++ or JNI glue need g++ over the whole tree and rotate through the quick tier
    fl = sorted(FEATURES)
    glue = [f for f in fl if f.startswith(("cpp.", "jni.", "cppcli.no-namespace", "objcpp.no-namespace")) or f in ("java.identifier-styles", "java.cpp-exception", "java.deep-package")]
    for f in fl:
        r = random.Random(f"{ctx.seed}/c01/feature/{f}")
        if f in glue:
            targets = TARGETS
        else:
            targets = TARGETS if not ctx.quick else [f.split(".")[0]]
        cases.append({"name": f"feature:{f}", "text": GLUE_PROGRAM if (ctx.quick and f in glue) else FEATURE_PROGRAM, "expect": None, "config": config(r, [f]), "features": [f], "targets": targets, "judge_sources": True,
                      **({"rounds": 2, "clean": True} if f in glue else {})})
        if not ctx.quick:
            cases.append({"name": f"feature:{f}:random", "text": closed_program(r), "expect": None, "config": config(r, [f]), "features": [f], "targets": TARGETS, "judge_sources": True})
    for i in range(ctx.n(10, 150)):
        r = random.Random(f"{ctx.seed}/c01/kw/{i}")
        cases.append({"name": f"keyword:{i}", "text": keyword_program(r), "expect": None, "config": config(r), "targets": ["cpp", "java"], "judge_sources": False})
    results = run_cases(ctx.tmp, cases)
    reqs = [front.front_request({"/w/m.djinni": c["text"]}, "/w/m.djinni") for c in cases]
    answers = ctx.driver.batch([{**q, "op": "c01.deps"} for q in reqs])
    breaks = []
    for c, r, m in zip(cases, results, answers):
        if "error" in m:
            raise RuntimeError(f"driver error {m}")
        ctx.stat("outcome_" + r["kind"])
        judged = r["kind"] == "ok" and r.get("cxx_jobs", 0) > 0
        ctx.count(key=c["text"], nontrivial=judged, sample={"name": c["name"], "text": c["text"][:300], "outcome": r["kind"], "judged_files": r.get("cxx_jobs", 0)})
        shape = classify(r["ast"]) if r["ast"] is not None else []
        shape = [x for x in shape if x not in c.get("ignore_shapes", ())]
        inp = {"m.djinni": c["text"], "config": c["config"], "targets": c["targets"], **{k: c[k] for k in ("rounds", "clean") if k in c}}
        failures = []      # (key, what, detail)
        # (a) documented outcome
        if r["kind"] in ("crash", "hang"):
            crash_shapes = [s for s in shape if s.startswith("crash:")]
            k = crash_shapes[0] if crash_shapes else f"crash:{r.get('exc')}@{r.get('site', r['stage'])}"
            failures.append((k, "generation ended in an internal error instead of a documented diagnostic", {"outcome": {k2: r.get(k2) for k2 in ("kind", "stage", "exc", "msg", "site")}}))
        elif r["kind"] in ("raised", "diags"):
            if not set(r.get("cls", [])) <= DOCUMENTED:
                failures.append(("undocumented:" + "+".join(r.get("cls", [])), "generation stopped with an undocumented exception class", {"outcome": r.get("cls")}))
            else:
                ctx.stat("documented_" + "+".join(r.get("cls", [])))
        # (c) markers / undefined
        if r["markers"]:
            failures.append(("marker", "generated output contains an unrendered template marker", {"markers": r["markers"]}))
        und = [u for u in r["undefined"]]
        if und:
            k = "undefined:" + und[0][2]
            failures.append((k, "an undefined template value was printed or iterated (silently empty output)", {"undefined": und[:4]}))
        # (b) structural coverage with the implementation's own dependency lists + correspondence
        if r["kind"] == "ok" and m.get("syntax"):
            iu = {u["key"]: u for u in r["units"]}
            mu = {u["key"]: u for u in m["units"]}
            if set(iu) != set(mu):
                breaks.append({"text": c["text"], "why": "declarations differ", "model": sorted(mu), "impl": sorted(iu)})
            for k, u in mu.items():
                if k in iu:
                    a = sorted((d["k"], d["o"]) for d in u["deps"])
                    b = sorted((d["k"], d["o"]) for d in iu[k]["deps"])
                    if a != b:
                        breaks.append({"text": c["text"], "why": f"dependency list of {k} differs", "model": a, "impl": b})
                    for x in u["mentions"]:
                        if (x in iu or x in mu) and not covered(iu, k, x):
                            failures.append(("include:written-type-not-covered", "a type written into a header is not provided by the headers it includes",
                                             {"declaration": k, "type": x, "dependencies": iu[k]["deps"]}))
                    # file level
                    hdr = iu[k].get("header")
                    if hdr and hdr in r["includes"]:
                        emitted = set(r["includes"][hdr])
                        missing = [h for h in iu[k].get("dep_headers", []) if h not in emitted and h != hdr]
                        if missing:
                            failures.append(("include:dependency-header-not-emitted", "the header does not include a listed dependency's header", {"declaration": k, "missing": missing}))
                        if u["needsOptional"] != ("<optional>" in emitted):
                            breaks.append({"text": c["text"], "why": f"<optional> include of {k}: model {u['needsOptional']}", "emitted": sorted(emitted)})
        # compile verdicts (a `record +cpp` is an extension point: the user supplies the derived header, nothing to judge)
        user_header = any(d["k"] == "record" and "cpp" in d["targets"] for d in front.flatten_decls(r["ast"] or []))
        if r["kind"] == "ok" and not user_header:
            bad = {**{k: v for k, v in r["cxx"].items()}, **({"java": r["javac"]} if r["javac"] else {})}
            if bad:
                ks = [s for s in shape if s.startswith("compile:")]
                key = "+".join(ks) if ks else ("compile:unclassified" if not c.get("features") else "compile:config:" + "+".join(c["features"]))
                if (not ks and "java.package-private" in c.get("features", ()) and set(bad) == {"java"}
                        and all("is not public in" in e for e in r["javac"])
                        and len({tuple(d["ns"]) for d in front.flatten_decls(r["ast"] or [])}) > 1):
                    key = "compile:config:java.package-private:across-namespaces"
                failures.append((key, "generated code does not compile", {"errors": {k: v[:2] for k, v in list(bad.items())[:4]}, "shape": shape}))
        exp = c["expect"]
        if exp and exp.startswith("documented:"):
            if not (r["kind"] == "raised" and exp.split(":", 1)[1] in r.get("cls", [])):
                breaks.append({"text": c["text"], "why": f"expected {exp}, got {r['kind']} {r.get('cls')}"})
        for (k, what, detail) in failures:
            ctx.report(k, what, {"input": inp, "name": c["name"], **detail})
        if exp and not exp.startswith("documented:") and not any(k == exp or exp in k.split("+") for (k, _, _) in failures):
            ctx.stat("known_finding_witness_now_clean:" + exp)
    ctx.stats["correspondence_breaks"] = len(breaks)
    if breaks and not ctx.violations:
        ctx.report("correspondence", "dependency model and implementation disagree; no program violating the property found",
                   {"correspondence": "c01.deps vs decl.dependencies / emitted #include lines", "first": breaks[0], "count": len(breaks)}, no_failing_input=True)
    elif breaks:
        ctx.stats["correspondence_first"] = breaks[0]["why"]


def replay(ctx, body):
    inp = body["input"]
    if str(body.get("key", "")).startswith("keyword:"):
        gen = body["key"].split(":")[1]
        twin = body.get("twin") or "qq" + inp["m.djinni"]
        v = kwtables._confirm_worker((str(ctx.tmp), 0, {"cand": {"gen": gen, "word": body["word"]}, "real": inp["m.djinni"], "twin": twin,
                                                        "config": inp["config"], "targets": inp["targets"]}))
        print(json.dumps({k: v.get(k) for k in ("outcome", "diags", "identifier_uses", "files", "compiler", "confirmed")}, indent=1))
        return not v["confirmed"]
    (r,) = run_cases(ctx.tmp, [{"name": "replay", "text": inp["m.djinni"], "config": inp["config"], "targets": inp["targets"], "expect": None,
                                **{k: inp[k] for k in ("rounds", "clean") if k in inp}}])
    print(json.dumps({k: v for k, v in r.items() if k not in ("ast", "units", "includes", "files")}, indent=1)[:4000])
    return r["kind"] in ("ok", "raised", "diags") and not r["cxx"] and not r["javac"] and not r["markers"] and not r["undefined"]
