"""C15 — no generated file is silently overwritten by another declaration.

Proof: `Props/C15.lean` over `Gen/Paths.lean` (`relHeader/relSource` of every generator) and
`Gen/Collide.lean`: distinct qualified names give distinct files in the generators that keep the
namespace as directories (cpp, cppcli; java with converted packages), unconditionally for the default
C++ style on lower-case names; `decide`-proved counterexamples for the generators that drop the
namespace (jni, objcpp, yaml) and for identifier-conversion / `_base` / Objective-C concatenation
collisions; the writer is unconditional (no refusal).

Tie (every run): the `PYDJINNI_VERIF=1` write log of one whole run (parse + every target) of the real
API on programs that stress same names across namespaces, names that collide after conversion
(`foo_bar`/`foo__bar`, letter case), `x` + `+t x_base`, equal inline function signatures (under different
parameter names) in the same, sibling and enclosing namespaces, declarations laid out as namespace *trees*
(dotted and nested blocks mixed, declarations behind inner blocks), x file-naming configurations;
the declarations given to the model carry the namespace read off the *source text* at their position
(`sysgen.namespace_scopes`), not the one the parser assigned; compared with the model's predicted multiset of written
paths; every path the implementation writes twice with different contents must be a collision the
model predicts (with its cause), and conversely.

Families of inline function types (`family_case`): one base signature and all its variants in *one* signature component
(`throws` clause: none / bare / one / another / two error domains; `function +t` targets; a parameter type; `?` on a
parameter, the returned type or a generic argument; returned type or none; number of parameters; parameter names; the
signature of a function-typed parameter; spellings that the `_` separator of the synthetic name confuses), laid out in one
interface, in several interfaces of one namespace, and spread over sibling / enclosing namespaces. The *written* signatures
go to the model (`c15.anon`, Lean `anonName` = the name `Parser.visitFunction` builds): the name the parser gave every
inline function type must be the model's, and an overwrite between two inline function types of one namespace is keyed by
`anonCause`: `overwrite:duplicate-declaration` (same type, other parameter names), `overwrite:anonymous:<what the pinned
name leaves out>` (Dom clauses, findings) — or `overwrite:anonymous-signature:<component>` when the two types must have
different names (theorems `anonName_encodes_throws`, `anonName_bare_throws_distinct`): never a finding.

The same declaration twice: two inline function types of one namespace *and one file* that are written alike in every component,
parameter names included (dump `written` of the parser's declaration, positions left out; `anonCause` = `identical-declaration`,
`anonCause_of_no_difference`), are one declaration. What a generator renders is a function of the declaration, so their writes
of the shared path have to be byte-identical: if they differ the key is `overwrite:identical-declarations-differ` (never a
finding) — `overwrite:duplicate-declaration` stays for equal types from different files / under other parameter names.

Reserved words as namespaces (`keyword_case`): a namespace component that is a reserved word of a target language (a fixed core +
samples of the live keyword tables of the generators) next to the names an *escaping* of the word would give (`native_`,
`native__`, `Native`, `NATIVE`, `native_native`, …), equally named declarations of every kind inside; as the last component, below a
common parent, as the parent of equal sub-namespaces, at both levels; default / random / prefixed identifier styles; all targets.
Every generator computes its namespace / package / directory / prefix from these components: the outcome per target is distinct
files or a refusal with a diagnostic (an `ApplicationException`; what a refused call wrote before counts like any other write; the
model's write list is compared for the targets that ran to the end, its collisions are predicted for all).

Qualified references (`qualified_case`): the synthetic name spells a type reference as it is written, so `(v: model.user)` is named
`function_…_model.user_void` — a declaration name with dots. Families whose members differ in one namespace-qualified reference only
(relative `model.user`, absolute `.model.user`, partially qualified `util.local.user` / `shared.user`, one to three components; as a
parameter, the last parameter, the returned type, a generic argument, a thrown error domain): three types of one namespace under one
spelling of the prefix (the names agree up to the last dot) and two under another prefix / another spelling; and families of the other
stream over a base signature whose first parameter is a qualified reference (the varied component stands behind a dotted name). The
helper namespaces are declared in the program. Theorems `header_keeps_stem`, `objc_source_same_namespace_injective` (the extension is
appended to the whole converted name), `anonName_flat_injective`, `qualified_signatures_distinct_files`. An overwritten path that the
model does not predict is `overwrite:unexplained`; the report names the declarations whose own predicted files were not written
(`byDecl` of `c15.names`).

Specification on the implementation's observation (`c15.spec`, Lean): no path with two different
digests in the log of one run. The shape signature of a failure is `overwrite:<cause>` as classified by
the model (`namespace-dropped` carries the generator).
"""
from __future__ import annotations

import json
import random

import sysgen

LEAN_MODULE = "PydjinniModel.Props.C15"
THEOREMS = [
    "Pydjinni.GenC.joinL_splitU",
    "Pydjinni.GenC.convertL_snake",
    "Pydjinni.GenC.convert_snake_injective_on_lower",
    "Pydjinni.GenC.relHeader_eq_cpp",
    "Pydjinni.GenC.relSource_eq_cpp",
    "Pydjinni.GenC.relHeader_eq_cppcli",
    "Pydjinni.GenC.relSource_eq_cppcli",
    "Pydjinni.GenC.relSource_eq_java",
    "Pydjinni.GenC.relName_injective",
    "Pydjinni.GenC.relName_injective_java",
    "Pydjinni.GenC.cpp_default_injective",
    "Pydjinni.GenC.objc_same_namespace_injective",
    "Pydjinni.GenC.jni_namespace_dropped",
    "Pydjinni.GenC.objcpp_namespace_dropped",
    "Pydjinni.GenC.yaml_namespace_dropped",
    "Pydjinni.GenC.pascal_conversion_collides",
    "Pydjinni.GenC.base_suffix_collides",
    "Pydjinni.GenC.objc_concatenation_collides",
    "Pydjinni.GenC.anonymous_function_namespace_dropped",
    "Pydjinni.GenC.splitU_joinL",
    "Pydjinni.GenC.joinL_flat_injective",
    "Pydjinni.GenC.anonName_encodes_throws",
    "Pydjinni.GenC.anonName_throws_injective",
    "Pydjinni.GenC.anonName_bare_throws_distinct",
    "Pydjinni.GenC.anonName_ignores_parameter_names",
    "Pydjinni.GenC.anonName_ignores_optional",
    "Pydjinni.GenC.anonName_optional_dropped",
    "Pydjinni.GenC.anonName_join_ambiguous",
    "Pydjinni.GenC.anonName_nested_function_dropped",
    "Pydjinni.GenC.objc_source_same_namespace_injective",
    "Pydjinni.GenC.header_keeps_stem",
    "Pydjinni.GenC.anonName_flat_injective",
    "Pydjinni.GenC.qualified_signatures_distinct_files",
    "Pydjinni.GenC.anonCause_of_no_difference",
    "Pydjinni.GenC.no_collisions_nodup",
    "Pydjinni.GenC.nodup_noOverwrite",
    "Pydjinni.SysC.write_unconditional",
]
LEVEL = "proof"
TRUSTED = ["sysworker.py adapter (configuration and declaration dumps are the model's inputs)"]

STRESS = ["same-name", "conversion", "base", "anon", "mixed", "plain", "case"]

# the witnesses of the known findings, as programs (run first; every key in findings/C15.json is exercised on every run)
CORPUS = [
    {"name": "same name in two namespaces", "naming": "default",
     "text": "namespace a {\n  x = record { f0: i32; }\n}\nnamespace b {\n  x = record { f0: string; }\n}\n"},
    {"name": "foo_bar / foo__bar", "naming": "default",
     "text": "foo_bar = enum { item_a; }\nfoo__bar = enum { item_b; }\n"},
    {"name": "x +cpp and x_base", "naming": "default",
     "text": "x = record +cpp +java +objc +cppcli { f0: i32; }\nx_base = record { f0: string; }\n"},
    {"name": "objc concatenation", "naming": "default",
     "text": "namespace a {\n  b_c = enum { item_a; }\n}\nnamespace a {\n namespace b {\n  c = enum { item_b; }\n }\n}\n"},
    {"name": "equal inline function signatures in two namespaces", "naming": "default",
     "text": "namespace a {\n  i = interface +cpp { m0(cb: (a0: i32) -> bool); }\n}\nnamespace b {\n  j = interface +cpp { m0(cb: (a0: i32) -> bool); }\n}\n"},
    {"name": "the same inline function type in two files", "naming": "default",
     "text": "@import \"lib.pydjinni\"\ni = interface +cpp { m0(cb: (a0: i32) -> bool); }\n",
     "more": {"proj/lib.pydjinni": "j = interface +cpp { m0(cb: (a0: i32) -> bool); }\n"}},
    # namespace trees: a dotted block that holds an inner block and declarations *behind* it; the same inline function
    # signature under different parameter names in the enclosing / a sibling namespace
    {"name": "inline function behind an inner block of a dotted block", "naming": "default",
     "text": "namespace core {\n  h = interface +cpp { m0(cb: (x0: i32) -> bool); }\n}\n"
             "namespace core.util {\n  namespace model {\n    r = record { f0: i32; }\n  }\n  g = interface +cpp { m0(cb: (len0: i32) -> bool); }\n}\n"},
    {"name": "three-component dotted block, two inner blocks, declarations between and behind", "naming": "default",
     "text": "namespace data.core.util {\n  namespace net {\n    s = enum { item_a; }\n  }\n  t = interface +java { m0(cb: (a0: string)); }\n"
             "  namespace ui_kit {\n    u = record { f0: string; }\n  }\n  v = interface +java { m0(p0: i32, cb: (pct0: string)); }\n}\n"
             "namespace data {\n  w = interface +java { m0(cb: (x0: string)); }\n  namespace core {\n    y = interface +java { m0(cb: (len0: string)); }\n  }\n}\n"},
    # namespace names are names too: spellings that an identifier style maps to one name, equally named declarations inside
    {"name": "namespaces that differ in letter case", "naming": "default",
     "text": "namespace Net {\n  message = record { f0: i32; }\n  state = enum { item_a; }\n}\nnamespace net {\n  message = record { f0: string; }\n  state = enum { item_b; }\n}\n"},
    {"name": "namespaces that differ in word separators", "naming": "random",
     "text": "namespace ui_kit.core {\n  view = record { f0: i32; }\n}\nnamespace uiKit {\n  namespace core {\n    view = record { f0: string; }\n  }\n}\n"
             "namespace ui__kit.core {\n  view = record { f0: bool; }\n}\n"},
    {"name": "letter case", "naming": "default",
     "text": "alpha = record { f0: i32; }\nAlpha = record { f0: string; }\n"},
    # one declaration written several times (same namespace, same file, same signature, same parameter names): one content
    {"name": "the same inline function type on three lines of one namespace", "naming": "default",
     "text": "namespace a {\n  i = interface +cpp {\n    m0(cb: (x: i32));\n    m1(cb: (x: i32));\n  }\n  j = interface +cpp +java +objc {\n    m0(cb: (x: i32));\n  }\n}\n"
             "k = interface { m0(cb: (v: string) -> bool);\n m1(p0: i32, cb: (v: string) -> bool); }\n"},
    # reserved words as namespace components next to what an escaping would turn them into: distinct files or a refusal
    {"name": "namespace native next to native_", "naming": "default", "refusal_ok": True,
     "text": "namespace native {\n  settings = record { f0: i32; }\n  state = enum { item_a; }\n}\nnamespace native_ {\n  settings = record { f0: string; }\n  state = enum { item_b; }\n}\n"},
    {"name": "namespaces class, class_ and Class below a parent", "naming": "default", "refusal_ok": True,
     "text": "namespace app.class {\n  settings = record { f0: i32; }\n}\nnamespace app.class_ {\n  settings = record { f0: string; }\n}\nnamespace app {\n  namespace Class {\n    settings = record { f0: bool; }\n  }\n}\n"},
    {"name": "namespaces final / final_ as parents of equal sub-namespaces", "naming": "random", "refusal_ok": True,
     "text": "namespace final.model {\n  handler = interface +java { m0(cb: (v: i32) -> bool); }\n}\nnamespace final_.model {\n  handler = interface +java { m1(cb: (w: i32) -> bool); }\n}\n"},
]


def make_case(seed_key: str):
    r = random.Random(seed_key)
    stress = r.choice(STRESS)
    pg = sysgen.ProgGen(r, stress=stress if stress != "case" else "mixed", multi_file=r.random() < 0.25, max_decls=r.choice([3, 5, 8]),
                        case_names=(stress == "case"))
    prog = pg.program()
    naming = r.choice(["default", "default", "random", "prefixed"])
    targets = list(sysgen.TARGETS)
    r.shuffle(targets)
    targets = targets[: r.choice([2, 3, 5])]
    opts = sysgen.make_options(r, targets, out_kind=r.choice(["rel", "split", "abs"]), naming=naming)
    return job_of(prog["files"], prog["root"], opts, targets), {"stress": stress, "naming": naming, "targets": targets, "features": prog["features"]}


def job_of(files, root, opts, targets):
    calls = [{"op": "parse", "ctx": 0, "idl": root}] + [{"op": "generate", "gc": 0, "target": t} for t in targets]
    return {"files": files, "cwd": ".", "contexts": [opts], "calls": calls}


def corpus_case(c):
    r = random.Random("corpus/c15/" + c["name"])
    opts = sysgen.make_options(r, sysgen.TARGETS, out_kind="rel", naming=c["naming"], extras=False)
    return job_of({"proj/main.pydjinni": c["text"], **c.get("more", {})}, "proj/main.pydjinni", opts, list(sysgen.TARGETS)), \
        {"stress": "corpus:" + c["name"], "naming": c["naming"], "targets": list(sysgen.TARGETS), "features": [], "refusal_ok": bool(c.get("refusal_ok"))}


# -------------------------------------------------------------------------------------------------
# families of inline function types: a base signature and its variants in exactly one component
# -------------------------------------------------------------------------------------------------

# helper declarations a family program starts with (top level: visible from every namespace under the bare name; only those the
# signatures of the program mention). `void` and `java` (family `join`) are legal type names under the default identifier styles
# that are also a literal part / a target key of the synthetic name.
HELPERS = {**{n: n + " = error { c; }" for n in ("e1", "e2", "e", "x", "e_x")},
           **{n: n + " = record { v: i32; }" for n in ("foo", "bar", "foo_bar", "void", "java")}, "col": "col = enum { red; green; }"}


def mentioned(t, out: set):
    if isinstance(t, dict) and "n" in t:
        out.add(t["n"])
        for a in t["args"]:
            mentioned(a, out)


FAMILY_DIMS = ["throws", "targets", "parameter-types", "optional", "return", "arity", "parameter-names", "nested-function", "join"]
FAMILY_LAYOUTS = ["one-interface", "interfaces", "spread", "spread-deep"]


def T(n, *args, opt=False):
    return {"n": n, "opt": opt, "args": list(args)}


def spell_type(t) -> str:
    if "fn" in t:
        return t["fn"]
    return t["n"] + ("<" + ", ".join(spell_type(a) for a in t["args"]) + ">" if t["args"] else "") + ("?" if t["opt"] else "")


def spell_sig(s) -> str:
    out = ("function " + " ".join("+" + t for t in s["targets"]) + " " if s["targets"] else "")
    out += "(" + ", ".join(f"{p['name']}: {spell_type(p['type'])}" for p in s["params"]) + ")"
    if s["throws"] is not None:
        out += " throws" + (" " + ", ".join(s["throws"]) if s["throws"] else "")
    if s["ret"] is not None:
        out += " -> " + spell_type(s["ret"])
    return out


def sig(params=(), ret=None, throws=None, targets=()):
    return {"targets": list(targets), "params": [{"name": n, "type": t} for n, t in params], "ret": ret, "throws": throws}


def base_sig(r: random.Random):
    pool = [T("i32"), T("string"), T("bool"), T("f64"), T("list", T("i32")), T("map", T("string"), T("i64")), T("foo"), T("col"),
            T("list", T("foo")), T("set", T("string"))]
    params = [(f"{r.choice('abpqxy')}{i}", r.choice(pool)) for i in range(r.choice([0, 1, 1, 2]))]
    return sig(params, r.choice([None, T("bool"), T("i32"), T("foo"), T("list", T("string"))]),
               r.choice([None, None, None, [], ["e1"]]))


def family(r: random.Random, dim: str) -> list[dict]:
    """the members of one family: pairwise different *types* (except `parameter-names`) that differ in the component `dim` only"""
    import copy
    b = base_sig(r)
    if dim in ("parameter-types", "optional", "parameter-names") and not b["params"]:
        b["params"] = [{"name": "a0", "type": T(r.choice(["i32", "string", "foo"]))}]

    def var(**kw):
        v = copy.deepcopy(b)
        v.update(copy.deepcopy(kw))
        return v
    if dim == "throws":
        return [var(throws=t) for t in (None, [], ["e1"], ["e2"], ["e1", "e2"], ["e2", "e1"])]
    if dim == "targets":
        return [var(targets=t) for t in ([], ["cpp"], ["java"], ["cpp", "java"], ["java", "cpp"], ["objc", "cppcli"])]
    if dim == "return":
        rets = [None, T("bool"), T("i32"), T("string"), T("list", T("i32")), T("list", T("list", T("i32")))]
        return [var(ret=t) for t in rets]
    if dim == "arity":
        out, ps = [], []
        for i in range(4):
            out.append(var(params=list(ps)))
            ps.append({"name": f"a{i}", "type": T("i32")})
        return out
    k = r.randrange(len(b["params"])) if b["params"] else 0
    if dim == "parameter-types":
        out = []
        for t in (T("i32"), T("i64"), T("string"), T("list", T("i32")), T("list", T("i64")), T("map", T("i32"), T("list", T("i32"))),
                  T("map", T("list", T("i32")), T("i32"))):
            ps = copy.deepcopy(b["params"])
            ps[k]["type"] = t
            out.append(var(params=ps))
        return out
    if dim == "parameter-names":
        out = []
        for names in ("abc", "xyz", "pqr"):
            ps = copy.deepcopy(b["params"])
            for i, p in enumerate(ps):
                p["name"] = names[i % 3] + str(i)
            out.append(var(params=ps))
        return out
    if dim == "optional":
        # `?` on one parameter, on the returned type, on a generic argument
        ps = copy.deepcopy(b["params"])
        ps[k]["type"] = T("list", T("i32"))
        ret = b["ret"] or T("string")
        out = [var(params=ps, ret=ret)]
        for where in ("param", "arg", "ret", "all"):
            q, rt = copy.deepcopy(ps), copy.deepcopy(ret)
            if where in ("param", "all"):
                q[k]["type"]["opt"] = True
            if where in ("arg", "all"):
                q[k]["type"]["args"][0]["opt"] = True
            if where in ("ret", "all"):
                rt["opt"] = True
            out.append(var(params=q, ret=rt))
        return out
    if dim == "nested-function":
        inner = ["(v: i32)", "(v: string)", "() -> bool", "(v: i32) throws", "(w: i32)"]
        return [var(params=[{"name": "f", "type": {"fn": x}}] + copy.deepcopy(b["params"])) for x in inner]
    if dim == "join":
        # spellings the `_` separator of the name cannot tell apart — and neighbours it can
        return r.choice([
            [sig([("a", T("foo")), ("b", T("bar"))]), sig([("a", T("foo_bar"))]), sig([("a", T("bar")), ("b", T("foo"))])],
            [sig([("a", T("i32"))], ret=T("void")), sig([("a", T("i32"))]), sig([("a", T("i32")), ("b", T("void"))])],
            [sig([("a", T("java"))], targets=["cpp"]), sig([], targets=["cpp", "java"]), sig([("a", T("java"))], targets=["java"])],
            [sig([("a", T("i32"))], throws=["e_x"]), sig([("a", T("i32"))], throws=["e", "x"]), sig([("a", T("i32"))], throws=["x", "e"])],
        ])
    raise ValueError(dim)


# -------------------------------------------------------------------------------------------------
# namespace-qualified references inside inline signatures: the synthetic name spells a reference as it is written — dots included —
# and every generator builds its file names from that name
# -------------------------------------------------------------------------------------------------

QUAL_TYPES = ["user", "group", "item", "node"]       # records of a helper namespace
QUAL_ERRORS = ["oops", "fail", "gone"]               # error domains of a helper namespace
QUAL_POSITIONS = ["parameter", "last-parameter", "return", "generic-argument", "throws"]
HOMES = [(), ("net",), ("core", "util")]


def qualified_helper(last: str) -> str:
    return f"{last} = error {{ c; }}" if last in QUAL_ERRORS else f"{last} = record {{ v: i32; }}"


def qualified_prefixes(home: tuple, everywhere: bool) -> list[tuple]:
    """(prefix as spelled, namespace it denotes) for references to the helper namespaces: relative (found by climbing to the root) and
    absolute (leading dot), one to three components deep; and, unless the references have to resolve from `everywhere`, partially
    qualified ones: a namespace inside `home` spelled from `home`, from the enclosing namespace and in full, a sibling of `home`"""
    out = [("model", "model"), (".model", "model"), ("model.deep", "model.deep"), (".model.deep", "model.deep"), ("v2.api.dto", "v2.api.dto")]
    if not everywhere:
        full = ".".join(home + ("local",))
        out += [("local", full), ("." + full, full)]
        if home:
            sib = ".".join(home[:-1] + ("shared",))
            out += [(home[-1] + ".local", full), (full, full), ("shared", sib), ("." + sib, sib), (sib, sib)]
    seen, res = set(), []
    for sp, ns in out:
        if sp not in seen:
            seen.add(sp)
            res.append((sp, ns))
    return res


def qualified_family(r: random.Random, prefixes: list[tuple]) -> list[dict]:
    """one base signature; the members differ in one qualified reference only: three types of one namespace under one spelling of the
    prefix (they differ behind the last dot only) and two under another prefix / another spelling of the same namespace"""
    import copy
    b = base_sig(r)
    if not b["params"]:
        b["params"] = [{"name": "a0", "type": T(r.choice(["i32", "string", "foo"]))}]
    pos = r.choice(QUAL_POSITIONS)
    k = r.randrange(len(b["params"]))
    wrap = r.choice([lambda t: T("list", t), lambda t: T("map", T("string"), t), lambda t: T("list", T("list", t)), lambda t: T("map", t, T("i32"))])
    out = []
    for j, (sp, ns) in enumerate(r.sample(prefixes, 2)):
        for last in r.sample(QUAL_ERRORS if pos == "throws" else QUAL_TYPES, 3 if j == 0 else 2):
            v = copy.deepcopy(b)
            v["needs"] = [ns + "." + last]
            t = T(sp + "." + last)
            if pos == "parameter":
                v["params"][k]["type"] = t
            elif pos == "last-parameter":
                v["params"].append({"name": "z9", "type": t})
            elif pos == "return":
                v["ret"] = t
            elif pos == "generic-argument":
                v["params"][k]["type"] = wrap(t)
            else:
                v["throws"] = [sp + "." + last]
            out.append(v)
    return out


def qualify(members: list[dict], r: random.Random, prefixes: list[tuple]):
    """the same qualified reference as first parameter of every member: the component the family varies stands behind a dotted name"""
    sp, ns = r.choice(prefixes)
    last = r.choice(QUAL_TYPES)
    for m in members:
        m["params"].insert(0, {"name": "q0", "type": T(sp + "." + last)})
        m["needs"] = list(m.get("needs", ())) + [ns + "." + last]


def place_family(r: random.Random, members: list, home: tuple, layout: str):
    if layout in ("one-interface", "interfaces"):
        places = [home] * len(members)
    else:
        others = [home + ("inner",), ("side",), home[:-1]] if layout == "spread-deep" else [("side",), home + ("inner",)]
        places = [home if i % 3 != 2 else others[(i // 3) % len(others)] for i in range(len(members))]
    tg = r.choice([" +cpp", " +cpp", " +java +objc +cppcli", ""])
    return write_family_program(members, places, home, tg, layout == "one-interface", {i for i in range(len(members)) if r.random() < 0.2})


def qualified_case(seed_key: str, i: int):
    """even cases: a family that varies one qualified reference; odd cases: a family of the other stream (one varied component) over
    a base signature whose first parameter is a qualified reference. Layout x home namespace rotate."""
    r = random.Random(seed_key)
    layout = FAMILY_LAYOUTS[(i + i // len(FAMILY_LAYOUTS)) % len(FAMILY_LAYOUTS)]
    home = HOMES[(i // 2 + i // 6) % len(HOMES)]
    prefixes = qualified_prefixes(home, layout in ("spread", "spread-deep"))
    if i % 2 == 0:
        dims = ["qualified"]
        members = [("qualified", m) for m in qualified_family(r, prefixes)]
    else:
        over = [d for d in FAMILY_DIMS if d != "join"]
        dims = [over[(i // 2) % len(over)], "qualified-base"]
        fam = family(r, dims[0])
        r.shuffle(fam)
        fam = fam[:4]
        qualify(fam, r, prefixes)
        members = [(dims[0], m) for m in fam]
    text, sigs = place_family(r, members, home, layout)
    naming = "default" if i % 3 else "random"
    opts = sysgen.make_options(r, sysgen.TARGETS, out_kind="rel", naming=naming, extras=False)
    opts["generate"]["support_lib_sources"] = False
    job = job_of({"proj/main.pydjinni": text}, "proj/main.pydjinni", opts, list(sysgen.TARGETS))
    job["sigs"] = sigs
    return job, {"stress": "family:" + "+".join(dims) + ":" + layout, "naming": naming, "targets": list(sysgen.TARGETS), "features": []}


def write_family_program(members, places, home=(), tg=" +cpp", one_interface=False, as_return=()):
    """members [(component, signature)], places [namespace tuple] -> (text, [{line, ns, sig, dim}]): one block per namespace
    (`home` first), every inline function type on a line of its own, as a callback parameter or (`as_return`) a returned type"""
    names: set = set()
    needs: set = set()
    for _, m in members:
        names.update(m["throws"] or ())
        needs.update(m.get("needs", ()))
        for t in [p["type"] for p in m["params"]] + [m["ret"]]:
            mentioned(t, names)
    lines = [HELPERS[n] for n in HELPERS if n in names]
    # the namespaced helper declarations that the qualified references of the signatures resolve to: one block per namespace
    for ns in sorted({q.rsplit(".", 1)[0] for q in needs}):
        lines.append(f"namespace {ns} {{ " + " ".join(qualified_helper(q.rsplit(".", 1)[1]) for q in sorted(needs) if q.rsplit(".", 1)[0] == ns) + " }")
    sigs = []
    order = sorted(range(len(members)), key=lambda i: (places[i] != home, places[i]))
    cur, open_iface, n_if, in_iface = None, False, 0, 0

    def close():
        nonlocal open_iface
        if open_iface:
            lines.append("  }")
            open_iface = False
    for i in order:
        ns = places[i]
        if ns != cur:
            close()
            if cur:
                lines.append("}")
            if ns:
                lines.append(f"namespace {'.'.join(ns)} {{")
            cur = ns
        if not open_iface or (not one_interface and in_iface >= 3):
            close()
            in_iface = 0
            lines.append(f"  i{n_if} = interface{tg} {{")
            n_if += 1
            open_iface = True
        in_iface += 1
        d, m = members[i]
        if i in as_return and d != "nested-function":
            lines.append(f"    m{i}() -> {spell_sig(m)};")
        else:
            lines.append(f"    m{i}(cb: {spell_sig(m)});")
        sigs.append({"line": len(lines), "ns": list(ns), "sig": m, "dim": d})
    close()
    if cur:
        lines.append("}")
    return "\n".join(lines) + "\n", sigs


def family_program(r: random.Random, dims: list[str], layout: str):
    members = []
    for d in dims:
        fam = family(r, d)
        r.shuffle(fam)
        members += [(d, m) for m in fam[: r.choice([3, 4, 6])]]
    return place_family(r, members, r.choice(HOMES), layout)


_I32, _BOOL = T("i32"), T("bool")
# minimised families, run first: the three `throws` clauses in one namespace (theorem `anonName_throws_injective`), and one
# witness per Dom clause of the pinned name
FAMILY_CORPUS = [
    {"name": "cannot throw / bare throws / throws e1 in one namespace", "ns": ("net",),
     "members": [("throws", sig([("x", _I32)], _BOOL)), ("throws", sig([("x", _I32)], _BOOL, throws=[])), ("throws", sig([("x", _I32)], _BOOL, throws=["e1"]))]},
    {"name": "function +cpp / function +java / no target list", "ns": (),
     "members": [("targets", sig([("x", _I32)], targets=["cpp"])), ("targets", sig([("x", _I32)], targets=["java"])), ("targets", sig([("x", _I32)]))]},
    {"name": "returns bool / returns nothing / one more parameter", "ns": ("net",),
     "members": [("return", sig([("x", _I32)], _BOOL)), ("return", sig([("x", _I32)])), ("arity", sig([("x", _I32), ("y", _BOOL)]))]},
    {"name": "optional parameter", "ns": ("net",),
     "members": [("optional", sig([("x", _I32)], _BOOL)), ("optional", sig([("x", T("i32", opt=True))], _BOOL))]},
    {"name": "function-typed parameter", "ns": (),
     "members": [("nested-function", sig([("f", {"fn": "(v: i32)"})])), ("nested-function", sig([("f", {"fn": "(v: string)"})]))]},
    {"name": "foo, bar / foo_bar", "ns": ("net",),
     "members": [("join", sig([("a", T("foo")), ("b", T("bar"))])), ("join", sig([("a", T("foo_bar"))]))]},
    # qualified references: the names differ behind the last dot only / in the spelling of the prefix / behind a dotted name
    {"name": "model.user / model.group / .model.user", "ns": ("app",),
     "members": [("qualified", {**sig([("v", T("model.user"))]), "needs": ["model.user"]}), ("qualified", {**sig([("v", T("model.group"))]), "needs": ["model.group"]}),
                 ("qualified", {**sig([("v", T(".model.user"))]), "needs": ["model.user"]})]},
    {"name": "returns bool / i32 / nothing behind a qualified parameter", "ns": ("core", "util"),
     "members": [("return", {**sig([("v", T("util.local.item"))], _BOOL), "needs": ["core.util.local.item"]}),
                 ("return", {**sig([("v", T("util.local.item"))], _I32), "needs": ["core.util.local.item"]}),
                 ("return", {**sig([("v", T("util.local.item"))]), "needs": ["core.util.local.item"]})]},
    {"name": "throws model.deep.oops / model.deep.fail, returns list<shared.node> / list<shared.user>", "ns": ("net",),
     "members": [("qualified", {**sig([("x", _I32)], throws=["model.deep.oops"]), "needs": ["model.deep.oops"]}),
                 ("qualified", {**sig([("x", _I32)], throws=["model.deep.fail"]), "needs": ["model.deep.fail"]}),
                 ("qualified", {**sig([("x", _I32)], T("list", T("shared.node"))), "needs": ["shared.node"]}),
                 ("qualified", {**sig([("x", _I32)], T("list", T("shared.user"))), "needs": ["shared.user"]})]},
]


def family_corpus_case(c):
    r = random.Random("corpus/c15/family/" + c["name"])
    text, sigs = write_family_program(c["members"], [c["ns"]] * len(c["members"]), c["ns"], " +cpp", True)
    opts = sysgen.make_options(r, sysgen.TARGETS, out_kind="rel", naming="default", extras=False)
    job = job_of({"proj/main.pydjinni": text}, "proj/main.pydjinni", opts, list(sysgen.TARGETS))
    job["sigs"] = sigs
    return job, {"stress": "corpus:family:" + c["name"], "naming": "default", "targets": list(sysgen.TARGETS), "features": []}


def family_case(seed_key: str, i: int):
    r = random.Random(seed_key)
    # every component is due once per len(FAMILY_DIMS) cases; every third case mixes in a second one
    dims = [FAMILY_DIMS[i % len(FAMILY_DIMS)]]
    if i % 3 == 2:
        dims.append(r.choice([d for d in FAMILY_DIMS if d != dims[0]]))
    layout = FAMILY_LAYOUTS[(i + i // len(FAMILY_DIMS)) % len(FAMILY_LAYOUTS)]
    text, sigs = family_program(r, dims, layout)
    naming = "default" if i % 3 or "join" in dims else "random"
    opts = sysgen.make_options(r, sysgen.TARGETS, out_kind="rel", naming=naming, extras=False)
    opts["generate"]["support_lib_sources"] = False      # (the copies of the support library are the bulk of a run's writes)
    job = job_of({"proj/main.pydjinni": text}, "proj/main.pydjinni", opts, list(sysgen.TARGETS))
    job["sigs"] = sigs
    return job, {"stress": "family:" + "+".join(dims) + ":" + layout, "naming": naming, "targets": list(sysgen.TARGETS), "features": []}


# -------------------------------------------------------------------------------------------------
# namespaces named like reserved words of the target languages, next to their escaped look-alikes
# -------------------------------------------------------------------------------------------------

# a fixed core (always exercised) + seeded samples of the live keyword tables of the generators
KEYWORD_CORE = ["native", "class", "package", "delete", "final", "template", "id", "self", "gcnew", "new", "switch", "default", "register",
                "extension", "protocol", "super", "abstract", "union", "internal", "in"]
KEYWORD_LAYOUTS = ["top", "under-parent", "as-parent", "both-levels"]


def look_alikes(w: str) -> list[str]:
    """what an escaping scheme would turn the word into — all ordinary IDL identifiers"""
    return [w + "_", w + "__", w + "_" + w, w.capitalize(), w.upper(), w + "0", "x_" + w, w[0] + "_" + w[1:] if len(w) > 1 else w + "_1"]


def keyword_pool(tables) -> list[str]:
    import re
    ident = re.compile(r"^[a-zA-Z][a-zA-Z0-9_]*$")
    idl = set(tables.get("idl_keywords", ()))
    live = sorted({w for ws in tables.get("keywords", {}).values() for w in ws if ident.match(w) and w not in idl})
    return [w for w in KEYWORD_CORE if w not in idl], live


def keyword_case(seed_key: str, i: int, tables):
    """Namespace components that are reserved words of a target language (C++, Java, Objective-C, Swift, C++/CLI) together
    with the names an *escaping* of such a word would produce (`native` / `native_`, `class` / `class_` / `Class`, …), holding
    equally named declarations of every kind; the word as the last component, below a common parent, as the parent of equal
    sub-namespaces, or at both levels. Every generator computes a namespace / package / directory / type-name prefix from
    these components. The outcome per target must be distinct files — or a refusal with a diagnostic (an
    `ApplicationException`; files written before the refusal count like any others)."""
    r = random.Random(seed_key)
    core, live = keyword_pool(tables)
    w = core[i % len(core)] if i % 2 == 0 or not live else r.choice(live)
    alikes = r.sample(look_alikes(w), r.choice([1, 2, 2, 3]))
    if i % 3 == 0 and w + "_" not in alikes:
        alikes[0] = w + "_"
    comps = [w] + alikes
    r.shuffle(comps)
    layout = KEYWORD_LAYOUTS[(i // 2) % len(KEYWORD_LAYOUTS)]
    parent = r.choice(["app", "core", "data"])
    sub = r.choice(["model", "net"])
    spaces = {"top": [(c,) for c in comps], "under-parent": [(parent, c) for c in comps], "as-parent": [(c, sub) for c in comps],
              "both-levels": [(c, d) for c in comps[:2] for d in comps[:2]]}[layout]
    names = r.sample(["settings", "state", "handler", "oops", "mask"], r.choice([2, 3]))
    tg = r.choice([" +cpp", " +java", " +objc", " +cppcli", ""])
    lines = []
    for k, ns in enumerate(spaces):
        body = []
        for n in names:
            if n == "settings":
                body.append(f"settings = record {{ f{k}: {r.choice(['i32', 'string', 'bool'])}; g: i64; }}")
            elif n == "state":
                body.append("state = enum { " + " ".join(f"item_{c}_{k};" for c in "ab") + " }")
            elif n == "mask":
                body.append("mask = flags { " + " ".join(f"flag_{c}_{k};" for c in "ab") + " }")
            elif n == "oops":
                body.append(f"oops = error {{ code_{k}; }}")
            else:
                body.append(f"handler = interface{tg} {{ m{k}(p0: i32) -> bool; notify(cb: (v{k}: i32) -> bool); }}")
        if r.random() < 0.5:
            lines.append(f"namespace {'.'.join(ns)} {{")
            lines += ["  " + b for b in body]
            lines.append("}")
        else:
            lines += [f"{'  ' * j}namespace {c} {{" for j, c in enumerate(ns)]
            lines += ["  " * len(ns) + b for b in body]
            lines += [f"{'  ' * j}}}" for j in reversed(range(len(ns)))]
    text = "\n".join(lines) + "\n"
    naming = ["default", "default", "random", "prefixed"][i % 4]
    targets = list(sysgen.TARGETS)
    r.shuffle(targets)
    opts = sysgen.make_options(r, targets, out_kind="rel", naming=naming, extras=False)
    opts["generate"]["support_lib_sources"] = False
    job = job_of({"proj/main.pydjinni": text}, "proj/main.pydjinni", opts, targets)
    return job, {"stress": f"keyword-namespace:{layout}", "naming": naming, "targets": targets, "features": [], "refusal_ok": True,
                 "keyword": w, "look_alikes": alikes}


def refused(rec) -> bool:
    """a call that ended in a diagnostic (an `ApplicationException` / a list of them), not in an internal error"""
    return not rec["ok"] and not rec.get("skipped") and ((rec["exc"] or {}).get("app", False) or (rec["exc"] is None and bool(rec["diags"])))


def generated_targets(job, meta, obs):
    """the targets whose generate call ran to its end (all of them unless the stream allows refusals)"""
    if not meta.get("refusal_ok"):
        return meta["targets"]
    return [c["target"] for c, rec in zip(job["calls"], obs["calls"]) if c["op"] == "generate" and rec["ok"]]


def match_sigs(job, defs):
    """inline function types of the family stream: declaration index -> index into job["sigs"] (by source line; the outermost
    function type of a line is the member, function-typed parameters inside it are not described)"""
    by_line = {}
    for i, d in enumerate(defs):
        if d.get("anonymous") and d["kind"] == "function" and (d.get("src") or {}).get("line") is not None:
            by_line.setdefault(d["src"]["line"], []).append((d["src"]["col"], i))
    out = {}
    for k, s in enumerate(job.get("sigs", ())):
        if s["line"] in by_line:
            out[min(by_line[s["line"]])[1]] = k
    return out


def source_decls(job, defs):
    """The declarations the run is *about*: what the parser handed to the generators, with the namespace of each
    declaration read off the source text at the declaration's position (block structure only, `sysgen.namespace_scopes`).
    "Distinct declarations" in the C15 statement are distinct in the source; a front end that files a declaration under
    another namespace must not turn an overwrite into an (excusable) duplicate. -> (declarations, indices that differ)"""
    scopes, out, moved = {}, [], []
    for i, d in enumerate(defs):
        src = d.get("src") or {}
        text = job["files"].get(src.get("file"))
        if text is None or src.get("line") is None:
            out.append(d)
            continue
        if src["file"] not in scopes:
            scopes[src["file"]] = sysgen.namespace_scopes(text)
        ns = list(scopes[src["file"]](src["line"], src["col"]))
        if ns != d["ns"]:
            moved.append(i)
        out.append({**d, "ns": ns})
    return out, moved


def requests(job, meta, obs, tables):
    parse = obs["calls"][0]
    log = [[e[1], e[2]] for c in obs["calls"] for e in c["log"]]
    sdefs, _ = source_decls(job, parse.get("defs", []))
    out = [{"op": "c15.spec", "log": log},
           {"op": "c15.names", "gens": obs["cfg"][0], "targets": meta["targets"], "defs": sdefs,
            "support": tables["support"], "supportLib": obs["meta"][0]["supportLib"]}]
    if meta.get("refusal_ok"):
        # collisions are predicted for every target (a refused call may have written before it gave up), the write list for
        # the targets that were generated to the end
        out.append({**out[1], "targets": generated_targets(job, meta, obs)})
    if job.get("sigs"):
        # the written signatures of the inline function types; the target keys in the order the parser is given them
        out.append({"op": "c15.anon", "keys": list(tables["targets"]), "sigs": [x["sig"] for x in job["sigs"]]})
    return out


def evaluate(ctx, job, meta, obs, tables, answers=None):
    parse = obs["calls"][0]
    log = [[e[1], e[2]] for c in obs["calls"] for e in c["log"]]
    pdefs = parse.get("defs", [])
    sdefs, moved = source_decls(job, pdefs)
    answers = answers if answers is not None else ctx.driver.batch(requests(job, meta, obs, tables))
    for a in answers:
        if "error" in a:
            raise RuntimeError(f"driver error {a}")
    s, m = answers[0], answers[1]
    rest = answers[2:]
    mw = rest.pop(0) if meta.get("refusal_ok") else m        # the model's write list (see `requests`)
    anon = rest[0] if rest else None
    sig_of = match_sigs(job, pdefs) if anon else {}
    pair = {(q["i"], q["j"]): q for q in anon["pairs"]} if anon else {}
    fails = []
    for c, rec in zip(job["calls"], obs["calls"]):
        if not rec["ok"] and not rec.get("skipped") and not (meta.get("refusal_ok") and refused(rec)):
            fails.append({"key": "run-failed:" + (rec["exc"] or {}).get("cls", "diagnostics"), "detail": json.dumps(rec.get("exc") or rec["diags"][:2])[:300]})
    by_path = {}
    for c in m["collisions"]:
        by_path.setdefault(c["path"], []).append(c)
    written = {e[0] for e in log}
    for p in s["overwritten"]:
        cs = [c for c in by_path.get(p, []) if c["cause"] != "duplicate-declaration"] or by_path.get(p, [])
        if not cs:
            why = ""
            if moved:
                why = " — declared in one namespace, generated under another: " + ", ".join(
                    f"{qn(sdefs, i)} ({pdefs[i]['src']['file']}:{pdefs[i]['src']['line']}) as {qn(pdefs, i)}" for i in moved[:3])
            # the declarations behind it: those whose own (predicted) file of that generator and directory was never written
            extra = {}
            gone = [(i, q) for i, g, q in m.get("byDecl", ()) if q not in written and q.rsplit("/", 1)[0] == p.rsplit("/", 1)[0]]
            if gone and not moved:
                lost = []
                for i, q in gone[:4]:
                    k = sig_of.get(i)
                    lost.append(f"{qn(sdefs, i)}" + (f" = `{spell_sig(job['sigs'][k]['sig'])}` (line {job['sigs'][k]['line']})" if k is not None else "") + f", expected at {q}")
                why += " — receives the files of declarations with different names, whose own files were not written: " + "; ".join(lost)
                extra = {"declarations": [qn(sdefs, i) for i, _ in gone[:8]], "expected_paths": [q for _, q in gone[:8]]}
            if meta.get("keyword"):
                why += (f" — the program has namespace components named like the reserved word '{meta['keyword']}' and like what an escaping would turn it "
                        f"into ({', '.join(meta['look_alikes'])}): distinct namespaces must give distinct files or the target must be refused")
            fails.append({"key": "overwrite:unexplained", "detail": p + why, "path": p, **extra})
            continue
        c = cs[0]
        key = f"overwrite:{c['g']}:namespace-dropped" if c["cause"] == "namespace-dropped" else \
              (f"overwrite:{c['g']}:{c['cause']}" if c["cause"] == "concatenation" else f"overwrite:{c['cause']}")
        defs = sdefs
        detail = f"{p} receives the files of {qn(defs, c['first'])} and {qn(defs, c['second'])} ({c['g']}, {c['kind']})"
        extra = {}
        # two inline function types of one namespace under one name: the same type (written with other parameter names), a
        # type the pinned name cannot tell apart (Dom clause) — or two types whose names must differ
        for c2 in cs:
            if c2["cause"] == "duplicate-declaration" and c2["first"] in sig_of and c2["second"] in sig_of:
                a, b = sorted((sig_of[c2["first"]], sig_of[c2["second"]]))
                q = pair.get((a, b))
                if q and q["cause"] not in ("duplicate-declaration", "identical-declaration"):
                    sa, sb = job["sigs"][a], job["sigs"][b]
                    key = "overwrite:" + q["cause"]
                    detail = (f"{p} receives the files of the inline function types `{spell_sig(sa['sig'])}` (line {sa['line']}) and "
                              f"`{spell_sig(sb['sig'])}` (line {sb['line']}) of namespace '{'.'.join(sa['ns'])}': both are named "
                              f"{pdefs[c2['first']]['name']} ({c2['g']}, {c2['kind']}); they differ in: {', '.join(q['diff'])}")
                    extra = {"signatures": [spell_sig(sa["sig"]), spell_sig(sb["sig"])], "differ_in": q["diff"], "model_names_equal": q["sameName"]}
                    c = c2
                    break
        # the same declaration twice: two inline function types of one namespace AND one file that are written alike, parameter
        # names and all. What is rendered is a function of the declaration — wherever it stands — so the writes have to be
        # byte-identical; this is not the finding about equal types from different files / under different parameter names.
        # Every pair of writers of the path is looked at (the digests that differ may belong to any two of them).
        if key == "overwrite:duplicate-declaration":
            writers = sorted({i for c2 in by_path.get(p, []) if c2["cause"] == "duplicate-declaration" and c2["g"] == c["g"] for i in (c2["first"], c2["second"])})
            same = [(a, b) for a in writers for b in writers if a < b and identical_declarations(pdefs, a, b)]
            # family stream: the model's verdict on the *written* signatures (`anonCause` = identical-declaration) has to agree
            for a, b in same:
                if a in sig_of and b in sig_of:
                    q = pair.get(tuple(sorted((sig_of[a], sig_of[b]))))
                    if q and q["cause"] != "identical-declaration":
                        same = [x for x in same if x != (a, b)]
            digests = [e[1] for e in log if e[0] == p]
            # every writer of the path writes it once per kind; the writers that are one declaration must not disagree
            if same and len(writers) and differing_among(writers, same, digests):
                a, b = same[0]
                key = "overwrite:identical-declarations-differ"
                detail = (f"{p} is written by {qn(defs, a)} at {pdefs[a]['src']['file']}:{pdefs[a]['src']['line']} and again by the same declaration at line "
                          f"{pdefs[b]['src']['line']} (same namespace, same file, same signature, same parameter names) with different contents ({c['g']}, {c['kind']})")
                extra = {"lines": [pdefs[a]["src"]["line"], pdefs[b]["src"]["line"]], "digests": sorted(set(digests))[:4]}
        fails.append({"key": key, "detail": detail, "path": p, "collision": c, **extra})
    # correspondence
    diffs = []
    ipaths = sorted(e[0] for e in log)
    if meta.get("refusal_ok"):      # what a refused generate call wrote before it gave up is not predicted
        ipaths = sorted(e[1] for c, rec in zip(job["calls"], obs["calls"]) if rec["ok"] for e in rec["log"])
    if ipaths != sorted(mw["writes"]):
        diffs.append({"what": "written paths (multiset)", "only_impl": sorted(set(ipaths) - set(mw["writes"]))[:5],
                      "only_model": sorted(set(mw["writes"]) - set(ipaths))[:5], "n_impl": len(ipaths), "n_model": len(mw["writes"])})
    if anon:
        # the synthetic name the parser built vs `anonName` of the written signature
        wrong = [{"line": job["sigs"][k]["line"], "signature": spell_sig(job["sigs"][k]["sig"]), "impl": pdefs[i]["name"], "model": anon["names"][k]}
                 for i, k in sorted(sig_of.items()) if pdefs[i]["name"] != anon["names"][k]]
        if wrong:
            diffs.append({"what": "synthetic name of an inline function type: parser vs anonName of the written signature", "first": wrong[:4], "n": len(wrong)})
        if parse.get("ok", True) and len(sig_of) != len(job["sigs"]):
            diffs.append({"what": "inline function types of the program that the parser did not hand to the generators",
                          "lines": sorted(set(x["line"] for x in job["sigs"]) - set(pdefs[i]["src"]["line"] for i in sig_of))[:6]})
    if moved:
        diffs.append({"what": "namespace of a declaration: source text vs what the generators were given",
                      "decls": [{"source": qn(sdefs, i), "given": qn(pdefs, i), "at": pdefs[i]["src"]} for i in moved[:5]]})
    predicted = set(c["path"] for c in m["collisions"] if c["cause"] != "duplicate-declaration")
    if not set(s["overwritten"]) <= set(by_path):
        diffs.append({"what": "overwritten path not predicted as a collision", "paths": sorted(set(s["overwritten"]) - set(by_path))[:5]})
    return s, m, fails, diffs, predicted


def identical_declarations(pdefs, a, b) -> bool:
    da, db = pdefs[a], pdefs[b]
    return (da.get("written") is not None and da.get("written") == db.get("written") and da["ns"] == db["ns"] and da["name"] == db["name"]
            and (da.get("src") or {}).get("file") is not None and da["src"]["file"] == db["src"]["file"])


def differing_among(writers, same, digests) -> bool:
    """`digests`: the contents the path received, in writing order — one per writer (declaration order) if every writer wrote
    once. True if two writers that are the same declaration left different contents; if the writes cannot be attributed
    (another count), any difference counts as long as ALL writers are one declaration."""
    if len(digests) == len(writers):
        at = {w: d for w, d in zip(writers, digests)}
        return any(at[a] != at[b] for a, b in same)
    return len(same) == len(writers) * (len(writers) - 1) // 2 and len(set(digests)) > 1


def qn(defs, i):
    if 0 <= i < len(defs):
        return ".".join(defs[i]["ns"] + [defs[i]["name"]])
    return "?"


def run(ctx):
    ctx.coverage["rule"] = ("one case = program x naming configuration x target list, whole run in one process; distinct = distinct "
                            "(stress kind — for the family stream: varied signature component(s) and layout —, naming class, target set, multiset of predicted collision causes per generator); "
                            "non-trivial = the model predicts at least one collision or the program has same-named declarations")
    tables = sysgen.live_tables(ctx)
    cases = [corpus_case(c) for c in CORPUS] + [family_corpus_case(c) for c in FAMILY_CORPUS]
    for i in range(ctx.n(140, 2000)):
        cases.append(make_case(f"{ctx.seed}/c15/{i}"))
    for i in range(ctx.n(36, 360)):
        cases.append(family_case(f"{ctx.seed}/c15/family/{i}", i))
    for i in range(ctx.n(24, 240)):
        cases.append(qualified_case(f"{ctx.seed}/c15/qualified/{i}", i))
    for i in range(ctx.n(40, 400)):
        cases.append(keyword_case(f"{ctx.seed}/c15/keyword/{i}", i, tables))
    results = sysgen.run_jobs(ctx, [c[0] for c in cases], tag="c15")
    breaks = []
    for obs in results:
        if "fatal" in obs:
            raise RuntimeError(f"worker failed: {obs['fatal']}")
    reqs = [requests(job, meta, obs, tables) for (job, meta), obs in zip(cases, results)]
    answers = ctx.driver.batch([q for qs in reqs for q in qs])
    at = 0
    for k, ((job, meta), obs) in enumerate(zip(cases, results)):
        s, m, fails, diffs, predicted = evaluate(ctx, job, meta, obs, tables, answers[at: at + len(reqs[k])])
        at += len(reqs[k])
        causes = sorted(set(f"{c['g']}:{c['cause']}" for c in m["collisions"]))
        ctx.count(key=json.dumps([meta["stress"], meta["naming"], sorted(meta["targets"]), causes]), nontrivial=bool(m["collisions"]),
                  sample={"stress": meta["stress"], "naming": meta["naming"], "collisions": causes[:6], "overwritten": s["overwritten"][:3]})
        ctx.stat("stress=" + meta["stress"].split(":")[0])
        ctx.stat("naming=" + meta["naming"])
        for c in causes:
            ctx.stat("predicted " + c)
        if meta.get("refusal_ok"):
            ctx.stat("keyword_namespace_cases")
            nref = sum(1 for rec in obs["calls"] if refused(rec))
            ctx.stat("keyword_namespace_generate_calls_refused", nref)
            ctx.stat("keyword_namespace_generate_calls_completed", sum(1 for c, rec in zip(job["calls"], obs["calls"]) if c["op"] == "generate" and rec["ok"]))
            ctx.stat("keyword_namespace_files_written_before_a_refusal", sum(len(rec["log"]) for rec in obs["calls"] if refused(rec)))
        ctx.stat("runs_with_overwrite", 1 if s["overwritten"] else 0)
        ctx.stat("paths_overwritten", len(s["overwritten"]))
        ctx.stat("files_written", len(m["writes"]))
        if job.get("sigs"):
            ctx.stat("inline_function_types_with_written_signature", len(job["sigs"]))
            for f in fails:
                if "differ_in" in f:
                    ctx.stat("anonymous " + f["key"].split(":", 1)[1])
        replay = {"job": job, "meta": meta}
        for f in fails:
            ctx.report(f["key"], f["detail"], {**replay, "failure": f})
        if diffs:
            breaks.append({**replay, "differences": diffs})
    ctx.stats["correspondence_breaks"] = len(breaks)
    if breaks and not ctx.violations:
        ctx.report("correspondence", "file-name model and implementation disagree; no unlisted overwrite was observed",
                   {"correspondence": "c15.names vs write log of the API", "first": breaks[0], "count": len(breaks)}, no_failing_input=True)
    elif breaks:
        ctx.stats["correspondence_first"] = json.dumps(breaks[0]["differences"][0])[:400]
    ctx.assumptions += [
        "families of inline function types: base signatures of 0-2 parameters over primitives, list/set/map, a record, an enum; one varied component per family (" + ", ".join(FAMILY_DIMS) +
        "), every component due once per " + str(len(FAMILY_DIMS)) + " cases, a second family in every third program; helper types are declared at the top level and referred to by their "
        "bare names; the written signature of a member is matched to the parser's declaration by its source line",
        "qualified-reference families: helper records " + ", ".join(QUAL_TYPES) + " and error domains " + ", ".join(QUAL_ERRORS) + " in the namespaces model, model.deep, v2.api.dto and (members of "
        "one namespace only) <home>.local, <parent of home>.shared, referred to by relative / absolute / partially qualified spellings; one qualified reference varies (position: " +
        ", ".join(QUAL_POSITIONS) + ") or stands in front of the varied component; home namespace (), net, core.util x the four layouts in rotation; no helper namespace shadows another",
        "one run = one API object, one parse, each target generated once; output directories of different generators are distinct",
        "contents are compared by sha256 of the bytes on disk right after each write (hook)",
    ]


def replay(ctx, body):
    tables = sysgen.live_tables(ctx)
    obs = sysgen.run_jobs(ctx, [body["job"]], workers=1, tag="c15r")[0]
    s, m, fails, diffs, _ = evaluate(ctx, body["job"], body["meta"], obs, tables)
    print(json.dumps({"spec": s, "failures": fails, "model_vs_impl": diffs, "collisions": m["collisions"][:10]}, indent=1)[:4000])
    key = (body.get("failure") or {}).get("key")
    if key:     # the recorded failure: does a failure of the same shape occur again?
        return not any(f["key"] == key for f in fails)
    return s["holds"] and not diffs
