"""C15 — no generated file is silently overwritten by another declaration.

Proof: `Props/C15.lean` over `Gen/Paths.lean` (`relHeader/relSource` of every generator) and
`Gen/Collide.lean`: distinct qualified names give distinct files in the generators that keep the
namespace as directories (cpp, cppcli; java with converted packages), unconditionally for the default
C++ style on lower-case names; `decide`-proved counterexamples for the generators that drop the
namespace (jni, objcpp, yaml) and for identifier-conversion / `_base` / Objective-C concatenation
collisions; the writer is unconditional (no refusal).

Tie (every run): the `PYDJINNI_VERIF=1` write log of one whole run (parse + every target) of the real
API on programs that stress same names across namespaces, names that collide after conversion
(`foo_bar`/`foo__bar`, letter case), `x` + `+t x_base`, equal inline function signatures (under different
parameter names) in the same, sibling and enclosing namespaces, declarations laid out as namespace *trees*
(dotted and nested blocks mixed, declarations behind inner blocks), x file-naming configurations;
the declarations given to the model carry the namespace read off the *source text* at their position
(`sysgen.namespace_scopes`), not the one the parser assigned; compared with the model's predicted multiset of written
paths; every path the implementation writes twice with different contents must be a collision the
model predicts (with its cause), and conversely.

Specification on the implementation's observation (`c15.spec`, Lean): no path with two different
digests in the log of one run. The shape signature of a failure is `overwrite:<cause>` as classified by
the model (`namespace-dropped` carries the generator).
"""
from __future__ import annotations

import json
import random

import sysgen

LEAN_MODULE = "PydjinniModel.Props.C15"
THEOREMS = [
    "Pydjinni.GenC.joinL_splitU",
    "Pydjinni.GenC.convertL_snake",
    "Pydjinni.GenC.convert_snake_injective_on_lower",
    "Pydjinni.GenC.relHeader_eq_cpp",
    "Pydjinni.GenC.relSource_eq_cpp",
    "Pydjinni.GenC.relHeader_eq_cppcli",
    "Pydjinni.GenC.relSource_eq_cppcli",
    "Pydjinni.GenC.relSource_eq_java",
    "Pydjinni.GenC.relName_injective",
    "Pydjinni.GenC.relName_injective_java",
    "Pydjinni.GenC.cpp_default_injective",
    "Pydjinni.GenC.objc_same_namespace_injective",
    "Pydjinni.GenC.jni_namespace_dropped",
    "Pydjinni.GenC.objcpp_namespace_dropped",
    "Pydjinni.GenC.yaml_namespace_dropped",
    "Pydjinni.GenC.pascal_conversion_collides",
    "Pydjinni.GenC.base_suffix_collides",
    "Pydjinni.GenC.objc_concatenation_collides",
    "Pydjinni.GenC.anonymous_function_namespace_dropped",
    "Pydjinni.GenC.no_collisions_nodup",
    "Pydjinni.GenC.nodup_noOverwrite",
    "Pydjinni.SysC.write_unconditional",
]
LEVEL = "proof"
TRUSTED = ["sysworker.py adapter (configuration and declaration dumps are the model's inputs)"]

STRESS = ["same-name", "conversion", "base", "anon", "mixed", "plain", "case"]

# the witnesses of the known findings, as programs (run first; every key in findings/C15.json is exercised on every run)
CORPUS = [
    {"name": "same name in two namespaces", "naming": "default",
     "text": "namespace a {\n  x = record { f0: i32; }\n}\nnamespace b {\n  x = record { f0: string; }\n}\n"},
    {"name": "foo_bar / foo__bar", "naming": "default",
     "text": "foo_bar = enum { item_a; }\nfoo__bar = enum { item_b; }\n"},
    {"name": "x +cpp and x_base", "naming": "default",
     "text": "x = record +cpp +java +objc +cppcli { f0: i32; }\nx_base = record { f0: string; }\n"},
    {"name": "objc concatenation", "naming": "default",
     "text": "namespace a {\n  b_c = enum { item_a; }\n}\nnamespace a {\n namespace b {\n  c = enum { item_b; }\n }\n}\n"},
    {"name": "equal inline function signatures in two namespaces", "naming": "default",
     "text": "namespace a {\n  i = interface +cpp { m0(cb: (a0: i32) -> bool); }\n}\nnamespace b {\n  j = interface +cpp { m0(cb: (a0: i32) -> bool); }\n}\n"},
    {"name": "the same inline function type in two files", "naming": "default",
     "text": "@import \"lib.pydjinni\"\ni = interface +cpp { m0(cb: (a0: i32) -> bool); }\n",
     "more": {"proj/lib.pydjinni": "j = interface +cpp { m0(cb: (a0: i32) -> bool); }\n"}},
    # namespace trees: a dotted block that holds an inner block and declarations *behind* it; the same inline function
    # signature under different parameter names in the enclosing / a sibling namespace
    {"name": "inline function behind an inner block of a dotted block", "naming": "default",
     "text": "namespace core {\n  h = interface +cpp { m0(cb: (x0: i32) -> bool); }\n}\n"
             "namespace core.util {\n  namespace model {\n    r = record { f0: i32; }\n  }\n  g = interface +cpp { m0(cb: (len0: i32) -> bool); }\n}\n"},
    {"name": "three-component dotted block, two inner blocks, declarations between and behind", "naming": "default",
     "text": "namespace data.core.util {\n  namespace net {\n    s = enum { item_a; }\n  }\n  t = interface +java { m0(cb: (a0: string)); }\n"
             "  namespace ui_kit {\n    u = record { f0: string; }\n  }\n  v = interface +java { m0(p0: i32, cb: (pct0: string)); }\n}\n"
             "namespace data {\n  w = interface +java { m0(cb: (x0: string)); }\n  namespace core {\n    y = interface +java { m0(cb: (len0: string)); }\n  }\n}\n"},
    # namespace names are names too: spellings that an identifier style maps to one name, equally named declarations inside
    {"name": "namespaces that differ in letter case", "naming": "default",
     "text": "namespace Net {\n  message = record { f0: i32; }\n  state = enum { item_a; }\n}\nnamespace net {\n  message = record { f0: string; }\n  state = enum { item_b; }\n}\n"},
    {"name": "namespaces that differ in word separators", "naming": "random",
     "text": "namespace ui_kit.core {\n  view = record { f0: i32; }\n}\nnamespace uiKit {\n  namespace core {\n    view = record { f0: string; }\n  }\n}\n"
             "namespace ui__kit.core {\n  view = record { f0: bool; }\n}\n"},
    {"name": "letter case", "naming": "default",
     "text": "alpha = record { f0: i32; }\nAlpha = record { f0: string; }\n"},
]


def make_case(seed_key: str):
    r = random.Random(seed_key)
    stress = r.choice(STRESS)
    pg = sysgen.ProgGen(r, stress=stress if stress != "case" else "mixed", multi_file=r.random() < 0.25, max_decls=r.choice([3, 5, 8]),
                        case_names=(stress == "case"))
    prog = pg.program()
    naming = r.choice(["default", "default", "random", "prefixed"])
    targets = list(sysgen.TARGETS)
    r.shuffle(targets)
    targets = targets[: r.choice([2, 3, 5])]
    opts = sysgen.make_options(r, targets, out_kind=r.choice(["rel", "split", "abs"]), naming=naming)
    return job_of(prog["files"], prog["root"], opts, targets), {"stress": stress, "naming": naming, "targets": targets, "features": prog["features"]}


def job_of(files, root, opts, targets):
    calls = [{"op": "parse", "ctx": 0, "idl": root}] + [{"op": "generate", "gc": 0, "target": t} for t in targets]
    return {"files": files, "cwd": ".", "contexts": [opts], "calls": calls}


def corpus_case(c):
    r = random.Random("corpus/c15/" + c["name"])
    opts = sysgen.make_options(r, sysgen.TARGETS, out_kind="rel", naming=c["naming"], extras=False)
    return job_of({"proj/main.pydjinni": c["text"], **c.get("more", {})}, "proj/main.pydjinni", opts, list(sysgen.TARGETS)), \
        {"stress": "corpus:" + c["name"], "naming": c["naming"], "targets": list(sysgen.TARGETS), "features": []}


def source_decls(job, defs):
    """The declarations the run is *about*: what the parser handed to the generators, with the namespace of each
    declaration read off the source text at the declaration's position (block structure only, `sysgen.namespace_scopes`).
    "Distinct declarations" in the C15 statement are distinct in the source; a front end that files a declaration under
    another namespace must not turn an overwrite into an (excusable) duplicate. -> (declarations, indices that differ)"""
    scopes, out, moved = {}, [], []
    for i, d in enumerate(defs):
        src = d.get("src") or {}
        text = job["files"].get(src.get("file"))
        if text is None or src.get("line") is None:
            out.append(d)
            continue
        if src["file"] not in scopes:
            scopes[src["file"]] = sysgen.namespace_scopes(text)
        ns = list(scopes[src["file"]](src["line"], src["col"]))
        if ns != d["ns"]:
            moved.append(i)
        out.append({**d, "ns": ns})
    return out, moved


def requests(job, meta, obs, tables):
    parse = obs["calls"][0]
    log = [[e[1], e[2]] for c in obs["calls"] for e in c["log"]]
    sdefs, _ = source_decls(job, parse.get("defs", []))
    return [{"op": "c15.spec", "log": log},
            {"op": "c15.names", "gens": obs["cfg"][0], "targets": meta["targets"], "defs": sdefs,
             "support": tables["support"], "supportLib": obs["meta"][0]["supportLib"]}]


def evaluate(ctx, job, meta, obs, tables, answers=None):
    parse = obs["calls"][0]
    log = [[e[1], e[2]] for c in obs["calls"] for e in c["log"]]
    pdefs = parse.get("defs", [])
    sdefs, moved = source_decls(job, pdefs)
    s, m = answers if answers is not None else ctx.driver.batch(requests(job, meta, obs, tables))
    for a in (s, m):
        if "error" in a:
            raise RuntimeError(f"driver error {a}")
    fails = []
    for c, rec in zip(job["calls"], obs["calls"]):
        if not rec["ok"] and not rec.get("skipped"):
            fails.append({"key": "run-failed:" + (rec["exc"] or {}).get("cls", "diagnostics"), "detail": json.dumps(rec.get("exc") or rec["diags"][:2])[:300]})
    by_path = {}
    for c in m["collisions"]:
        by_path.setdefault(c["path"], []).append(c)
    for p in s["overwritten"]:
        cs = [c for c in by_path.get(p, []) if c["cause"] != "duplicate-declaration"] or by_path.get(p, [])
        if not cs:
            why = ""
            if moved:
                why = " — declared in one namespace, generated under another: " + ", ".join(
                    f"{qn(sdefs, i)} ({pdefs[i]['src']['file']}:{pdefs[i]['src']['line']}) as {qn(pdefs, i)}" for i in moved[:3])
            fails.append({"key": "overwrite:unexplained", "detail": p + why, "path": p})
            continue
        c = cs[0]
        key = f"overwrite:{c['g']}:namespace-dropped" if c["cause"] == "namespace-dropped" else \
              (f"overwrite:{c['g']}:{c['cause']}" if c["cause"] == "concatenation" else f"overwrite:{c['cause']}")
        defs = sdefs
        fails.append({"key": key, "detail": f"{p} receives the files of {qn(defs, c['first'])} and {qn(defs, c['second'])} ({c['g']}, {c['kind']})",
                      "path": p, "collision": c})
    # correspondence
    diffs = []
    ipaths = sorted(e[0] for e in log)
    if ipaths != sorted(m["writes"]):
        diffs.append({"what": "written paths (multiset)", "only_impl": sorted(set(ipaths) - set(m["writes"]))[:5],
                      "only_model": sorted(set(m["writes"]) - set(ipaths))[:5], "n_impl": len(ipaths), "n_model": len(m["writes"])})
    if moved:
        diffs.append({"what": "namespace of a declaration: source text vs what the generators were given",
                      "decls": [{"source": qn(sdefs, i), "given": qn(pdefs, i), "at": pdefs[i]["src"]} for i in moved[:5]]})
    predicted = set(c["path"] for c in m["collisions"] if c["cause"] != "duplicate-declaration")
    if not set(s["overwritten"]) <= set(by_path):
        diffs.append({"what": "overwritten path not predicted as a collision", "paths": sorted(set(s["overwritten"]) - set(by_path))[:5]})
    return s, m, fails, diffs, predicted


def qn(defs, i):
    if 0 <= i < len(defs):
        return ".".join(defs[i]["ns"] + [defs[i]["name"]])
    return "?"


def run(ctx):
    ctx.coverage["rule"] = ("one case = program x naming configuration x target list, whole run in one process; distinct = distinct "
                            "(stress kind, naming class, target set, multiset of predicted collision causes per generator); "
                            "non-trivial = the model predicts at least one collision or the program has same-named declarations")
    tables = sysgen.live_tables(ctx)
    cases = [corpus_case(c) for c in CORPUS]
    for i in range(ctx.n(140, 2000)):
        cases.append(make_case(f"{ctx.seed}/c15/{i}"))
    results = sysgen.run_jobs(ctx, [c[0] for c in cases], tag="c15")
    breaks = []
    for obs in results:
        if "fatal" in obs:
            raise RuntimeError(f"worker failed: {obs['fatal']}")
    answers = ctx.driver.batch([q for (job, meta), obs in zip(cases, results) for q in requests(job, meta, obs, tables)])
    for k, ((job, meta), obs) in enumerate(zip(cases, results)):
        s, m, fails, diffs, predicted = evaluate(ctx, job, meta, obs, tables, answers[2 * k: 2 * k + 2])
        causes = sorted(set(f"{c['g']}:{c['cause']}" for c in m["collisions"]))
        ctx.count(key=json.dumps([meta["stress"], meta["naming"], sorted(meta["targets"]), causes]), nontrivial=bool(m["collisions"]),
                  sample={"stress": meta["stress"], "naming": meta["naming"], "collisions": causes[:6], "overwritten": s["overwritten"][:3]})
        ctx.stat("stress=" + meta["stress"].split(":")[0])
        ctx.stat("naming=" + meta["naming"])
        for c in causes:
            ctx.stat("predicted " + c)
        ctx.stat("runs_with_overwrite", 1 if s["overwritten"] else 0)
        ctx.stat("paths_overwritten", len(s["overwritten"]))
        ctx.stat("files_written", len(m["writes"]))
        replay = {"job": job, "meta": meta}
        for f in fails:
            ctx.report(f["key"], f["detail"], {**replay, "failure": f})
        if diffs:
            breaks.append({**replay, "differences": diffs})
    ctx.stats["correspondence_breaks"] = len(breaks)
    if breaks and not ctx.violations:
        ctx.report("correspondence", "file-name model and implementation disagree; no unlisted overwrite was observed",
                   {"correspondence": "c15.names vs write log of the API", "first": breaks[0], "count": len(breaks)}, no_failing_input=True)
    elif breaks:
        ctx.stats["correspondence_first"] = json.dumps(breaks[0]["differences"][0])[:400]
    ctx.assumptions += [
        "one run = one API object, one parse, each target generated once; output directories of different generators are distinct",
        "contents are compared by sha256 of the bytes on disk right after each write (hook)",
    ]


def replay(ctx, body):
    tables = sysgen.live_tables(ctx)
    obs = sysgen.run_jobs(ctx, [body["job"]], workers=1, tag="c15r")[0]
    s, m, fails, diffs, _ = evaluate(ctx, body["job"], body["meta"], obs, tables)
    print(json.dumps({"spec": s, "failures": fails, "model_vs_impl": diffs, "collisions": m["collisions"][:10]}, indent=1)[:4000])
    key = (body.get("failure") or {}).get("key")
    if key:     # the recorded failure: does a failure of the same shape occur again?
        return not any(f["key"] == key for f in fails)
    return s["holds"] and not diffs
