"""C19 — CLI exit status follows the documented return-code table; CLI equals API.

Tie: the Lean command-line model (`Sys/Cli.lean`: stage pipeline top-level arguments -> `-o` folding -> configure -> sub-command
lookup -> arguments of `generate` -> parse (readiness, front end) -> lookup of all target names -> generate t1..tn -> report;
`handler` = `main()`'s exception clauses + click's usage errors + interpreter default) is run against real subprocess invocations
`python -m pydjinni ...` over failing/succeeding IDL files x configuration files x `-o` lists (incl. malformed, overwriting) x
target lists (incl. unknown, unconfigured, empty) x `--clean` x `--config None` x malformed command lines. For every invocation
the documented equivalent API sequence `API().configure(...).parse(...).generate(t)....write_processed_files()` is run in-process
on a second copy of the workspace; its per-stage outcomes are the model's parameters (front-end verdict, generator failures,
validation verdict), and its output tree / report is what the CLI's is compared with.

Specification on the implementation's observations (Lean op `c19.spec` = `specExit`): never a traceback; the exit status is 0
exactly when the API sequence ran through, otherwise the documented code of its first exception (2 for a command line click
refuses); the CLI writes the same files (paths and contents) and the same report as the API sequence.

Translator: `pydjinni.exceptions.return_codes` after loading all plug-ins -> Lean table; obligations: equal to the documented
table, codes distinct, none collides with the traceback status 1, every exception class has the code the model uses.
"""
from __future__ import annotations

import hashlib
import json
import os
import random
import shutil
import subprocess
import sys
import warnings
from pathlib import Path

import common
import cfgsys
from props import c17

LEAN_MODULE = "PydjinniModel.Props.C19"
_T = "Pydjinni.Sys."
THEOREMS = [_T + n for n in [
    "handler_app", "handler_list_first", "handler_usage", "exit_code_is_first_failure", "exit_zero_iff", "exitOf_no_traceback",
    "never_traceback_partial", "never_traceback_counterexample", "exitOf_filter", "eventsOf_filter", "firstRaised_exit",
    "cli_eq_api", "cli_unlisted_target_generates_nothing",
]]
LEVEL = "proof"
TRUSTED = [
    "click's argument handling (order: group options, group callback, sub-command lookup; chained sub-commands are all looked up before "
    "any runs) is modelled from its documented behaviour and tied by the subprocess runs",
    "front-end verdicts and generator failures are parameters of the model, taken from the in-process API run of the same workspace",
]

PY = "/venv/bin/python"

IDLS = {
    "ok.djinni": ("e = enum { a; b; }\nr = record { x: i32; y: e; }\n", ["enum", "record"]),
    "empty.djinni": ("", []),
    "enum.djinni": ("e = enum { a; b; }\n", ["enum"]),
    "syn.djinni": ("r = record { a: i32 }\n", []),
    "unk.djinni": ("r = record { a: nope; }\n", []),
    "dup.djinni": ("r = record { a: i32; }\nr = record { b: i32; }\n", []),
    "multi.djinni": ("r = record { a: nope; b: nope2; }\ni = interface { static const m(); }\n", []),
    "imp.djinni": ('@import "nope.djinni"\nr = record { a: i32; }\n', []),
    "kw.djinni": ("r = record { class: i32; }\n", ["record"]),
}

GEN = {
    "cpp": {"out": "out/cpp"}, "java": {"out": "out/java", "package": "a.b.c"}, "jni": {"out": "out/jni", "namespace": "a::jni"},
    "objc": {"out": "out/objc"}, "objcpp": {"out": "out/objcpp", "namespace": "a::objcpp"}, "cppcli": {"out": "out/cppcli", "namespace": "A::B"},
    "yaml": {"out": "out/yaml"},
}


def gen_cfg(keys, report=True, support=False):
    g = {"support_lib_sources": support}
    if report:
        g["list_processed_files"] = "out/report.json"
    for k in keys:
        g[k] = dict(GEN[k])
    return {"generate": g}


GOOD = gen_cfg(["cpp", "java", "jni", "yaml"])
CONFIGS = {
    "pydjinni.yaml": {"text": cfgsys.to_yaml(GOOD)},
    "good.json": {"text": cfgsys.to_json(GOOD)},
    "good.toml": {"text": cfgsys.to_toml(GOOD)},
    "support.yml": {"text": cfgsys.to_yaml(gen_cfg(["cpp"], support=True))},
    "noreport.yaml": {"text": cfgsys.to_yaml(gen_cfg(["cpp", "yaml"], report=False))},
    "nocpp.yaml": {"text": cfgsys.to_yaml(gen_cfg(["java", "jni"]))},
    "javaonly.yaml": {"text": cfgsys.to_yaml(gen_cfg(["java"]))},
    "nogen.yaml": {"text": cfgsys.to_yaml({"build": {"conan": {}}})},
    "syntax.yaml": {"text": "a: [1"},
    "syntax.json": {"text": "{"},
    "unknownkey.yaml": {"text": "bogus: 1\n"},
    "illtyped.yaml": {"text": cfgsys.to_yaml({"generate": {"cpp": {"out": "out/cpp"}, "include_dirs": [["x"]]}})},
    "empty.yaml": {"text": ""},
    "intkey.yaml": {"text": "1: x\n"},
    "binary.yaml": {"bytes": "a: \xff"},
    "conf.txt": {"text": cfgsys.to_yaml(GOOD)},
    "confdir.yaml": {"dir": True},
}
MISSING_CONFIG = "nothere.yaml"

# option lists: (texts, leaf assignments the texts denote in order | None when some text is malformed)
OPTION_SETS = [
    ([], []),
    (["generate.cpp.out=out/cpp2"], [(("generate", "cpp", "out"), "out/cpp2")]),
    (["generate.objc.out=out/objc", "generate.objcpp.out=out/objcpp"], [(("generate", "objc", "out"), "out/objc"), (("generate", "objcpp", "out"), "out/objcpp")]),
    (["foo"], None),
    (["generate.cpp.out=out/cpp", "nonsense"], None),
    (["generate.cpp.out=x", "generate.cpp.out.header=out/h", "generate.cpp.out.source=out/s"],
     [(("generate", "cpp", "out"), "x"), (("generate", "cpp", "out", "header"), "out/h"), (("generate", "cpp", "out", "source"), "out/s")]),
    (["bogus=1"], [(("bogus",), "1")]),
    (["generate.include_dirs=[a,b]", "generate.default_deriving=[eq]"], [(("generate", "include_dirs"), ["a", "b"]), (("generate", "default_deriving"), ["eq"])]),
    (["generate.cpp.header_extension=hh", "generate.cpp.header_extension=hxx"], [(("generate", "cpp", "header_extension"), "hh"), (("generate", "cpp", "header_extension"), "hxx")]),
    (["generate.support_lib_sources=maybe"], [(("generate", "support_lib_sources"), "maybe")]),
    (["generate.cpp.out=out/cpp", "generate.list_processed_files=out/report.json", "generate.support_lib_sources=false"],
     [(("generate", "cpp", "out"), "out/cpp"), (("generate", "list_processed_files"), "out/report.json"), (("generate", "support_lib_sources"), "false")]),
    (["generate.java.out=out/java", "generate.java.package=a.b.c", "generate.jni.out=out/jni", "generate.jni.namespace=a::jni", "generate.support_lib_sources=false"],
     [(("generate", "java", "out"), "out/java"), (("generate", "java", "package"), "a.b.c"), (("generate", "jni", "out"), "out/jni"),
      (("generate", "jni", "namespace"), "a::jni"), (("generate", "support_lib_sources"), "false")]),
]
TARGET_LISTS = [["cpp"], ["cpp", "java"], ["java", "cpp"], ["yaml"], ["cpp", "java", "yaml"], ["objc"], ["cpp", "objc"], ["objc", "cpp"],
                ["bogus"], ["cpp", "bogus"], ["bogus", "cpp"], ["jni"], [], ["java"], ["cppcli"]]


def ref_fold(leaves):
    """reference semantics of successive assignments (later wins, a scalar gives way to nested keys)"""
    out = {}
    for path, v in leaves:
        d = out
        for k in path[:-1]:
            if not isinstance(d.get(k), dict):
                d[k] = {}
            d = d[k]
        d[path[-1]] = v
    return out


def make_case(idl, config, optset, targets, clean, shape="generate", top=None, log=None, extra_env=None):
    """shape: generate | no-command | unknown-command | no-idl | bad-generate-option | bad-top-option | target-option"""
    texts, leaves = optset
    args = []
    if top:
        args += [top]
    if log:
        args += ["--log-level", log]
    for t in texts:
        args += ["-o", t]
    if config is not None:
        args += ["--config", config]
    sem = {"top_ok": top is None and log in (None, "debug", "info", "warn", "error", "DEBUG"), "options": texts,
           "opt_dict": ref_fold(leaves) if leaves is not None else None,
           "config": config if config is not None else "pydjinni.yaml", "idl": idl, "clean": clean, "targets": targets, "shape": shape,
           "debug": (log or "").lower() == "debug"}
    if shape == "no-command":
        sem["command"] = {"kind": "none"}
    elif shape == "unknown-command":
        args += ["frobnicate", idl]
        sem["command"] = {"kind": "unknown"}
    else:
        args += ["generate"]
        if clean:
            args += ["--clean"]
        if shape == "bad-generate-option":
            args += ["--nonsense"]
        if shape != "no-idl":
            args += [idl]
        args += targets
        if shape == "target-option":
            args += ["--nonsense"]
        ok = shape == "generate"
        sem["command"] = {"kind": "generate", "args_ok": ok or (shape == "target-option"), "clean": clean,
                          "targets": targets if shape != "no-idl" else []}
        if shape == "target-option":
            sem["command"]["targets"] = targets + ["--nonsense"]   # an option no target command knows: refused when the targets are looked up
        if shape == "no-idl" and targets:
            # the first word after `generate` is taken as the IDL argument
            sem["idl"] = targets[0]
            sem["command"] = {"kind": "generate", "args_ok": True, "clean": clean, "targets": targets[1:]}
    return {"args": args, "sem": sem, "env": extra_env or {}}


def build_cases(ctx):
    cases = []
    good = [("ok.djinni", None), ("ok.djinni", "good.json"), ("ok.djinni", "good.toml")]
    none = OPTION_SETS[0]
    # one invocation per failure class and stage
    for idl in IDLS:
        cases.append(make_case(idl, None, none, ["cpp"], False))
    cases.append(make_case("missing.djinni", None, none, ["cpp"], False))
    thorough_only_cfg = {"good.toml", "syntax.json", "none", "False", "conf.txt"} if ctx.quick else set()
    for cfg in list(CONFIGS) + [MISSING_CONFIG, "None", "none", "False"]:
        if cfg not in thorough_only_cfg:
            cases.append(make_case("ok.djinni", cfg, none, ["cpp"], False))
    for j, o in enumerate(OPTION_SETS[1:]):
        if not (ctx.quick and j + 1 in (4, 8, 9)):
            cases.append(make_case("ok.djinni", None, o, ["cpp"], False))
    for o in (OPTION_SETS[10], OPTION_SETS[11], OPTION_SETS[3]):
        cases.append(make_case("ok.djinni", "None", o, ["cpp"] if o is not OPTION_SETS[11] else ["java"], False))
    cases.append(make_case("ok.djinni", "empty.yaml", OPTION_SETS[10], ["cpp"], False))
    for ts in TARGET_LISTS:
        if not (ctx.quick and ts in (["cpp", "java", "yaml"], ["objc", "cpp"], ["bogus", "cpp"], ["cppcli"], ["java"], ["cpp"])):
            cases.append(make_case("ok.djinni", None, none, ts, False))
    for ts in (["cpp"], ["cpp", "java"], ["objc"], ["objc", "cpp"], ["yaml"]):
        if not (ctx.quick and ts in (["cpp"], ["yaml"])):
            cases.append(make_case("ok.djinni", None, none, ts, True))
    cases.append(make_case("ok.djinni", "nocpp.yaml", none, ["java"], True))
    cases.append(make_case("enum.djinni", "nocpp.yaml", none, ["java"], False))
    cases.append(make_case("empty.djinni", "nocpp.yaml", none, ["java"], False))
    cases.append(make_case("kw.djinni", None, none, ["yaml", "cpp", "java"], False))
    cases.append(make_case("ok.djinni", "support.yml", none, ["cpp"], True))
    cases.append(make_case("ok.djinni", "noreport.yaml", none, ["cpp", "yaml"], False))
    for shape in ("no-command", "unknown-command", "no-idl", "bad-generate-option", "target-option"):
        cases.append(make_case("ok.djinni", None, none, ["cpp"], False, shape=shape))
        if not (ctx.quick and shape in ("no-command", "target-option")):
            cases.append(make_case("ok.djinni", "syntax.yaml", OPTION_SETS[3], ["cpp"], False, shape=shape))
    cases.append(make_case("ok.djinni", None, none, ["cpp"], False, top="--nonsense"))
    cases.append(make_case("ok.djinni", "syntax.yaml", none, ["cpp"], False, top="--nonsense"))
    cases.append(make_case("ok.djinni", None, none, ["cpp"], False, log="loud"))
    cases.append(make_case("ok.djinni", None, none, ["cpp"], False, log="debug"))
    cases.append(make_case("kw.djinni", None, none, ["cpp", "bogus"], True, log="debug"))
    cases.append(make_case("syn.djinni", None, none, ["bogus"], False))
    cases.append(make_case("syn.djinni", "javaonly.yaml", none, ["java"], False))
    cases.append(make_case("ok.djinni", None, none, ["cpp"], False, extra_env={"pydjinni__generate__yaml__out": "out/envyaml"}))
    cases.append(make_case("ok.djinni", "noreport.yaml", none, ["yaml"], False, extra_env={"PYDJINNI__GENERATE__YAML__OUT": "out/envyaml"}))
    for i, c in enumerate(cases):
        c["label"] = f"fixed/{i}"
    # random combinations
    idls = list(IDLS) + ["missing.djinni"]
    cfgs = [None, None, None, "good.json", "good.toml", "nocpp.yaml", "javaonly.yaml", "nogen.yaml", "syntax.yaml", "unknownkey.yaml",
            "illtyped.yaml", "empty.yaml", "conf.txt", "confdir.yaml", MISSING_CONFIG, "None", "noreport.yaml", "binary.yaml"]
    for i in range(ctx.n(10, 500)):
        r = random.Random(f"{ctx.seed}/c19/{i}")
        shape = r.choice(["generate"] * 8 + ["no-command", "unknown-command", "no-idl", "bad-generate-option", "target-option"])
        c = make_case(r.choice(idls if r.random() < 0.5 else ["ok.djinni"]), r.choice(cfgs), r.choice(OPTION_SETS if r.random() < 0.6 else [none]),
                      r.choice(TARGET_LISTS), r.random() < 0.3, shape=shape,
                      top="--nonsense" if r.random() < 0.04 else None, log=r.choice([None, None, None, "debug", "error", "loud"]))
        c["label"] = f"random/{i}"
        cases.append(c)
    return cases


# --------------------------------------------------------------------------------------------
# running one case: CLI subprocess + in-process API sequence
# --------------------------------------------------------------------------------------------

def materialise(ws: Path):
    ws.mkdir(parents=True)
    for name, (text, _) in IDLS.items():
        (ws / name).write_text(text)
    for name, spec in CONFIGS.items():
        cfgsys.write_file(ws, {"name": name, **spec})
    for g in GEN.values():
        d = ws / g["out"]
        d.mkdir(parents=True)
        (d / "stale.txt").write_text("left over from an earlier run\n")
    for extra in ("out/cpp2", "out/h", "out/s", "out/envyaml"):
        (ws / extra).mkdir(parents=True)
        (ws / extra / "stale.txt").write_text("left over from an earlier run\n")


def tree_of(ws: Path) -> dict:
    out = {}
    base = ws / "out"
    if base.exists():
        for p in sorted(base.rglob("*")):
            if p.is_file():
                out[str(p.relative_to(ws))] = hashlib.sha256(p.read_bytes()).hexdigest()[:16]
    return out


def run_case(base: Path, case: dict) -> dict:
    warnings.filterwarnings("ignore")
    sem = case["sem"]
    ws = base / "ws"
    shutil.rmtree(ws, ignore_errors=True)
    cli, api = ws / "cli", ws / "api"
    materialise(cli)
    materialise(api)
    env = dict(case["child_env"])
    for k in [k for k in env if k.lower().startswith(cfgsys.ENV_PREFIX)]:
        del env[k]
    env.update(case.get("env") or {})
    env["COLUMNS"] = "200"
    try:
        p = subprocess.run([PY, "-m", "pydjinni", *case["args"]], cwd=cli, env=env, capture_output=True, text=True, timeout=120)
        obs = {"rc": p.returncode, "traceback": "Traceback (most recent call last)" in p.stderr or "Traceback (most recent call last)" in p.stdout,
               "stderr": p.stderr[-600:], "stdout": p.stdout[-2500:]}
    except subprocess.TimeoutExpired:
        obs = {"rc": None, "traceback": False, "stderr": "timeout", "stdout": ""}
    obs["tree"] = tree_of(cli)
    rep = cli / "out" / "report.json"
    obs["report"] = json.loads(rep.read_text()) if rep.exists() else None

    # the documented equivalent API sequence
    a = {"stages": []}
    cmd = sem["command"]
    reach_configure = sem["opt_dict"] is not None and sem["top_ok"] and cmd["kind"] == "generate"
    reach_parse = reach_configure and cmd["kind"] == "generate" and cmd["args_ok"] and bool(cmd["targets"])
    reach_generate = reach_parse and not click_refuses(sem)
    if reach_configure:
        saved = dict(os.environ)
        for k in [k for k in os.environ if k.lower().startswith(cfgsys.ENV_PREFIX)]:
            del os.environ[k]
        os.environ.update(case.get("env") or {})
        cwd = os.getcwd()
        os.chdir(api)
        try:
            from pydjinni import API
            import copy

            def stage(name, f):
                try:
                    r = f()
                    a["stages"].append({"stage": name, "kind": "ok"})
                    return r
                except BaseException as e:  # noqa
                    a["stages"].append({"stage": name, **cfgsys.classify(e)})
                    raise

            try:
                cfgname = sem["config"]
                path = None if cfgname in ("None", "none", "False", "false") else Path(cfgname)
                c = stage("configure", lambda: API().configure(path=path, options=copy.deepcopy(sem["opt_dict"])))
                if reach_parse:
                    g = stage("parse", lambda: c.parse(Path(sem["idl"])))
                    if sem.get("debug"):
                        # `--log-level debug`: the generate callback pretty-prints the AST, which evaluates the marshalling
                        from rich.pretty import pretty_repr
                        try:
                            stage("astdump", lambda: pretty_repr(g.ast))
                        except BaseException:  # noqa  (the API sequence itself has no such step: carry on)
                            pass
                if reach_generate:
                    for t in cmd["targets"]:
                        stage("generate:" + t, lambda: g.generate(t, clean=sem["clean"]))
                    stage("report", lambda: g.write_processed_files())
            except BaseException:  # noqa
                pass
        finally:
            os.chdir(cwd)
            os.environ.clear()
            os.environ.update(saved)
        a["tree"] = tree_of(api)
        rp = api / "out" / "report.json"
        a["report"] = json.loads(rp.read_text()) if rp.exists() else None
    obs["api"] = a
    shutil.rmtree(ws, ignore_errors=True)
    return obs


# --------------------------------------------------------------------------------------------
# translator
# --------------------------------------------------------------------------------------------

def translate() -> str:
    warnings.filterwarnings("ignore")
    from pydjinni import API
    API()   # loads every plug-in, which registers its exception classes
    import pydjinni_language_server  # noqa: F401  (imports nothing with codes; keeps the registry complete if it ever does)
    from pydjinni.exceptions import return_codes, ApplicationException

    def subs(c):
        for s in c.__subclasses__():
            yield s
            yield from subs(s)
    classes = sorted({(s.__name__, s.code) for s in subs(ApplicationException) if getattr(s, "code", -1) > 0 and s.__module__.startswith("pydjinni.")})
    ls = c17.lean_str
    return f"""import PydjinniModel.Sys.Cli
open Pydjinni.Sys
/-! generated by harness/props/c19.py from `pydjinni.exceptions.return_codes` after loading all plug-ins -/
def liveCodes : List (Nat × String) := {c17.lean_list(f'({k}, {ls(v)})' for k, v in sorted(return_codes.items()))}
def liveClassCodes : List (String × Nat) := {c17.lean_list(f'({ls(n)}, {c})' for n, c in classes)}

theorem codes_table : liveCodes = documentedCodes := by decide
theorem codes_distinct : (liveCodes.map (·.1)).Nodup := by decide
theorem codes_not_traceback_status : liveCodes.all (fun p => p.1 != 0 && p.1 != 1) = true := by decide
theorem class_codes : ∀ p ∈ classCodes, liveClassCodes.contains p = true := by decide
theorem class_codes_documented : liveClassCodes.all (fun p => isDocumentedCode p.2) = true := by decide
theorem property_codes : [(2, "FileNotFoundException"), (141, "ConfigurationException"), (150, "ParsingException"),
    (161, "InvalidIdentifierException"), (170, "TypeResolvingException")].all (fun p => liveClassCodes.contains (p.2, p.1)) = true := by decide
"""


OBLIGATIONS = ["codes_table", "codes_distinct", "codes_not_traceback_status", "class_codes", "class_codes_documented", "property_codes"]


# --------------------------------------------------------------------------------------------
# the check
# --------------------------------------------------------------------------------------------

def raised_of(st: dict) -> dict:
    if st["kind"] == "applist":
        return {"kind": "applist", "codes": [c if c is not None else 1 for c in st["codes"]]}
    if st["kind"] == "app":
        return {"kind": "app", "code": st["code"]}
    if st["kind"] == "crash":
        return {"kind": "crash", "cls": st.get("cls", "?")}
    return {"kind": "ok"}


def model_request(case: dict, obs: dict) -> dict:
    sem = case["sem"]
    cfg = sem["config"]
    if cfg in ("None", "none", "False", "false"):
        fspec = None
    elif cfg in CONFIGS:
        fspec = {"name": cfg, **CONFIGS[cfg]}
    else:
        fspec = {"name": cfg, "missing": True}
    stages = {s["stage"]: s for s in obs["api"]["stages"]}
    conf = stages.get("configure")
    parse = stages.get("parse")
    gen_fail = {}
    for name, s in stages.items():
        if name.startswith("generate:") and s["kind"] != "ok" and not (s["kind"] == "app" and s["code"] in (141, 120)):
            gen_fail[name.split(":", 1)[1]] = raised_of(s)
    idl = sem["idl"]
    world = {"valid": conf is not None and conf["kind"] == "ok",
             "front": raised_of(parse) if parse is not None else {"kind": "ok"},
             "kinds": IDLS.get(idl, ("", []))[1],
             "gen_fail": gen_fail, "report": bool(obs["api"].get("report")),
             "env": cfgsys.decode_env(case.get("env")), "dotenv": []}
    if "astdump" in stages:
        world["ast_dump"] = raised_of(stages["astdump"])
    return {"op": "c19.run", "top_ok": sem["top_ok"], "options": sem["options"], "config": c17.classify_file(fspec),
            "command": sem["command"], "world": world, "debug": bool(sem.get("debug"))}


def run(ctx):
    ctx.coverage["rule"] = ("distinct = distinct command line (IDL x config x -o list x targets x --clean x malformation); "
                            "non-trivial = anything but the plain successful `generate ok.djinni cpp`")
    ctx.assumptions += [
        "front-end verdict on the IDL and generator failures are taken from the in-process API run of the same workspace (parameters of the model)",
        "package/publish sub-commands are outside this property's quantifier (C20)",
    ]
    ok, out = common.lean_check_file(translate(), "C19_tables")
    for name in OBLIGATIONS:
        ctx.obligation(name, ok, kind="generated", detail="" if ok else out)

    cases = build_cases(ctx)
    corpus = common.VERIF / "corpus" / "c19.json"
    if corpus.exists():
        extra = json.loads(corpus.read_text())
        for i, c in enumerate(extra):
            c["label"] = f"corpus/{i}"
        cases = extra + cases
    child_env = ctx.child_env()
    for c in cases:
        c["child_env"] = child_env
    cfgsys.register("cli", run_case)
    results = cfgsys.run_pool(ctx.tmp, [("cli", c) for c in cases], workers=14)
    for r_ in results:
        if r_.get("kind") == "harness-error":
            raise RuntimeError(f"harness error: {r_}")
    reqs = [model_request(c, o) for c, o in zip(cases, results)]
    answers = ctx.driver.batch(reqs)
    for a, q in zip(answers, reqs):
        if "error" in a:
            raise RuntimeError(f"driver error {a} for {json.dumps(q)[:400]}")
    spec_reqs = [spec_request(c, o) for c, o in zip(cases, results)]
    specs = ctx.driver.batch(spec_reqs)
    breaks = []
    for c, o, m, sq, s in zip(cases, results, answers, spec_reqs, specs):
        evaluate(ctx, c, o, m, sq, s, breaks)
    ctx.stats["correspondence_breaks"] = len(breaks)
    if os.environ.get("VERIF_DEBUG"):
        for b in breaks:
            print("BREAK", json.dumps(b, default=str)[:1500])
    if breaks and not ctx.violations:
        ctx.report("correspondence", "command-line model and implementation disagree; the specification holds on every sampled invocation",
                   {"correspondence": breaks[0]["what"], "first": breaks[0], "count": len(breaks)}, no_failing_input=True)
    elif breaks:
        ctx.stats["correspondence_first"] = breaks[0]["what"]


def click_refuses(sem) -> bool:
    """is the command line malformed at the click level (by construction of the case)?"""
    cmd = sem["command"]
    if not sem["top_ok"] or cmd["kind"] in ("none", "unknown"):
        return True
    if not cmd["args_ok"] or not cmd["targets"]:
        return True
    return any(t not in ("cpp", "cppcli", "java", "objc", "yaml") for t in cmd["targets"])


def spec_request(case, obs) -> dict:
    sem = case["sem"]
    first = next((raised_of(s) for s in obs["api"]["stages"] if s["kind"] != "ok"), None)
    malformed_opts = sem["opt_dict"] is None
    if malformed_opts:
        first = {"kind": "app", "code": 141}
    usage = click_refuses(sem)
    return {"op": "c19.spec", "usage": usage, "first": first, "code": obs["rc"] if obs["rc"] is not None and obs["rc"] >= 0 else 999,
            "traceback": obs["traceback"]}


def brief(o):
    return {"rc": o["rc"], "traceback": o["traceback"], "stderr": o["stderr"][-300:], "api": o["api"]["stages"]}


def traceback_shape(case, obs) -> str:
    sem = case["sem"]
    text = obs["stderr"]
    if sem["config"] == "intkey.yaml":
        return "non-string-key"
    if "has no attribute 'cpp'" in text:
        return "glue-without-cpp"
    if sem["opt_dict"] is None:
        return "option-without-equals"
    if sem["config"] == "empty.yaml":
        return "non-mapping-config"
    if "combine_into" in text:
        return "option-over-scalar"
    if "IsADirectoryError" in text:
        return "config-directory"
    if "ReaderError" in text or "UnicodeDecodeError" in text:
        return "undecodable-config"
    if "from_pydantic_error" in text:
        return "error-path"
    if "'NoneType' object has no attribute 'include_dirs'" in text:
        return "no-generate-section"
    if "'NoneType' object has no attribute 'out'" in text:
        return "clean-unconfigured-target" if "in clean" in text else "missing-generator-section"
    return "other"


def evaluate(ctx, case, obs, m, sq, s, breaks):
    sem = case["sem"]
    rep = {"args": case["args"], "env": case.get("env"), "case": {k: v for k, v in case.items() if k not in ("child_env",)}}
    trivial = case["args"] == ["generate", "ok.djinni", "cpp"]
    ctx.count(key=json.dumps([case["args"], case.get("env")]), nontrivial=not trivial, sample={"args": case["args"], "rc": obs["rc"]})
    ctx.stat(f"rc_{obs['rc']}")
    if obs["traceback"]:
        ctx.stat("traceback")
    # ---- correspondence: exit status, traceback, effects ---------------------------------------------------
    me = m["exit"]
    if me["code"] != obs["rc"] or me["traceback"] != obs["traceback"]:
        breaks.append({"what": "c19.run exit status vs subprocess exit status", "args": case["args"], "model": me, "stages": m["stages"], "impl": brief(obs)})
    else:
        gen_m = [e[1] for e in m["events"] if e[0] == "generated"]
        report_m = any(e[0] == "report" for e in m["events"])
        if report_m != (obs["report"] is not None) and obs["rc"] == 0:
            breaks.append({"what": "c19.run report event vs report file", "args": case["args"], "model": m["events"], "impl": brief(obs)})
        if obs["report"] is not None and obs["rc"] == 0:
            keys = set((obs["report"].get("generated") or {}).keys())
            want = set()
            for t in gen_m:
                want |= set(c17.live_targets_cached().get(t, []))
            if not keys <= want or (keys != want and IDLS.get(sem['idl'], ('', []))[1]):
                breaks.append({"what": "c19.run generated events vs report sections", "args": case["args"], "model": sorted(want), "impl": sorted(keys)})
    # model API stages vs in-process API outcome
    pure = [x for x in obs["api"]["stages"] if x["stage"] != "astdump"]
    if m.get("api") and pure and (pure[-1]["kind"] != "ok" or pure[-1]["stage"] == "report"):
        first_impl = next((raised_of(x) for x in pure if x["kind"] != "ok"), None)
        fm = m["api"]["first"]
        same = (fm is None and first_impl is None) or (fm is not None and first_impl is not None and fm["kind"] == first_impl["kind"]
                                                         and fm.get("code") == first_impl.get("code") and fm.get("codes") == first_impl.get("codes"))
        if not same:
            breaks.append({"what": "apiStages first exception vs in-process API sequence", "args": case["args"], "model": fm, "impl": obs["api"]["stages"]})
    # ---- specification ---------------------------------------------------------------------------------------
    if obs["traceback"] or obs["rc"] == 1:
        ctx.report("cli:traceback-" + traceback_shape(case, obs), f"the command line ended in a Python traceback (exit status {obs['rc']})",
                   {**rep, "impl": brief(obs)})
        return
    if obs["rc"] is None:
        ctx.report("cli:timeout", "the command line did not terminate", {**rep})
        return
    usage = sq["usage"]
    if usage:
        # a command line click refuses: status 2, or the documented code of an error found before click got there
        first = sq["first"]
        ok = obs["rc"] == 2 or (first is not None and s_first_matches(first, obs["rc"]))
        if not ok:
            ctx.report("cli:malformed-command-line-status", f"a malformed command line ended with status {obs['rc']}", {**rep, "impl": brief(obs)})
        if obs["rc"] == 0:
            ctx.report("cli:malformed-command-line-accepted", "a malformed command line ended with status 0", {**rep, "impl": brief(obs)})
        if sem["command"]["kind"] == "generate" and any(k for k in obs["tree"] if not k.endswith("stale.txt")):
            ctx.report("cli:malformed-command-line-wrote-files", "a refused command line wrote output files", {**rep, "impl": brief(obs), "files": list(obs["tree"])[:10]})
        return
    if obs["rc"] in (150, 161, 170):
        import re as _re
        text = obs["stdout"] + obs["stderr"]
        if sem["idl"] not in text or not _re.search(r"at \(\d+, \d+\)", text):
            ctx.report("cli:diagnostic-without-position", f"the message for status {obs['rc']} does not name the IDL file and a (line, column) position",
                       {**rep, "impl": brief(obs), "stdout": obs["stdout"][-600:]})
    if not s["holds"]:
        ctx.report("cli:exit-status", f"exit status {obs['rc']} is not the documented code of the first error of the equivalent API sequence "
                   f"({sq['first']})", {**rep, "impl": brief(obs), "spec": sq})
        return
    # CLI equals API: same files, same contents, same report
    if sem["opt_dict"] is not None and obs["api"]["stages"]:
        if obs["tree"] != obs["api"]["tree"]:
            a, b = obs["tree"], obs["api"]["tree"]
            # after a failure only the files written are compared: with --log-level debug the command line prints the AST
            # (which evaluates the marshalling) before generating, so it may fail before the first output directory is purged
            diff = sorted(k for k in set(a) | set(b) if a.get(k) != b.get(k) and not k.endswith("report.json")
                          and (obs["rc"] == 0 or not k.endswith("stale.txt")))
            if diff:
                ctx.report("cli:tree-differs-from-api", "the command line wrote other files than the equivalent API sequence", {**rep, "differences": diff[:10]})
        if obs["report"] != obs["api"]["report"]:
            ctx.report("cli:report-differs-from-api", "the processed-files report of the command line differs from the API's", {**rep, "cli": obs["report"], "api": obs["api"]["report"]})
        if obs["rc"] == 0 and not sem["options"] and sem["config"] in ("pydjinni.yaml", "good.json", "good.toml"):
            # --clean purges the output directories of exactly the generated targets; without it left-overs stay
            lt = c17.live_targets_cached()
            for t in ("cpp", "java", "yaml"):
                for g in lt[t]:
                    stale = f"{GEN[g]['out']}/stale.txt" in obs["tree"]
                    want = not (sem["clean"] and t in sem["command"]["targets"])
                    if stale != want:
                        ctx.report("cli:clean-semantics", f"--clean={sem['clean']}: left-over file in the output directory of '{g}' is {'kept' if stale else 'gone'}",
                                   {**rep, "generator": g})


def s_first_matches(first, rc) -> bool:
    if first["kind"] == "app":
        return first["code"] == rc
    if first["kind"] == "applist":
        return bool(first["codes"]) and first["codes"][0] == rc
    return False


def replay(ctx, body):
    case = body["case"]
    case["child_env"] = ctx.child_env()
    cfgsys.register("cli", run_case)
    obs, = cfgsys.run_pool(ctx.tmp, [("cli", case)], workers=1)
    m = ctx.driver.one(model_request(case, obs))
    sq = spec_request(case, obs)
    s = ctx.driver.one(sq)
    print(json.dumps(brief(obs), indent=1)[:3000])
    before = len(ctx.violations) + sum(ctx.known_hits.values())
    evaluate(ctx, case, obs, m, sq, s, [])
    return len(ctx.violations) + sum(ctx.known_hits.values()) == before
