"""C19 — CLI exit status follows the documented return-code table; CLI equals API.

Tie: the Lean command-line model (`Sys/Cli.lean`: stage pipeline top-level arguments -> `-o` folding -> configure -> sub-command
lookup -> arguments of `generate` -> parse (readiness, front end) -> lookup of all target names -> generate t1..tn -> report;
`handler` = `main()`'s exception clauses + click's usage errors + interpreter default) is run against real subprocess invocations
`python -m pydjinni ...` over failing/succeeding IDL files x configuration files x `-o` lists (incl. malformed, overwriting) x
target lists (incl. unknown, unconfigured, empty) x `--clean` x `--config None` x malformed command lines. For every invocation
the documented equivalent API sequence `API().configure(...).parse(...).generate(t)....write_processed_files()` is run in-process
on a second copy of the workspace; its per-stage outcomes are the model's parameters (front-end verdict, generator failures,
validation verdict), and its output tree / report is what the CLI's is compared with.

Failing IDL inputs are not a fixed list: a stream of syntactically broken multi-file programs (`idl_stream`: a generated program
with every declaration kind incl. properties, an `@import` and an `@extern`; every single-token deletion, every lost quote, odd and
over-long import paths, C06's token mutations, lost punctuation, stray characters, truncation, bytes that are not UTF-8, very long
lines / identifiers / nesting; in the root file or in the imported one; the IDL argument being a directory) goes through the
in-process API with the steps of `Parser.parse` observed (errors recorded before the visitor runs, how the visitor ends, errors
recorded when it ends), and a stratified selection (every internal-error class first, then one input per mutation kind x file x
outcome class x visitor class in rotation) through the real CLI paired with the API sequence as above. The Lean `frontOf` computes
the front end's verdict from the observed steps (any failure class of the visitor is tolerated once an error is recorded) and is
compared with what `parse` raised.

Malformed configuration files are a stream as well (`config_stream`): a valid configuration written in every file format (YAML / YML /
JSON / TOML, in the serialiser's default and in the other lexical styles of the format) and then broken in 17 ways (cut off, a
punctuation character or quote lost, stray character, doubled or swapped lines, unbalanced bracket, broken escape, trailing comma,
tabs, bytes that are not UTF-8, NUL, blank / scalar / list documents); the verdict of the format's own decoder is the model's
parameter (C17's `configure` table: refused in whatever format => 141); a stratified selection (format x corruption x verdict, the
refused ones first, every format in rotation) goes through the real CLI paired with the API sequence.

Multi-file projects are a stream too (`project_stream`): generated from an import graph — files in sub-directories, imports spelled
relative / through `..` (also where none is needed) / from the working directory / through an include directory / absolutely, one file
reached under several spellings (diamonds), a back edge (circular import), a dangling import — so the class of the project and with it
the documented status (0 / 150 / 2, Lean `specProject`) is known by construction and does not come from the API run; all of them go
through the in-process API, a stratified selection (those off their class first) through the real CLI: status of the class, one C++
header per declaration of every file, every file listed once in the report, CLI = API.

`-o` values are a stream (`option_value_cases`): for the string- and path-typed keys values from the whole alphabet (`=`, `:`, `,`,
blanks, `#`, quotes, brackets, non-ASCII, leading / trailing dots, the empty text; kept inside the workspace); the options dictionary
of the equivalent API call is what the texts denote by the documented format (value = everything after the first `=`), computed by the
generator; the CLI's files — anywhere in the workspace, not only below `out/` — and status are compared with the API run on that
dictionary, and the model's reading of the texts (`foldOptions`) with the dictionary.

Malformed values are a stream as well (`malformed_value_cases`): every kind of malformed value C17 knows (ill-typed, out of an enumeration, a key
that does not exist, a text / key that is not valid Unicode) as one assignment of an otherwise valid configuration, delivered through every
source the command line has — `-o` (raw bytes in `argv` that are not UTF-8 reach Python as lone surrogates), a configuration file of every
format, `pydjinni__…` environment variables, the `.env` file — and in combination with a valid value for the same key in a source of other
precedence. The class is known by construction: the malformed value is in the effective configuration (status 141, the message names the
key, never a traceback) or a source of higher precedence replaces it (status 0, files generated).

Target orders are a stream (`keyword_order_cases`): programs whose field / parameter / method names are one-word identifiers that the
live keyword tables reserve in a proper subset of the target languages (some targets refuse the program with 161, the others generate
it), with every target configured, invoked once per target alone and with the target list in every rotation, reversed and as pairs in both
orders. Across the invocations of one program: the status of `generate x t1 … tn` is the first non-zero status of `generate x ti` (each a
process of its own), 0 if there is none, and the files below `out/` are those of the single-target runs up to the first failing one
(keys `cli:target-order:status`, `cli:target-order:files`); each invocation is also paired with the API sequence like every other.

Specification on the implementation's observations (Lean op `c19.spec` = `specExit`): never a traceback; the exit status is 0
exactly when the API sequence ran through, otherwise the documented code of its first exception (2 for a command line click
refuses); the first message names the file and the (line, column) of the first reported error — for a configuration file its decoder
refuses: names that file —; every diagnostic can be rendered as a message; the CLI writes the same files
(paths and contents, modulo the workspace directory) and the same report as the API sequence.

Translator: `pydjinni.exceptions.return_codes` after loading all plug-ins -> Lean table; obligations: equal to the documented
table, codes distinct, none collides with the traceback status 1, every exception class has the code the model uses.
"""
from __future__ import annotations

import hashlib
import json
import os
import random
import shutil
import subprocess
import sys
import warnings
from pathlib import Path

import common
import cfgsys
from props import c17

LEAN_MODULE = "PydjinniModel.Props.C19"
_T = "Pydjinni.Sys."
THEOREMS = [_T + n for n in [
    "handler_app", "handler_list_first", "handler_usage", "exit_code_is_first_failure", "exit_zero_iff", "exitOf_no_traceback",
    "never_traceback_partial", "never_traceback_counterexample", "exitOf_filter", "eventsOf_filter", "firstRaised_exit",
    "cli_eq_api", "cli_unlisted_target_generates_nothing",
    "front_recorded_error_reported", "front_syntax_error_exit", "front_crash_only_unrecorded",
    "malformed_config_exit", "config_directory_or_missing_exit",
    "project_failure_exit", "project_valid_passes_front", "cli_option_value_verbatim",
    "foldOptions_wf", "unencodable_option_exit", "overridden_file_text_configures",
]]
LEVEL = "proof"
TRUSTED = [
    "click's argument handling (order: group options, group callback, sub-command lookup; chained sub-commands are all looked up before "
    "any runs) is modelled from its documented behaviour and tied by the subprocess runs",
    "generator failures, a refusal of the report path by write_processed_files, and what the front end's phases after the visitor record (resolution, rules), are parameters of the model, taken from the "
    "in-process API run of the same workspace; the steps of Parser.parse are observed by wrapping Parser.visit",
]

PY = "/venv/bin/python"

IDLS = {
    "ok.djinni": ("e = enum { a; b; }\nr = record { x: i32; y: e; }\n", ["enum", "record"]),
    "empty.djinni": ("", []),
    "enum.djinni": ("e = enum { a; b; }\n", ["enum"]),
    "syn.djinni": ("r = record { a: i32 }\n", []),
    "unk.djinni": ("r = record { a: nope; }\n", []),
    "dup.djinni": ("r = record { a: i32; }\nr = record { b: i32; }\n", []),
    "multi.djinni": ("r = record { a: nope; b: nope2; }\ni = interface { static const m(); }\n", []),
    "imp.djinni": ('@import "nope.djinni"\nr = record { a: i32; }\n', []),
    "kw.djinni": ("r = record { class: i32; }\n", ["record"]),
}

# AST classes -> the model's declaration kinds
KIND_OF = {"Enum": "enum", "Flags": "flags", "Record": "record", "Interface": "interface", "Function": "function", "ErrorDomain": "error"}

GEN = {
    "cpp": {"out": "out/cpp"}, "java": {"out": "out/java", "package": "a.b.c"}, "jni": {"out": "out/jni", "namespace": "a::jni"},
    "objc": {"out": "out/objc"}, "objcpp": {"out": "out/objcpp", "namespace": "a::objcpp"}, "cppcli": {"out": "out/cppcli", "namespace": "A::B"},
    "yaml": {"out": "out/yaml"},
}


def gen_cfg(keys, report=True, support=False):
    g = {"support_lib_sources": support}
    if report:
        g["list_processed_files"] = "out/report.json"
    for k in keys:
        g[k] = dict(GEN[k])
    return {"generate": g}


GOOD = gen_cfg(["cpp", "java", "jni", "yaml"])
CONFIGS = {
    "pydjinni.yaml": {"text": cfgsys.to_yaml(GOOD)},
    "good.json": {"text": cfgsys.to_json(GOOD)},
    "good.toml": {"text": cfgsys.to_toml(GOOD)},
    "support.yml": {"text": cfgsys.to_yaml(gen_cfg(["cpp"], support=True))},
    "noreport.yaml": {"text": cfgsys.to_yaml(gen_cfg(["cpp", "yaml"], report=False))},
    "nocpp.yaml": {"text": cfgsys.to_yaml(gen_cfg(["java", "jni"]))},
    "javaonly.yaml": {"text": cfgsys.to_yaml(gen_cfg(["java"]))},
    "nogen.yaml": {"text": cfgsys.to_yaml({"build": {"conan": {}}})},
    "syntax.yaml": {"text": "a: [1"},
    "syntax.json": {"text": "{"},
    "unknownkey.yaml": {"text": "bogus: 1\n"},
    "illtyped.yaml": {"text": cfgsys.to_yaml({"generate": {"cpp": {"out": "out/cpp"}, "include_dirs": [["x"]]}})},
    "empty.yaml": {"text": ""},
    "intkey.yaml": {"text": "1: x\n"},
    "binary.yaml": {"bytes": "a: \xff"},
    "conf.txt": {"text": cfgsys.to_yaml(GOOD)},
    "confdir.yaml": {"dir": True},
}
MISSING_CONFIG = "nothere.yaml"

# option lists: (texts, leaf assignments the texts denote in order | None when some text is malformed)
OPTION_SETS = [
    ([], []),
    (["generate.cpp.out=out/cpp2"], [(("generate", "cpp", "out"), "out/cpp2")]),
    (["generate.objc.out=out/objc", "generate.objcpp.out=out/objcpp"], [(("generate", "objc", "out"), "out/objc"), (("generate", "objcpp", "out"), "out/objcpp")]),
    (["foo"], None),
    (["generate.cpp.out=out/cpp", "nonsense"], None),
    (["generate.cpp.out=x", "generate.cpp.out.header=out/h", "generate.cpp.out.source=out/s"],
     [(("generate", "cpp", "out"), "x"), (("generate", "cpp", "out", "header"), "out/h"), (("generate", "cpp", "out", "source"), "out/s")]),
    (["bogus=1"], [(("bogus",), "1")]),
    (["generate.include_dirs=[a,b]", "generate.default_deriving=[eq]"], [(("generate", "include_dirs"), ["a", "b"]), (("generate", "default_deriving"), ["eq"])]),
    (["generate.cpp.header_extension=hh", "generate.cpp.header_extension=hxx"], [(("generate", "cpp", "header_extension"), "hh"), (("generate", "cpp", "header_extension"), "hxx")]),
    (["generate.support_lib_sources=maybe"], [(("generate", "support_lib_sources"), "maybe")]),
    (["generate.cpp.out=out/cpp", "generate.list_processed_files=out/report.json", "generate.support_lib_sources=false"],
     [(("generate", "cpp", "out"), "out/cpp"), (("generate", "list_processed_files"), "out/report.json"), (("generate", "support_lib_sources"), "false")]),
    (["generate.java.out=out/java", "generate.java.package=a.b.c", "generate.jni.out=out/jni", "generate.jni.namespace=a::jni", "generate.support_lib_sources=false"],
     [(("generate", "java", "out"), "out/java"), (("generate", "java", "package"), "a.b.c"), (("generate", "jni", "out"), "out/jni"),
      (("generate", "jni", "namespace"), "a::jni"), (("generate", "support_lib_sources"), "false")]),
]
TARGET_LISTS = [["cpp"], ["cpp", "java"], ["java", "cpp"], ["yaml"], ["cpp", "java", "yaml"], ["objc"], ["cpp", "objc"], ["objc", "cpp"],
                ["bogus"], ["cpp", "bogus"], ["bogus", "cpp"], ["jni"], [], ["java"], ["cppcli"]]


def ref_fold(leaves):
    """reference semantics of successive assignments (later wins, a scalar gives way to nested keys)"""
    out = {}
    for path, v in leaves:
        d = out
        for k in path[:-1]:
            if not isinstance(d.get(k), dict):
                d[k] = {}
            d = d[k]
        d[path[-1]] = v
    return out


def make_case(idl, config, optset, targets, clean, shape="generate", top=None, log=None, extra_env=None):
    """shape: generate | no-command | unknown-command | no-idl | bad-generate-option | bad-top-option | target-option"""
    texts, leaves = optset
    args = []
    if top:
        args += [top]
    if log:
        args += ["--log-level", log]
    for t in texts:
        args += ["-o", t]
    if config is not None:
        args += ["--config", config]
    sem = {"top_ok": top is None and log in (None, "debug", "info", "warn", "error", "DEBUG"), "options": texts,
           "opt_dict": ref_fold(leaves) if leaves is not None else None,
           "config": config if config is not None else "pydjinni.yaml", "idl": idl, "clean": clean, "targets": targets, "shape": shape,
           "debug": (log or "").lower() == "debug"}
    if shape == "no-command":
        sem["command"] = {"kind": "none"}
    elif shape == "unknown-command":
        args += ["frobnicate", idl]
        sem["command"] = {"kind": "unknown"}
    else:
        args += ["generate"]
        if clean:
            args += ["--clean"]
        if shape == "bad-generate-option":
            args += ["--nonsense"]
        if shape != "no-idl":
            args += [idl]
        args += targets
        if shape == "target-option":
            args += ["--nonsense"]
        ok = shape == "generate"
        sem["command"] = {"kind": "generate", "args_ok": ok or (shape == "target-option"), "clean": clean,
                          "targets": targets if shape != "no-idl" else []}
        if shape == "target-option":
            sem["command"]["targets"] = targets + ["--nonsense"]   # an option no target command knows: refused when the targets are looked up
        if shape == "no-idl" and targets:
            # the first word after `generate` is taken as the IDL argument
            sem["idl"] = targets[0]
            sem["command"] = {"kind": "generate", "args_ok": True, "clean": clean, "targets": targets[1:]}
    return {"args": args, "sem": sem, "env": extra_env or {}}


def build_cases(ctx):
    cases = []
    good = [("ok.djinni", None), ("ok.djinni", "good.json"), ("ok.djinni", "good.toml")]
    none = OPTION_SETS[0]
    # one invocation per failure class and stage
    for idl in IDLS:
        cases.append(make_case(idl, None, none, ["cpp"], False))
    cases.append(make_case("missing.djinni", None, none, ["cpp"], False))
    thorough_only_cfg = {"good.toml", "syntax.json", "none", "False", "conf.txt"} if ctx.quick else set()
    for cfg in list(CONFIGS) + [MISSING_CONFIG, "None", "none", "False"]:
        if cfg not in thorough_only_cfg:
            cases.append(make_case("ok.djinni", cfg, none, ["cpp"], False))
    for j, o in enumerate(OPTION_SETS[1:]):
        if not (ctx.quick and j + 1 in (4, 8, 9)):
            cases.append(make_case("ok.djinni", None, o, ["cpp"], False))
    for o in (OPTION_SETS[10], OPTION_SETS[11], OPTION_SETS[3]):
        cases.append(make_case("ok.djinni", "None", o, ["cpp"] if o is not OPTION_SETS[11] else ["java"], False))
    cases.append(make_case("ok.djinni", "empty.yaml", OPTION_SETS[10], ["cpp"], False))
    for ts in TARGET_LISTS:
        if not (ctx.quick and ts in (["cpp", "java", "yaml"], ["objc", "cpp"], ["bogus", "cpp"], ["cppcli"], ["java"], ["cpp"])):
            cases.append(make_case("ok.djinni", None, none, ts, False))
    for ts in (["cpp"], ["cpp", "java"], ["objc"], ["objc", "cpp"], ["yaml"]):
        if not (ctx.quick and ts in (["cpp"], ["yaml"])):
            cases.append(make_case("ok.djinni", None, none, ts, True))
    cases.append(make_case("ok.djinni", "nocpp.yaml", none, ["java"], True))
    cases.append(make_case("enum.djinni", "nocpp.yaml", none, ["java"], False))
    cases.append(make_case("empty.djinni", "nocpp.yaml", none, ["java"], False))
    cases.append(make_case("kw.djinni", None, none, ["yaml", "cpp", "java"], False))
    cases.append(make_case("ok.djinni", "support.yml", none, ["cpp"], True))
    cases.append(make_case("ok.djinni", "noreport.yaml", none, ["cpp", "yaml"], False))
    for shape in ("no-command", "unknown-command", "no-idl", "bad-generate-option", "target-option"):
        cases.append(make_case("ok.djinni", None, none, ["cpp"], False, shape=shape))
        if not (ctx.quick and shape in ("no-command", "target-option")):
            cases.append(make_case("ok.djinni", "syntax.yaml", OPTION_SETS[3], ["cpp"], False, shape=shape))
    cases.append(make_case("ok.djinni", None, none, ["cpp"], False, top="--nonsense"))
    cases.append(make_case("ok.djinni", "syntax.yaml", none, ["cpp"], False, top="--nonsense"))
    cases.append(make_case("ok.djinni", None, none, ["cpp"], False, log="loud"))
    cases.append(make_case("ok.djinni", None, none, ["cpp"], False, log="debug"))
    cases.append(make_case("kw.djinni", None, none, ["cpp", "bogus"], True, log="debug"))
    cases.append(make_case("syn.djinni", None, none, ["bogus"], False))
    cases.append(make_case("syn.djinni", "javaonly.yaml", none, ["java"], False))
    cases.append(make_case("ok.djinni", None, none, ["cpp"], False, extra_env={"pydjinni__generate__yaml__out": "out/envyaml"}))
    cases.append(make_case("ok.djinni", "noreport.yaml", none, ["yaml"], False, extra_env={"PYDJINNI__GENERATE__YAML__OUT": "out/envyaml"}))
    for i, c in enumerate(cases):
        c["label"] = f"fixed/{i}"
    # random combinations
    idls = list(IDLS) + ["missing.djinni"]
    cfgs = [None, None, None, "good.json", "good.toml", "nocpp.yaml", "javaonly.yaml", "nogen.yaml", "syntax.yaml", "unknownkey.yaml",
            "illtyped.yaml", "empty.yaml", "conf.txt", "confdir.yaml", MISSING_CONFIG, "None", "noreport.yaml", "binary.yaml"]
    for i in range(ctx.n(10, 500)):
        r = random.Random(f"{ctx.seed}/c19/{i}")
        shape = r.choice(["generate"] * 8 + ["no-command", "unknown-command", "no-idl", "bad-generate-option", "target-option"])
        c = make_case(r.choice(idls if r.random() < 0.5 else ["ok.djinni"]), r.choice(cfgs), r.choice(OPTION_SETS if r.random() < 0.6 else [none]),
                      r.choice(TARGET_LISTS), r.random() < 0.3, shape=shape,
                      top="--nonsense" if r.random() < 0.04 else None, log=r.choice([None, None, None, "debug", "error", "loud"]))
        c["label"] = f"random/{i}"
        cases.append(c)
    return cases


# --------------------------------------------------------------------------------------------
# stream of syntactically broken IDL inputs (the property quantifies over ALL failing IDL inputs)
# --------------------------------------------------------------------------------------------
# A valid multi-file program that contains every declaration kind is generated, then broken: token-level mutations (those of
# C06: delete / duplicate / swap / truncate / insert / replace; every single-token deletion systematically), character-level
# ones (a punctuation character lost, a quote lost, a stray character, truncation at any offset, bytes that are not UTF-8),
# very long lines / identifiers / nesting, and import / extern paths that are long, odd or point at the wrong kind of thing;
# in the root file or in the imported one. All of them go through the in-process API (cheap) with the steps of `Parser.parse`
# observed; a stratified selection (every outcome class per mutation kind, every internal error) goes through the real CLI.

_WORDS = ["alpha", "beta", "gamma", "delta", "item", "value", "count", "name", "kind", "state", "total", "index", "origin", "target"]
_PRIMS = ["i8", "i16", "i32", "i64", "f32", "f64", "bool", "string", "binary", "date"]
ROOT_IDL, LIB_IDL = "m.djinni", "lib.djinni"


def _comment(r, indent="", long=None, quoted=None):
    """documentation comment lines; now and then a very long line, now and then a quoted word"""
    out = ""
    for _ in range(r.choice([0, 0, 1, 1, 2]) if long is None else 1):
        n = (r.choice([3, 6, 12]) if r.random() < 0.8 else r.choice([60, 120])) if long is None else (80 if long else 5)
        words = [r.choice(_WORDS) for _ in range(n)]
        if quoted or (quoted is None and long is None and r.random() < 0.15):
            k = r.randrange(len(words))
            words[k] = f'"{words[k]}"'
        out += indent + "# " + " ".join(words) + "\n"
    return out


def rich_program(r: random.Random) -> dict:
    """a valid program with every declaration kind (enum, flags, error domain, records with targets and deriving, named
    function, interfaces with static / const / async methods, throws clauses and properties, nested namespaces), every type
    form (primitives, optionals, generics, inline functions, references into the imported file), comments on every level (one
    very long line right after the loads, a quoted word further down), an `@import` of a sibling file that itself declares
    an interface with a property, and an `@extern`. -> {file name: text}; the root is `m.djinni`"""
    def name(prefix):
        return f"{prefix}_{r.choice(_WORDS)}"

    def ty(depth=0, refs=()):
        m = r.random()
        if m < 0.45 or depth > 1:
            t = r.choice(_PRIMS + list(refs))
        elif m < 0.6:
            t = f"list<{ty(depth + 1, refs)}>"
        elif m < 0.7:
            t = f"set<{r.choice(['i32', 'string'])}>"
        elif m < 0.85:
            t = f"map<{r.choice(['i32', 'string'])}, {ty(depth + 1, refs)}>"
        else:
            t = r.choice(_PRIMS)
        return t + ("?" if r.random() < 0.25 else "")

    lib_rec, lib_enum, lib_if = "lib_point", "lib_mode", "lib_service"
    lib = (_comment(r) + f"{lib_enum} = enum {{ on; off; }}\n"
           + _comment(r) + f"{lib_rec} = record {{\n{_comment(r, '    ')}    x: i32; y: {ty()};\n}}\n"
           + f"{lib_if} = interface +cpp {{\n{_comment(r, '    ')}    property level: {ty()};\n    get() -> {lib_rec};\n}}\n")
    e_name, f_name, err_name, fn_name = name("e"), name("f"), name("err"), name("fn")
    recs = [f"r{i}_{w}" for i, w in enumerate(r.sample(_WORDS, r.choice([1, 2])))]
    ifs = [f"i{i}_{w}" for i, w in enumerate(r.sample(_WORDS, r.choice([1, 2])))]
    data = [e_name, f_name, lib_rec, lib_enum]
    out = f'@import "{LIB_IDL}"\n@extern "ext.yaml"\n'
    out += _comment(r, long=True, quoted=False) + f"{e_name} = enum {{\n" + "".join(
        _comment(r, "    ") + f"    {w};\n" for w in r.sample(_WORDS, r.choice([1, 3]))) + "}\n"
    out += _comment(r, long=False, quoted=True) + f"{f_name} = flags {{ " + " ".join(f"{w};" for w in r.sample(_WORDS, 2)) + " nothing = none; everything = all; }\n"
    out += _comment(r) + f"{err_name} = error {{\n    plain;\n" + _comment(r, "    ") + f"    detailed(reason: string code: {r.choice(['i32', 'i64'])});\n}}\n"
    for i, rn in enumerate(recs):
        out += _comment(r) + f"{rn} = record{r.choice(['', '', ' +cpp +java', ' +cpp'])} {{\n"
        for w in r.sample(_WORDS, r.choice([1, 2, 4])):
            out += _comment(r, "    ") + f"    {w}: {ty(refs=data + recs[:i])};\n"
        out += "}" + r.choice(["", "", " deriving (eq)", " deriving(eq)"]) + "\n"
    out += _comment(r) + f"ordered = record {{ major: i32; minor: {r.choice(['i64', 'string', 'f64'])}; }} deriving (eq, ord)\n"
    out += _comment(r) + (f"{fn_name} = {r.choice(['', 'function +cpp '])}(a: {ty(refs=data)}, b: i32) "
                          f"{r.choice(['', f'throws {err_name} '])}-> {ty(refs=data)};\n")
    out += "namespace outer.inner {\n"
    for j, iname in enumerate(ifs):
        out += _comment(r, "    ") + f"    {iname} = {'main ' if j == 0 else ''}interface +cpp {{\n"
        out += _comment(r, "        ") + f"        static create() -> {iname};\n"
        out += f"        const peek(key: string, cb: (v: {r.choice(_PRIMS)}) -> bool) -> {ty(refs=data + recs)};\n"
        out += f"        async load(id: i64) throws {err_name} -> {recs[0]};\n"
        out += "        plain();\n"
        for w in r.sample(_WORDS, r.choice([1, 2])):
            out += _comment(r, "        ") + f"        property {w}: {ty(refs=data + recs)};\n"
        out += "    }\n"
    out += "    namespace deeper {\n        leaf = record { svc: i32; }\n    }\n}\n"
    return {ROOT_IDL: out, LIB_IDL: lib, "ext.yaml": "name: ext_thing\nprimitive: record\n"}


PUNCT = '"{}();:,<>=#@?+-.'
STRAY = ['"', "'", "`", "$", "\\", "\x00", "\x7f", "\x1b", "é", "€", "\u202e", "\ufeff", "\t", "\r", "\x0c", "}", ")", ">", "{", "(", "<", "*", "%",
         "!", "/", "|", "~", "^", "&", "[", "]", ";", ":", ",", "=", "#", "@", "?", "+", "-", "."]
BAD_BYTES = [b"\xff", b"\xfe\xff", b"\xc3\x28", b"\x80", b"\xe2\x82", b"\xf0\x9f\x98", b"\xed\xa0\x80", b"\xc0\xaf"]
ODD_PATHS = ["a" * 255 + ".djinni", "a" * 300, "a" * 5000 + ".djinni", "d/" * 200 + "x.djinni", "d/" * 3000 + "x.djinni", "x" * 255, "", ".", "..", "/", "out",
             LIB_IDL + "/", LIB_IDL + "/x", "nul\x00byte.djinni", "new\nline.djinni", "./././" + LIB_IDL, ROOT_IDL, "~/x.djinni", "é€.djinni", "%41.djinni",
             "a\\b.djinni", " " + LIB_IDL, LIB_IDL + " ", LIB_IDL.upper(), "/dev/null", "ext.yaml", "nothere/" + LIB_IDL, "../" + LIB_IDL]
MUTATIONS = ["c06", "c06", "tok-delete", "tok-delete", "char-delete", "unquote", "stray", "truncate", "bytes", "long", "path"]


def sig_tokens(text: str):
    """(tokens, indices of those that are not white space)"""
    from props import c06
    toks = c06.tokens_of(text)
    return toks, [i for i, t in enumerate(toks) if t.strip()]


def mutate_text(r: random.Random, text: str, kind: str | None = None, at: int | None = None):
    """one mutation of an IDL text -> (text | bytes, kind); `at` addresses the k-th site of the systematic kinds"""
    from props import c06
    kind = kind or r.choice(MUTATIONS)
    if kind == "c06":
        t, k = c06.mutate(r, text)
        return t, "c06-" + k
    if kind == "tok-delete":
        toks, sig = sig_tokens(text)
        if not sig:
            return text, "none"
        del toks[sig[at % len(sig)] if at is not None else r.choice(sig)]
        return "".join(toks), kind
    if kind in ("char-delete", "unquote"):
        pos = [i for i, c in enumerate(text) if c in (PUNCT if kind == "char-delete" else '"')]
        if not pos:
            return text, "none"
        i = pos[at % len(pos)] if at is not None else r.choice(pos)
        return text[:i] + text[i + 1:], kind
    if kind == "stray":
        i = r.randrange(len(text) + 1)
        return text[:i] + r.choice(STRAY) + text[i:], kind
    if kind == "truncate":
        return text[:r.randrange(len(text) + 1)], kind
    if kind == "bytes":
        raw = text.encode()
        i = r.randrange(len(raw) + 1)
        return raw[:i] + r.choice(BAD_BYTES) + raw[i:], kind
    if kind == "long":
        toks = c06.tokens_of(text)
        n = r.choice([300, 1000, 5000, 20000])
        filler = r.choice(["a" * n, "a." * (n // 2), " " * n, "#" + "c" * n, "\n" * n, "ab " * (n // 3), "<" * min(n, 300), "(" * min(n, 300), "{" * min(n, 300)])
        toks.insert(r.randrange(len(toks) + 1), filler)
        return "".join(toks), kind
    if kind == "path":
        import re
        ms = list(re.finditer(r'"[^"\n]*"', text))
        path = ODD_PATHS[at % len(ODD_PATHS)] if at is not None else r.choice(ODD_PATHS)
        if not ms:
            return f'@import "{path}"\n' + text, kind
        m = ms[0] if at is not None else r.choice(ms)
        return text[:m.start()] + '"' + path + '"' + text[m.end():], kind
    raise ValueError(kind)


def broken_idl(r: random.Random, base: dict | None = None, kind: str | None = None, at: int | None = None, where: str | None = None) -> dict:
    """{'files': {name: text | {'bytes_hex'}}, 'mut': kind(s), 'where': mutated file}"""
    files = dict(base if base is not None else rich_program(r))
    where = where or (LIB_IDL if r.random() < 0.25 else ROOT_IDL)
    t, k = mutate_text(r, files[where], kind, at)
    if isinstance(t, str) and at is None and r.random() < 0.25:
        t, k2 = mutate_text(r, t)
        k += "+" + k2
    files[where] = t if isinstance(t, str) else {"bytes_hex": t.hex()}
    return {"files": files, "mut": k, "where": where}


def idl_stream(ctx) -> list[dict]:
    out = []
    # systematic part: one base program; every single-token deletion, every lost quote, every odd path — in the root and in the imported file
    base = rich_program(random.Random(f"{ctx.seed}/c19/idl/base"))
    out.append({"files": dict(base), "mut": "none", "where": ROOT_IDL})
    for where in (ROOT_IDL, LIB_IDL):
        _, sig = sig_tokens(base[where])
        sites = [("tok-delete", len(sig)), ("unquote", base[where].count('"')), ("path", len(ODD_PATHS))]
        for kind, n in sites:
            ks = range(n)
            if where == LIB_IDL and kind == "path" and ctx.quick:
                ks = range(ctx.seed % 4, n, 4)
            for k in ks:
                out.append(broken_idl(random.Random(f"{ctx.seed}/c19/idl/{where}/{kind}/{k}"), base=base, kind=kind, at=k, where=where))
    # the root "file" is a directory / the imported one is
    out.append({"files": {**base, ROOT_IDL: {"dir": True}}, "mut": "root-is-directory", "where": ROOT_IDL})
    out.append({"files": {**base, LIB_IDL: {"dir": True}}, "mut": "import-is-directory", "where": LIB_IDL})
    # random part: fresh programs, all mutation kinds, double mutations
    for i in range(ctx.n(500, 6000)):
        out.append(broken_idl(random.Random(f"{ctx.seed}/c19/idl/r/{i}")))
    return out


# --------------------------------------------------------------------------------------------
# stream of malformed configuration files (the property quantifies over ALL config files, incl. malformed ones, of every format)
# --------------------------------------------------------------------------------------------
# A valid configuration is written in each file format (YAML / YML / JSON / TOML; the serialiser's default and the other lexical
# styles of the format) and then broken: cut off anywhere, a punctuation character or a quote lost, a stray character, a line
# doubled (a duplicate key / table) or two lines swapped, an unbalanced bracket, a broken escape, a trailing comma, white space
# turned into tabs, bytes that are not UTF-8, nothing but white space, a scalar or a list as document. What the format's own
# decoder (an assumed component) says about the result (`c17.classify_file`) is the model's parameter; a stratified selection (format x
# corruption x verdict, the refused ones first) goes through the real CLI paired with the API sequence.

CONFIG_MUTATIONS = ["truncate", "truncate-line", "char-delete", "unquote", "stray", "dup-line", "swap-lines", "unbalanced", "bad-escape", "trailing-comma",
                    "tabs", "bytes", "blank", "scalar-document", "list-document", "unterminated-string", "nul"]
CONFIG_PUNCT = '{}[]:,"\'=.-#\n'


def mutate_config(r: random.Random, text: str, fmt: str, kind: str):
    """one corruption of a configuration text -> text | bytes"""
    lines = text.split("\n")
    full = [i for i, l in enumerate(lines) if l.strip()]
    if kind == "truncate":
        return text[:r.randrange(1, max(2, len(text)))]
    if kind == "truncate-line":
        i = r.choice(full)
        return "\n".join(lines[:i] + [lines[i][:r.randrange(1, len(lines[i]) + 1)]])
    if kind in ("char-delete", "unquote"):
        pos = [i for i, c in enumerate(text) if c in (CONFIG_PUNCT if kind == "char-delete" else "\"'")]
        if not pos:
            return text + '"'
        i = r.choice(pos)
        return text[:i] + text[i + 1:]
    if kind == "stray":
        i = r.randrange(len(text) + 1)
        return text[:i] + r.choice(STRAY) + text[i:]
    if kind == "dup-line":
        i = r.choice(full)
        return "\n".join(lines[:i + 1] + [lines[i]] + lines[i + 1:])
    if kind == "swap-lines":
        if len(full) < 2:
            return text[::-1]
        i, j = r.sample(full, 2)
        lines[i], lines[j] = lines[j], lines[i]
        return "\n".join(lines)
    if kind == "unbalanced":
        i = r.randrange(len(text) + 1)
        return text[:i] + r.choice("{}[]") + text[i:]
    if kind == "bad-escape":
        pos = [i for i, c in enumerate(text) if c.isalnum()]
        i = r.choice(pos) if pos else 0
        esc = r.choice(["\\x", "\\u12", "\\", "\\q", "\\U0011", "\\ud800"])
        quoted = text[:i] + esc + text[i:]
        return quoted if fmt != "yaml" and fmt != "yml" else text[:i] + '"' + esc + '"' + text[i:]
    if kind == "trailing-comma":
        pos = [i for i, c in enumerate(text) if c in "}]\n"]
        i = r.choice(pos) if pos else len(text)
        return text[:i] + "," + text[i:]
    if kind == "tabs":
        i = r.choice(full)
        l = lines[i]
        lines[i] = "\t" + l.lstrip(" ") if l.startswith(" ") or r.random() < 0.5 else l.replace(" ", "\t", 1)
        return "\n".join(lines)
    if kind == "bytes":
        raw = text.encode()
        i = r.randrange(len(raw) + 1)
        return raw[:i] + r.choice(BAD_BYTES) + raw[i:]
    if kind == "blank":
        return r.choice(["", " ", "\n\n", "\t\n", "# nothing\n", "\ufeff"])
    if kind == "scalar-document":
        return r.choice(["hello", "3", "null", "true", '"text"', "~", "3.5", "'x'"]) + r.choice(["", "\n"])
    if kind == "list-document":
        return r.choice(["- a\n- b\n", "[1, 2]", "[]", '["generate"]', "[[generate]]\ncpp = 1\n"])
    if kind == "unterminated-string":
        pos = [i for i, l in enumerate(lines) if l.rstrip().endswith(('"', "'"))]
        if not pos:
            return text + ' "'
        i = r.choice(pos)
        lines[i] = lines[i].rstrip()[:-1]
        return "\n".join(lines)
    if kind == "nul":
        i = r.randrange(len(text) + 1)
        return text[:i] + "\x00" + text[i:]
    raise ValueError(kind)


def config_spec(name: str, content) -> dict:
    """a file of `case['files']` as the file description of `c17.classify_file` / `cfgsys.write_file`"""
    if isinstance(content, str):
        return {"name": name, "text": content}
    if content.get("dir"):
        return {"name": name, "dir": True}
    return {"name": name, "bytes": bytes.fromhex(content["bytes_hex"]).decode("latin-1")}


def classify_config(spec: dict | None) -> dict:
    """`c17.classify_file` with a document the driver's JSON reader can take (dates and the like as text)"""
    c = c17.classify_file(spec)
    if "doc" in c:
        c["doc"] = json.loads(json.dumps(c["doc"], default=str))
    return c


def config_stream(ctx) -> list[dict]:
    """{'name', 'content' (text | {'bytes_hex'}), 'fmt', 'mut', 'class'}; element 0.. are unbroken styled texts"""
    out = []
    trees = [GOOD, gen_cfg(["cpp"]), gen_cfg(["cpp", "objc", "objcpp"], report=False), gen_cfg(["cpp", "cppcli", "yaml"])]
    fmts = ["yaml", "yml", "json", "toml"]

    def base_text(r, fmt):
        tree = r.choice(trees)
        style = r.choice(sorted(cfgsys.STYLES[fmt])) if r.random() < 0.6 else None
        text = cfgsys.styled(tree, fmt, style) if style else None
        return (text, style) if text is not None else (dict(c17.FORMATS)[fmt](tree), None)
    # unbroken, in some lexical style of the format: one per format and run
    for k, fmt in enumerate(("yaml", "json", "toml")):
        styles = sorted(cfgsys.STYLES[fmt])
        style = styles[(ctx.seed * 3 + k) % len(styles)]
        text = cfgsys.styled(GOOD, fmt, style)
        if text is not None:
            out.append({"name": f"styled.{fmt}", "content": text, "fmt": fmt, "mut": "none~" + style})
    n = ctx.n(6, 40)
    for fmt in fmts:
        for kind in CONFIG_MUTATIONS:
            for j in range(n):
                r = random.Random(f"{ctx.seed}/c19/cfg/{fmt}/{kind}/{j}")
                text, style = base_text(r, fmt)
                m = mutate_config(r, text, fmt, kind)
                if isinstance(m, str) and r.random() < 0.15:
                    m2 = mutate_config(r, m, fmt, r.choice(CONFIG_MUTATIONS[:11])) if m.strip() else m
                    m = m2
                if isinstance(m, str):
                    try:
                        m.encode("utf-8")
                    except UnicodeEncodeError:
                        continue
                out.append({"name": f"broken.{fmt}", "content": m if isinstance(m, str) else {"bytes_hex": m.hex()}, "fmt": fmt, "mut": kind})
    for c in out:
        try:
            cl = classify_config(config_spec(c["name"], c["content"]))
            json.dumps(cl, allow_nan=False)
            c["class"] = cl.get("content", cl["state"])
        except Exception as e:  # noqa  (a document the model's JSON reader cannot take, e.g. NaN: not part of the stream)
            c["class"] = None
    return [c for c in out if c["class"] is not None]


def broken_config_cases(ctx) -> list[dict]:
    """the command lines for a stratified selection of the stream: every (format, corruption, decoder verdict) class in rotation, the
    files the decoder refuses first; some with `-o` options, several targets, `--clean`"""
    stream = config_stream(ctx)
    groups: dict = {}
    for i, c in enumerate(stream):
        ctx.stat(f"cfg_{c['fmt']}_{c['class']}")
        groups.setdefault((c["class"] == "mapping" and not c["mut"].startswith("none"), c["fmt"], c["mut"].split("~")[0], c["class"]), []).append(i)
    ctx.stats["config_stream_inputs"] = len(stream)
    ctx.stats["config_stream_classes"] = len(groups)
    refused = [k for k in sorted(groups) if not k[0]]
    accepted = [k for k in sorted(groups) if k[0]]
    rr = random.Random(f"{ctx.seed}/c19/cfg/select")
    rr.shuffle(refused)
    rr.shuffle(accepted)
    # round robin over the formats, so that every format is met with several corruption kinds whatever the budget
    by_fmt = {f: [k for k in refused if k[1] == f] for f in ("yaml", "yml", "json", "toml")}
    order = []
    while any(by_fmt.values()):
        for f in ("toml", "json", "yaml", "yml"):
            if by_fmt[f]:
                order.append(by_fmt[f].pop())
    budget, budget_ok = ctx.n(36, 500), ctx.n(5, 80)
    chosen = [groups[k][0] for k in order[:budget]] + [groups[k][0] for k in accepted[:budget_ok]]
    if not ctx.quick:
        chosen += [i for k in order for i in groups[k][1:3]]
    cases = []
    for i in sorted(set(chosen)):
        c = stream[i]
        r = random.Random(f"{ctx.seed}/c19/cfg/cli/{i}")
        opts = OPTION_SETS[0] if r.random() < 0.75 else r.choice([OPTION_SETS[1], OPTION_SETS[3], OPTION_SETS[10]])
        case = make_case("ok.djinni", c["name"], opts, r.choice([["cpp"], ["cpp"], ["cpp", "java"], ["yaml"]]), r.random() < 0.2)
        case["files"] = {c["name"]: c["content"]}
        case["label"] = f"config/{i}/{c['mut']}@{c['fmt']}:{c['class']}"
        ctx.count(key=("config", c["fmt"], c["mut"].split("~")[0], c["class"]), nontrivial=c["class"] != "mapping",
                  sample={"mutation": c["mut"], "format": c["fmt"], "decoder": c["class"]})
        cases.append(case)
    return cases


# --------------------------------------------------------------------------------------------
# stream of multi-file projects (the IDL input of a real invocation is a *project*: imports in sub-directories, `..` spellings, one
# file reached under several spellings, include directories, cycles, dangling imports)
# --------------------------------------------------------------------------------------------
# A project is generated from its import graph, so its class is known by construction, independently of the implementation:
# `valid` (acyclic, every import resolves: status 0, every declaration of every file generated once, every file listed once in the
# report), `cycle` (one back edge: status 150, IDL parsing error at the directive), `missing` (one dangling import: status 2).
# Every import is spelled in one of the ways a path can be written (`SPELLINGS`); the generator checks with the documented search
# order (as written from the working directory, next to the importing file, include directories) that the spelling denotes the
# intended file. All projects go through the in-process API (level 1); a stratified selection — the ones whose outcome is not the
# one of their class first — through the real CLI paired with the API sequence, like every other invocation.

PROJECT_DIRS = ["", "", "common", "feature", "feature/detail", "lib", "inc/lib", "inc"]
SPELLINGS = ["dotdot", "updown", "cwdup", "rel", "rel", "dot", "cwd", "inc", "inc", "abs"]
PROJECT_CODE = {"valid": 0, "cycle": 150, "missing": 2}


def _walk(files, dirs, base: str, path: str):
    """follow `path` from directory `base` of the project the way the file system does -> the file reached | None"""
    cur = [c for c in base.split("/") if c]
    if path.startswith("{WS}/"):
        cur, path = [], path[5:]
    elif path.startswith("/"):
        return None
    comps = path.split("/")
    for i, c in enumerate(comps):
        last = i == len(comps) - 1
        if c in ("", "."):
            if last:
                return None
            continue
        if c == "..":
            if not cur or last:
                return None             # leaves the project / denotes a directory
            cur.pop()
            continue
        cur.append(c)
        p = "/".join(cur)
        if last:
            return p if p in files else None
        if p not in dirs:
            return None
    return None


def resolve_import(files, dirs, importer_dir: str, inc_dirs, path: str):
    """the documented search order: as written (from the working directory), next to the importing file, the include directories"""
    for base in [""] + [importer_dir] + list(inc_dirs):
        t = _walk(files, dirs, base, path)
        if t is not None:
            return t
    return None


def spell_import(kind: str, importer_dir: str, target: str, inc_dirs):
    """the text of an `@import` of `target` (path from the project root) written in a file of `importer_dir`; None: not expressible"""
    import posixpath
    rel = posixpath.relpath(target, importer_dir or ".")
    if kind == "rel":
        return rel
    if kind == "dot":
        return "./" + rel
    if kind == "dotdot":     # out of the importer's directory and back in: a `..` segment also where none is needed
        return f"../{posixpath.basename(importer_dir)}/{rel}" if importer_dir else None
    if kind == "updown":     # into the first directory on the way, out again, then the path
        first = rel.split("/")[0]
        return f"{first}/../{rel}" if "/" in rel and first != ".." else None
    if kind == "cwd":        # from the working directory (the first candidate of the search)
        return target
    if kind == "cwdup":
        first = target.split("/")[0]
        return f"{first}/../{target}" if "/" in target else None
    if kind == "inc":
        for inc in inc_dirs:
            if target.startswith(inc + "/"):
                return target[len(inc) + 1:]
        return None
    if kind == "abs":
        return "{WS}/" + target
    raise ValueError(kind)


def make_project(r: random.Random, intent: str) -> dict:
    n = r.randint(2, 5)
    inc_dirs = ["inc"] if r.random() < 0.45 else []
    pool = [d for d in PROJECT_DIRS if inc_dirs or not d.startswith("inc")]
    fdir = ["app" if r.random() < 0.2 else ""] + [r.choice(pool) for _ in range(n - 1)]
    path = [(fdir[i] + "/" if fdir[i] else "") + ("main.djinni" if i == 0 else f"f{i}.djinni") for i in range(n)]
    edges = []
    for j in range(1, n):
        edges += [(i, j) for i in sorted(r.sample(range(j), min(j, r.choice([1, 1, 2]))))]
    if n >= 3 and r.random() < 0.5:        # a diamond: the last file is reached along two paths
        edges = sorted(set(edges) | {(0, n - 1), (n - 2, n - 1)})
    back = None
    if intent == "cycle":
        j = r.randrange(n)
        anc, todo = {j}, [j]
        while todo:
            u = todo.pop()
            for a, b in edges:
                if b == u and a not in anc:
                    anc.add(a)
                    todo.append(a)
        back = (j, r.choice(sorted(anc)))
    files = {p: "" for p in path}
    spare = r.random() < 0.3
    if spare:
        files["spare/f9.djinni"] = "t1 = record { w: i32; }\n"     # never imported: loading it would declare `t1` twice
    dirs = {"/".join(p.split("/")[:k]) for p in files for k in range(1, len(p.split("/")))}
    spelled, used = {}, {}
    for (a, b) in edges + ([back] if back else []):
        kinds = r.sample(SPELLINGS, len(SPELLINGS))
        kinds.sort(key=lambda k: k in used.get(b, ()))          # a file with several importers: another spelling each time
        for k in kinds:
            text = spell_import(k, fdir[a], path[b], inc_dirs)
            if text is not None and resolve_import(files, dirs, fdir[a], inc_dirs, text) == path[b]:
                spelled[(a, b)] = (k, text)
                used.setdefault(b, set()).add(k)
                break
        else:
            spelled[(a, b)] = ("abs", "{WS}/" + path[b])
    missing = None
    if intent == "missing":
        a = r.randrange(n)
        gone = r.choice(["gone.djinni", "nowhere/gone.djinni", "../gone.djinni", "common/../gone.djinni", "./gone.djinni", "f1.djinni.bak"])
        if resolve_import(files, dirs, fdir[a], inc_dirs, gone) is None:
            missing = (a, gone)
        else:
            missing = (a, "gone_for_good.djinni")
    decls = []
    for i in range(n):
        lines = [f'@import "{spelled[e][1]}"' for e in spelled if e[0] == i]
        r.shuffle(lines)
        if missing and missing[0] == i:
            lines.insert(r.randrange(len(lines) + 1), f'@import "{missing[1]}"')
        body = [f"t{i} = record {{ v: i32; }}", f"e{i} = enum {{ a; b; }}"]
        decls += [f"t{i}", f"e{i}"]
        refs = [b for a, b in edges if a == i]
        if refs:
            body.append(f"h{i} = record {{ " + " ".join(f"r{b}: t{b};" for b in refs) + " }")
            decls.append(f"h{i}")
        files[path[i]] = "\n".join(lines + body) + "\n"
    return {"files": files, "root": path[0], "include_dirs": inc_dirs, "intent": intent, "decls": sorted(decls), "reach": sorted(path),
            "meta": {"n": n, "edges": edges, "back": back, "missing": missing, "dirs": fdir, "spare": spare,
                     "spellings": {f"{a}>{b}": list(v) for (a, b), v in spelled.items()}}}


def project_stream(ctx) -> list[dict]:
    out = []
    for i in range(ctx.n(160, 2500)):
        r = random.Random(f"{ctx.seed}/c19/project/{i}")
        out.append(make_project(r, ["valid", "valid", "cycle", "missing"][i % 4]))
    return out


def project_optset(pj: dict):
    if not pj["include_dirs"]:
        return OPTION_SETS[0]
    return ([f"generate.include_dirs=[{','.join(pj['include_dirs'])}]"], [(("generate", "include_dirs"), list(pj["include_dirs"]))])


def project_parse(base: Path, pj: dict) -> dict:
    """level 1: `API().configure(pydjinni.yaml, include_dirs).parse(root)` in-process on one project"""
    import signal
    import copy
    warnings.filterwarnings("ignore")
    d = base / "project"
    shutil.rmtree(d, ignore_errors=True)
    d.mkdir(parents=True)
    write_files(d, pj["files"], ws_marker=True)
    (d / "pydjinni.yaml").write_text(CONFIGS["pydjinni.yaml"]["text"])
    cwd = os.getcwd()
    os.chdir(d)

    class Hang(BaseException):
        pass

    def on_alarm(*_):
        raise Hang()
    old = signal.signal(signal.SIGALRM, on_alarm)
    signal.alarm(30)
    try:
        try:
            from pydjinni import API
            g = API().configure(path=Path("pydjinni.yaml"), options=copy.deepcopy(ref_fold(project_optset(pj)[1]))).parse(Path(pj["root"]))
            out = {"kind": "ok", "decls": sorted(str(x.name) for x in g.defs)}
        except Hang:
            out = {"kind": "hang"}
        except BaseException as e:  # noqa
            out = cfgsys.classify(e)
    finally:
        signal.alarm(0)
        signal.signal(signal.SIGALRM, old)
        os.chdir(cwd)
    shutil.rmtree(d, ignore_errors=True)
    return out


def status_of(o: dict) -> int:
    """the exit status the documented handler gives an API outcome"""
    if o["kind"] == "ok":
        return 0
    if o["kind"] == "app":
        return o["code"]
    if o["kind"] == "applist" and o["codes"]:
        return o["codes"][0] if o["codes"][0] is not None else 1
    return 1


def project_cases(ctx) -> list[dict]:
    """level 1: every project of the stream through the in-process API; level 2 (returned): command lines for a stratified selection —
    first the projects whose API outcome is not the one of their class, then one per (class, `..` spelled?, root in a sub-directory?,
    include directory?, file reached under two spellings?) in rotation"""
    stream = project_stream(ctx)
    cfgsys.register("project", project_parse)
    import time
    t0 = time.time()
    res = cfgsys.run_pool(ctx.tmp, [("project", p) for p in stream], workers=14)
    ctx.stats["project_stream_seconds"] = round(time.time() - t0, 1)
    groups: dict = {}
    for i, (p, o) in enumerate(zip(stream, res)):
        if o.get("kind") == "harness-error":
            raise RuntimeError(f"harness error: {o}")
        sp = p["meta"]["spellings"]
        dotdot = any(".." in t for _, t in sp.values())
        multi = {}
        for k, (kind, _) in sp.items():
            multi.setdefault(k.split(">")[1], set()).add(kind)
        two = any(len(v) > 1 for v in multi.values())
        off = status_of(o) != PROJECT_CODE[p["intent"]] or (o["kind"] == "ok" and o["decls"] != p["decls"])
        ctx.stat(f"project_{p['intent']}_api_{outcome_class(o).split('@')[0]}")
        ctx.count(key=("project", p["intent"], dotdot, two, bool(p["include_dirs"]), "/" in p["root"], tuple(sorted({k for k, _ in sp.values()}))),
                  nontrivial=True, sample={"class": p["intent"], "files": sorted(p["files"]), "spellings": sp, "api": outcome_class(o)})
        groups.setdefault((0 if off else 1, p["intent"], dotdot, "/" in p["root"], bool(p["include_dirs"]), two), []).append(i)
    ctx.stats["project_stream_inputs"] = len(stream)
    ctx.stats["project_stream_classes"] = len(groups)
    ctx.stats["project_stream_off_class"] = sum(len(v) for k, v in groups.items() if k[0] == 0)
    def in_turn(ks):
        """classes in turn (valid, cycle, valid, missing, …); within `valid` first the ordinary shape of a project with shared files:
        a `..` spelling and a file reached under two spellings"""
        ks = sorted(ks)
        random.Random(f"{ctx.seed}/c19/project/select").shuffle(ks)
        ks.sort(key=lambda k: not (k[1] == "valid" and k[2] and k[5]))
        by_intent = {c: [k for k in ks if k[1] == c] for c in ("valid", "cycle", "missing")}
        out = []
        while any(by_intent.values()):
            for c in ("valid", "cycle", "valid", "missing"):
                if by_intent[c]:
                    out.append(by_intent[c].pop(0))
        return out
    chosen = [groups[k][0] for k in in_turn(k for k in groups if k[0] == 0)][:ctx.n(6, 60)]
    rest = in_turn(k for k in groups if k[0] == 1)
    budget = len(chosen) + ctx.n(14, 240)
    depth = 0
    while len(chosen) < budget and any(len(groups[k]) > depth for k in rest):
        for k in rest:
            if len(groups[k]) > depth and len(chosen) < budget:
                chosen.append(groups[k][depth])
        depth += 1
    out = []
    for i in sorted(set(chosen)):
        p = stream[i]
        r = random.Random(f"{ctx.seed}/c19/project/cli/{i}")
        case = make_case(p["root"], None, project_optset(p), r.choice([["cpp"], ["cpp"], ["cpp", "yaml"], ["yaml", "cpp"]]), r.random() < 0.25)
        case["files"] = p["files"]
        case["ws_marker"] = True
        case["project"] = {k: p[k] for k in ("intent", "decls", "reach", "root", "meta")}
        case["label"] = f"project/{i}/{p['intent']}"
        out.append(case)
    return out


# --------------------------------------------------------------------------------------------
# stream of `-o key=value` options whose value is any text (the property quantifies over ALL `-o` lists)
# --------------------------------------------------------------------------------------------
# The documented format is `key=value`: the key is the text before the FIRST `=`, the value everything after it (a value of the
# form `[a,b]` is a list). The generator chooses (key path, value text) and spells the option; what the option denotes — the
# options dictionary of the equivalent API call — is computed here from that reading (`ref_value`), never by the implementation.
# Keys: the string- and path-typed settings; values: the whole alphabet (`=`, `:`, `,`, blanks, `#`, quotes, brackets, non-ASCII,
# leading / trailing dots and blanks, the empty text), kept inside the workspace when they are paths.

VALUE_KEYS = [(("generate", "cpp", "out"), "path", ["cpp"]), (("generate", "yaml", "out"), "path", ["yaml"]),
              (("generate", "list_processed_files"), "file", ["cpp"]), (("generate", "include_dirs"), "list", ["cpp"]),
              (("generate", "cpp", "header_extension"), "text", ["cpp"]), (("generate", "cpp", "namespace"), "text", ["cpp"]),
              (("generate", "java", "package"), "text", ["java"]), (("generate", "java", "out"), "path", ["cpp", "java"])]
EQ_VALUES = ["build/mode=debug/cpp", "a=b=c", "cfg=release", "=", "=x", "x=", "==", "k=v/k2=v2"]
FIXED_VALUES = ["", " ", " lead", "trail ", "a b", "#hash", "a#b", '"q"', "it's", "é€", ".hidden", "trail.", "...", "..x", "x..", "a,b", "a:b",
                "key: value", "- item", "[x", "x]", "{a: b}", "null", "true", "~", "0", "1.5", "a\tb", "$HOME", "%TEMP%", "a;b", "a|b", "*", "?",
                "a\\b", "`x`", "<x>", "a&b", "(x)", "üñí", "‮", "日本"]
VALUE_ATOMS = ["=", ":", ",", " ", "#", '"', "'", "é", "€", ".", "x", "mode", "debug", "1", "-", "+", "@", "%", "&", ";", "(", ")", "[", "]", "{", "}",
               "*", "?", "!", "~", "\\", "$", "`", "|", "<", ">", "/", "ü", "_"]


def ref_value(text: str):
    """the value a `-o` text denotes: `[a,b]` is the list of its comma separated items, anything else the text itself"""
    if text.startswith("[") and text.endswith("]"):
        return text[1:-1].split(",")
    return text


def inside_workspace(v: str) -> bool:
    """a path value under which nothing is written outside the workspace"""
    return not v.startswith(("/", "~")) and ".." not in v.split("/") and "\x00" not in v and len(v.encode()) < 200


def rand_value(r: random.Random) -> str:
    return "".join(r.choice(VALUE_ATOMS) for _ in range(r.randint(1, 8)))


def option_value_cases(ctx) -> list[dict]:
    n = ctx.n(18, 320)
    out = []
    for i in range(n):
        r = random.Random(f"{ctx.seed}/c19/optval/{i}")
        path, kind, targets = VALUE_KEYS[(i + ctx.seed) % len(VALUE_KEYS)]
        # a third of the values contain `=`; the fixed lists rotate with the seed, the rest is drawn from the alphabet
        m = i % 3
        v = EQ_VALUES[(i // 3 + ctx.seed) % len(EQ_VALUES)] if m == 0 else (FIXED_VALUES[(i // 3 + 7 * ctx.seed) % len(FIXED_VALUES)] if m == 1 else rand_value(r))
        if m == 0 and r.random() < 0.4:
            v = rand_value(r) + "=" + rand_value(r)
        if kind in ("path", "file", "list") and not inside_workspace(v):
            v = "v" + v.replace("/", "_").replace("~", "-")[:60]
        if kind == "path":
            text = v if r.random() < 0.5 else "out/" + v
        elif kind == "file":
            text = ("out/" if r.random() < 0.5 else "") + v + r.choice([".json", ".json", ".yaml", ".toml", ".yml"])
        elif kind == "list":
            text = "[" + ",".join([v.replace(",", ";"), "inc"][:r.choice([1, 2])]) + "]"
        else:
            text = v
        leaf = (path, ref_value(text))
        no_file = r.random() < 0.3 and "java" not in targets
        if no_file:
            # everything by options: the base set of OPTION_SETS[10], the key under test last
            texts = list(OPTION_SETS[10][0]) + [".".join(path) + "=" + text]
            leaves = list(OPTION_SETS[10][1]) + [leaf]
            case = make_case("ok.djinni", "None", (texts, leaves), ["cpp"], False)
        else:
            case = make_case("ok.djinni", None, ([".".join(path) + "=" + text], [leaf]), targets, False)
        case["optval"] = {"key": ".".join(path), "kind": kind, "value": text}
        case["label"] = f"optval/{i}/{'.'.join(path)}"
        ctx.count(key=("optval", ".".join(path), "=" in text, tuple(sorted({c for c in text if not c.isalnum()}))[:6], no_file), nontrivial=True,
                  sample={"option": ".".join(path) + "=" + text})
        out.append(case)
    return out


# --------------------------------------------------------------------------------------------
# stream of malformed values x sources x combinations through the real command line
# --------------------------------------------------------------------------------------------
# One assignment `key := bad value` of an otherwise valid configuration (`cfgsys.malformed_assignments`: the kinds of malformed values
# C17 exercises through the API), delivered through a source of the command line: `-o key=value` (a text that is not valid Unicode is
# given as raw bytes in `argv`: U+DC80+b stands for the byte 0x80+b), the configuration file (YAML / YML / JSON / TOML, escapes like
# `"\ud800"`), a `pydjinni__…` environment variable (raw bytes likewise), a line of `.env`; the rest of the configuration travels
# through another source. And in combination: a valid value for the same key in a source of higher precedence (`-o` over file over
# environment over `.env`) — then the invocation generates —, or of lower precedence — then it is refused all the same.

CLI_SOURCES = ["opts", "file:json", "file:yaml", "file:yml", "file:toml", "env", "ENV", "dotenv"]


def malformed_value_cases(ctx) -> list[dict]:
    trees = [gen_cfg(["cpp"]), gen_cfg(["cpp", "yaml"], report=False), gen_cfg(["cpp", "java", "jni"])]
    pool = []
    for ti, tree in enumerate(trees):
        for rot in range(len(cfgsys.NOT_UNICODE)):
            r = random.Random(f"{ctx.seed}/c19/malformed/{ti}/{rot}")
            for a in cfgsys.malformed_assignments(r, tree, rot=rot + ctx.seed):
                for name, case, expect in c17.malformed_variants(tree, a, rot + ti + ctx.seed, sources=CLI_SOURCES, explicit="opts"):
                    pool.append((ti, a, name, case, expect))
    # stratified: every (kind of malformed value, delivery shape, source of the bad value) class in rotation, the texts that are not valid
    # Unicode first (raw bytes on the command line / in the environment are what only a real invocation exercises)
    groups: dict = {}
    for item in pool:
        ti, a, name, case, expect = item
        shape = "bad@" if name.startswith("bad@") and "<" not in name else ("bad<good" if name.startswith("bad@") else "good<bad")
        bad_src = (name.split("<")[0] if shape != "good<bad" else name.split("<")[1]).split("@")[1].split(":")[0].lower()
        groups.setdefault((not a["kind"].startswith("not-encodable"), a["kind"], shape, bad_src), []).append(item)
    keys = sorted(groups)
    random.Random(f"{ctx.seed}/c19/malformed/select").shuffle(keys)
    keys.sort(key=lambda k: k[0])
    ctx.stats["malformed_stream_inputs"] = len(pool)
    ctx.stats["malformed_stream_classes"] = len(groups)
    budget = ctx.n(40, 600)
    chosen, depth = [], 0
    while len(chosen) < budget and any(len(groups[k]) > depth for k in keys):
        for k in keys:
            if len(groups[k]) > depth and len(chosen) < budget:
                chosen.append(groups[k][(depth + ctx.seed) % len(groups[k])] if depth == 0 else groups[k][depth])
        depth += 1
    out = []
    for n, (ti, a, name, case, expect) in enumerate(chosen):
        files, config = {}, "None"
        if case.get("file"):
            config = "mv." + case["file"]["name"].rsplit(".", 1)[1]
            files[config] = case["file"]["text"]
        if case.get("dotenv") is not None:
            files[".env"] = case["dotenv"]
        texts = case.get("cli_opts") or []
        leaves = []
        for t in texts:
            k, v = t.split("=", 1)
            leaves.append((tuple(k.split(".")), ref_value(v)))
        if not all(cfgsys.argv_text(t) for t in texts):
            continue
        targets = ["cpp"] if n % 3 else [t for t in ("cpp", "java", "yaml") if t in trees[ti]["generate"]]
        c = make_case("ok.djinni", config, (texts, leaves), targets, False, extra_env=case.get("env") or {})
        c["files"] = files
        c["malformed"] = {"kind": a["kind"], "key": a["named"], "bad": a["bad"], "delivery": name, "expect": expect,
                          # variables whose text pydantic-settings' environment / `.env` source cannot decode (C17 findings)
                          "env_refused": cfgsys.undecodable_env(case.get("env")) + cfgsys.undecodable_env(case.get("dotenv_vars"))}
        c["label"] = f"malformed/{n}/{a['kind']}@{a['named']}/{name}"
        ctx.count(key=("malformed", a["kind"], name.split("@")[0], tuple(x.split("@")[1].split(":")[0] for x in name.split("<"))), nontrivial=True,
                  sample={"malformed": a["kind"], "key": a["named"], "delivery": name, "expect": expect})
        out.append(c)
    return out


# --------------------------------------------------------------------------------------------
# IDL inputs without any type definition (the property quantifies over ALL inputs: also those that declare nothing)
# --------------------------------------------------------------------------------------------
# A valid IDL need not declare a type: an empty file, blank lines, empty (nested, commented) namespaces, a file that only imports such
# files or only names an `@extern` file. What `generate` does for a target that does not depend on the declarations still has to happen:
# the target names are looked up and their configuration is required (141 / 120), `--clean` purges the output directories, the support
# library and the other type-independent files of the target (cleaner, loader) are written and listed in the report. The class is known
# by construction: status 0 when every requested target is configured, else 141; and the outputs are those of the *twin* invocation —
# the same command line on the same workspace with ONE declaration (`zz_probe`) in the root file — minus the files of that declaration.

TYPELESS_PROBE = "zz_probe"
TYPELESS_SHAPES = {
    "empty": {"t.djinni": ""},
    "blank": {"t.djinni": "\n  \n\t\n\r\n"},
    "namespace": {"t.djinni": "namespace foo {\n}\n"},
    "namespaces": {"t.djinni": "# nothing in here yet\nnamespace a {\n  namespace b.c {\n  }\n}\nnamespace d { }\n"},
    "imports": {"t.djinni": '@import "e1.djinni"\n@import "sub/e2.djinni"\n', "e1.djinni": "", "sub/e2.djinni": "namespace q { }\n"},
    "import-chain": {"t.djinni": '@import "e1.djinni"\n', "e1.djinni": '@import "sub/e2.djinni"\n', "sub/e2.djinni": "\n"},
    "extern": {"t.djinni": '@extern "x.yaml"\n', "x.yaml": ""},
    "import+namespace": {"t.djinni": '@import "e1.djinni"\nnamespace n {\n}\n', "e1.djinni": "namespace n { }\n"},
}
TYPELESS_CONFIG = "tl_support.yaml"
# (configuration file | None = pydjinni.yaml, generator sections it holds, requested targets, --clean)
TYPELESS_COMBOS = [
    (TYPELESS_CONFIG, ["cpp", "java"], True), (None, ["cpp", "objc"], False), (TYPELESS_CONFIG, ["objc", "cpp"], True),
    (TYPELESS_CONFIG, ["cpp"], False), (None, ["java", "yaml"], True), (TYPELESS_CONFIG, ["yaml", "java"], False),
    (None, ["cpp"], True), (TYPELESS_CONFIG, ["java", "cppcli"], False), ("nocpp.yaml", ["java"], True), (None, ["objc"], True),
    ("support.yml", ["cpp", "java"], True), ("support.yml", ["cpp"], True),
]
TYPELESS_SECTIONS = {None: ["cpp", "java", "jni", "yaml"], TYPELESS_CONFIG: ["cpp", "java", "jni", "yaml"], "nocpp.yaml": ["java", "jni"], "support.yml": ["cpp"]}


def typeless_idl_cases(ctx) -> list[dict]:
    """command lines for IDL inputs without a type definition (every shape x a rotation of configuration x targets x --clean), each
    with its twin (the same command line, one declaration in the root file); `case['typeless']` = the class known by construction"""
    lt = c17.live_targets_cached()
    extra = {TYPELESS_CONFIG: cfgsys.to_yaml(gen_cfg(["cpp", "java", "jni", "yaml"], support=True))}
    shapes = list(TYPELESS_SHAPES.items())
    n_combos = ctx.n(6, len(TYPELESS_COMBOS))
    per_shape = ctx.n(2, len(TYPELESS_COMBOS))
    out, twins = [], {}
    for si, (shape, files) in enumerate(shapes):
        for j in range(per_shape):
            ci = (si * per_shape + j + ctx.seed) % n_combos
            cfg, targets, clean = TYPELESS_COMBOS[ci]
            secs = TYPELESS_SECTIONS[cfg]
            ready = all(t in lt and all(g in secs for g in lt[t]) for t in targets)
            if ci not in twins:
                tw = make_case("t.djinni", cfg, OPTION_SETS[0], targets, clean)
                tw["files"] = {"t.djinni": f"{TYPELESS_PROBE} = enum {{ a; b; }}\n", **extra}
                tw["label"] = f"typeless/twin/{ci}"
                twins[ci] = tw
                out.append(tw)
            c = make_case("t.djinni", cfg, OPTION_SETS[0], targets, clean)
            c["files"] = {**files, **extra}
            c["label"] = f"typeless/{shape}/{ci}"
            c["typeless"] = {"shape": shape, "twin": twins[ci]["label"], "twin_case": {k: v for k, v in twins[ci].items() if k != "typeless"},
                             "expect_rc": 0 if ready else 141}
            out.append(c)
    return out


def typeless_differences(case: dict, obs: dict, twin: dict) -> list:
    """(key, what, details) for every clause of the specification of a type-less input that does not hold"""
    tl = case["typeless"]
    want = tl["expect_rc"]
    out = []
    if obs["traceback"] or obs["rc"] in (1, None):
        return out   # reported by the general clauses
    if obs["rc"] != want:
        out.append(("cli:typeless-idl-status", f"`{' '.join(case['args'])}` on an IDL without type definitions ({tl['shape']}) ended with status {obs['rc']}; "
                    f"documented: {want} ({'every requested target is configured' if want == 0 else 'a requested target is not configured'})", {}))
    first = next((raised_of(x) for x in obs["api"]["stages"] if x["kind"] != "ok"), None)
    api_rc = 0 if first is None else first.get("code", (first.get("codes") or [1])[0] if first["kind"] == "applist" else 1)
    if api_rc != want:
        out.append(("api:typeless-idl-status", f"the API sequence on an IDL without type definitions ({tl['shape']}) ended with {first or 'no exception'}; documented: {want}", {}))
    if twin["rc"] != want or twin["traceback"]:
        return out   # the twin itself is off its class: reported by the general clauses
    probe = TYPELESS_PROBE.replace("_", "")

    def independent(tree):
        return {k: v for k, v in tree.items() if probe not in k.lower().replace("_", "") and not k.endswith("report.json")}
    for side, a, b in (("cli", obs["tree"], twin["tree"]), ("api", obs["api"].get("tree") or {}, twin["api"].get("tree") or {})):
        a, b = independent(a), independent(b)
        if a != b:
            missing = sorted(k for k in b if k not in a)
            extra = sorted(k for k in a if k not in b)
            out.append((f"{side}:typeless-idl-outputs", f"the outputs for an IDL without type definitions ({tl['shape']}) are not those of the same invocation with one "
                        f"declaration minus the files of that declaration: {len(missing)} missing (support library, cleaner, loader …), {len(extra)} left over / extra, "
                        f"{sum(1 for k in a if k in b and a[k] != b[k])} different", {"missing": missing[:12], "extra": extra[:12]}))
            break

    def listed(rep):
        acc = set()

        def walk(x, in_list=False):
            if isinstance(x, str):
                if in_list:   # the lists of generated files (the scalar fields name the output directories of the sections in use)
                    acc.add(x)
            elif isinstance(x, dict):
                for v in x.values():
                    walk(v)
            elif isinstance(x, list):
                for v in x:
                    walk(v, True)
        walk((rep or {}).get("generated") or {})
        return {x for x in acc if probe not in x.lower().replace("_", "")}
    if want == 0 and (obs["report"] is None) != (twin["report"] is None):
        out.append(("cli:typeless-idl-report", f"the processed-files report is {'not ' if obs['report'] is None else ''}written for an IDL without type definitions "
                    f"({tl['shape']}), but {'not ' if twin['report'] is None else ''}for the same invocation with one declaration", {}))
    elif want == 0 and listed(obs["report"]) != listed(twin["report"]):
        out.append(("cli:typeless-idl-report", f"the report for an IDL without type definitions ({tl['shape']}) does not list the type-independent generated files "
                    f"the same invocation with one declaration lists", {"missing": sorted(listed(twin["report"]) - listed(obs["report"]))[:12],
                                                                         "extra": sorted(listed(obs["report"]) - listed(twin["report"]))[:12]}))
    return out


def evaluate_typeless(ctx, cases, results):
    by_label = {c.get("label"): o for c, o in zip(cases, results)}
    for c, o in zip(cases, results):
        tl = c.get("typeless")
        if not tl or tl["twin"] not in by_label:
            continue
        ctx.stat(f"typeless_{tl['shape']}_rc_{o['rc']}")
        for key, what, extra in typeless_differences(c, o, by_label[tl["twin"]]):
            ctx.report(key, what, {"args": c["args"], "case": {k: v for k, v in c.items() if k != "child_env"}, "impl": brief(o), **extra})


def replay_typeless(ctx, case) -> bool:
    twin = dict(case["typeless"]["twin_case"])
    twin["child_env"] = case["child_env"]
    cfgsys.register("cli", run_case)
    obs, tw = cfgsys.run_pool(ctx.tmp, [("cli", case), ("cli", twin)], workers=2)
    print(json.dumps(brief(obs), indent=1)[:3000])
    diffs = typeless_differences(case, obs, tw)
    for key, what, extra in diffs:
        ctx.report(key, what, {"args": case["args"], "case": {k: v for k, v in case.items() if k != "child_env"}, "impl": brief(obs), **extra})
    return not diffs


def config_file_of(case: dict) -> dict | None:
    """the description of the configuration file an invocation names (None: no file)"""
    cfg = case["sem"]["config"]
    if cfg in ("None", "none", "False", "false"):
        return None
    if case.get("files") and cfg in case["files"]:
        return config_spec(cfg, case["files"][cfg])
    if cfg in CONFIGS:
        return {"name": cfg, **CONFIGS[cfg]}
    return {"name": cfg, "missing": True}


def write_files(d: Path, files: dict, ws_marker: bool = False):
    """`ws_marker`: the texts spell absolute paths into the workspace as `{WS}/…` (project stream)"""
    for name, v in files.items():
        p = d / name
        p.parent.mkdir(parents=True, exist_ok=True)
        if isinstance(v, str):
            p.write_text(v.replace("{WS}", str(d)) if ws_marker else v, newline="")
        elif v.get("dir"):
            p.mkdir()
        else:
            p.write_bytes(bytes.fromhex(v["bytes_hex"]))


class WatchFront:
    """observe the steps of `Parser.parse` of the root file: the errors recorded before the visitor runs, how the visitor ends,
    the errors recorded when it ends (context manager; `.rec` = [] when no visitor ran)"""

    def __enter__(self):
        from pydjinni.parser.parser import Parser
        self.cls, self.orig, self.rec = Parser, Parser.visit, []
        orig, rec = self.orig, self.rec

        def codes(p):
            return [c if isinstance(c, int) and c > 0 else 1 for c in (getattr(e, "code", None) for e in p.errors)]

        def visit(parser, tree):
            depth = parser.__dict__.get("_c19_depth", 0)
            me = None
            if depth == 0:
                me = {"syntax": codes(parser), "visit": {"kind": "ok"}}
                rec.append(me)
            parser.__dict__["_c19_depth"] = depth + 1
            try:
                return orig(parser, tree)
            except BaseException as e:  # noqa
                if me is not None:
                    me["visit"] = cfgsys.classify(e)
                    me["_exc"] = e
                raise
            finally:
                parser.__dict__["_c19_depth"] = depth
                if me is not None:
                    me["at_end"] = codes(parser)
        Parser.visit = visit
        return self

    def __exit__(self, *a):
        self.cls.visit = self.orig
        return False


def read_failure(p: Path) -> str | None:
    """exception class that reading and decoding the root file raises (independent of the implementation)"""
    if not p.exists():
        return "FileNotFoundError"
    if p.is_dir():
        return "IsADirectoryError"
    try:
        p.read_bytes().decode("utf-8")
    except UnicodeDecodeError:
        return "UnicodeDecodeError"
    return None


def front_run_of(read: str | None, rec: list, parse: dict, escaped: bool = False) -> dict | None:
    """the model's `FrontRun` from the observed steps; `later` / `post` (what the phases after the visitor did) are read off the final
    outcome, unless it is the visitor's own exception that left `parse` (`escaped`): whether that may happen is the model's call"""
    if read is None and not rec:
        return None
    fr = {"read": read, "syntax": [], "visit": {"kind": "ok"}, "visit_errors": [], "later": [], "post": {"kind": "ok"}}
    if read is not None or not rec:
        return fr
    me = rec[0]
    fr["syntax"] = me["syntax"]
    fr["visit"] = raised_of(me["visit"])
    at_end = me.get("at_end", me["syntax"])
    fr["visit_errors"] = at_end[len(me["syntax"]):]
    recorded = at_end
    if escaped or fr["visit"]["kind"] == "app" or (fr["visit"]["kind"] == "crash" and not recorded):
        return fr
    if parse["kind"] == "applist":
        codes = [c if c is not None else 1 for c in parse["codes"]]
        if codes[:len(recorded)] == recorded:
            fr["later"] = codes[len(recorded):]
    elif parse["kind"] in ("app", "crash"):
        fr["post"] = raised_of(parse)
    return fr


_IDL_CTX = None


def parse_case(base: Path, case: dict) -> dict:
    """level 1: `API().configure(pydjinni.yaml).parse(m.djinni)` in-process on one broken input"""
    import signal
    global _IDL_CTX
    warnings.filterwarnings("ignore")
    d = base / "idl"
    shutil.rmtree(d, ignore_errors=True)
    d.mkdir(parents=True)
    write_files(d, case["files"])
    (d / "pydjinni.yaml").write_text(CONFIGS["pydjinni.yaml"]["text"])
    cwd = os.getcwd()
    os.chdir(d)

    class Hang(BaseException):
        pass

    def on_alarm(*_):
        raise Hang()
    old = signal.signal(signal.SIGALRM, on_alarm)
    signal.alarm(30)
    try:
        with WatchFront() as w:
            try:
                if _IDL_CTX is None:
                    from pydjinni import API
                    _IDL_CTX = API().configure(path=Path("pydjinni.yaml"))
                _IDL_CTX.parse(Path(ROOT_IDL))
                out = {"kind": "ok"}
            except Hang:
                out = {"kind": "hang"}
            except BaseException as e:  # noqa
                out = {**cfgsys.classify(e), "pos": cfgsys.first_position(e)}
        out["front"] = [{k: (v if k != "visit" else raised_of(v)) for k, v in m.items() if k != "_exc"} for m in w.rec[:1]]
    finally:
        signal.alarm(0)
        signal.signal(signal.SIGALRM, old)
        os.chdir(cwd)
    out["read"] = read_failure(d / ROOT_IDL)
    shutil.rmtree(d, ignore_errors=True)
    return out


def outcome_class(o: dict) -> str:
    if o["kind"] == "applist":
        cs = o["codes"]
        return f"list:{cs[0]}" + ("+" + ",".join(str(c) for c in sorted(set(cs[1:]) - {cs[0]})) if len(set(cs)) > 1 else "")
    if o["kind"] == "app":
        return f"app:{o['code']}"
    if o["kind"] == "crash":
        return f"crash:{o.get('cls')}@{o.get('site')}"
    return o["kind"]


def visit_class(o: dict) -> str:
    f = o.get("front") or []
    if not f:
        return "no-visit"
    v = f[0]["visit"]
    return ("syntax" if f[0]["syntax"] else "clean") + ":" + (v["kind"] if v["kind"] != "crash" else "failed:" + str(v.get("cls")))


# --------------------------------------------------------------------------------------------
# running one case: CLI subprocess + in-process API sequence
# --------------------------------------------------------------------------------------------

def materialise(ws: Path, files: dict | None = None, ws_marker: bool = False):
    ws.mkdir(parents=True)
    for name, (text, _) in IDLS.items():
        (ws / name).write_text(text)
    write_files(ws, files or {}, ws_marker)
    for name, spec in CONFIGS.items():
        cfgsys.write_file(ws, {"name": name, **spec})
    for g in GEN.values():
        d = ws / g["out"]
        d.mkdir(parents=True)
        (d / "stale.txt").write_text("left over from an earlier run\n")
    for extra in ("out/cpp2", "out/h", "out/s", "out/envyaml"):
        (ws / extra).mkdir(parents=True)
        (ws / extra / "stale.txt").write_text("left over from an earlier run\n")


def tree_of(ws: Path, before: dict | None = None) -> dict:
    """{path: digest}: every file below `out/`, and — given the snapshot taken before the run — every file anywhere else in the
    workspace that is new or changed (an output directory named by an option need not lie below `out/`)"""
    out = {}
    for p in sorted(ws.rglob("*")):
        if p.is_file() and not p.is_symlink():
            rel = str(p.relative_to(ws))
            # generated files and the report name imported files by absolute path: compare modulo the workspace directory
            h = hashlib.sha256(p.read_bytes().replace(str(ws).encode(), b"<ws>")).hexdigest()[:16]
            if rel.startswith("out/") or (before is not None and before.get(rel) != h):
                out[rel] = h
    return out


def snapshot(ws: Path) -> dict:
    return {str(p.relative_to(ws)): hashlib.sha256(p.read_bytes().replace(str(ws).encode(), b"<ws>")).hexdigest()[:16]
            for p in ws.rglob("*") if p.is_file() and not p.is_symlink()}


def report_of(ws: Path):
    rep = ws / "out" / "report.json"
    return json.loads(rep.read_text().replace(str(ws), "<ws>")) if rep.exists() else None


def first_error_text(out: str) -> str:
    """the first `ERROR` record of the log output, white space removed (rich wraps long lines anywhere)"""
    import re
    ms = [m.start() for m in re.finditer(r"(?m)^ERROR\s", out)]
    if not ms:
        return ""
    return "".join(out[ms[0]:ms[1] if len(ms) > 1 else len(out)].split())[:3000]


def run_case(base: Path, case: dict) -> dict:
    warnings.filterwarnings("ignore")
    sem = case["sem"]
    ws = base / "ws"
    shutil.rmtree(ws, ignore_errors=True)
    cli, api = ws / "cli", ws / "api"
    materialise(cli, case.get("files"), bool(case.get("ws_marker")))
    materialise(api, case.get("files"), bool(case.get("ws_marker")))
    before_cli, before_api = snapshot(cli), snapshot(api)
    env = dict(case["child_env"])
    for k in [k for k in env if k.lower().startswith(cfgsys.ENV_PREFIX)]:
        del env[k]
    env.update(case.get("env") or {})
    env["COLUMNS"] = "200"
    try:
        p = subprocess.run([PY, "-m", "pydjinni", *case["args"]], cwd=cli, env=env, capture_output=True, text=True, errors="replace", timeout=120)
        obs = {"rc": p.returncode, "traceback": "Traceback (most recent call last)" in p.stderr or "Traceback (most recent call last)" in p.stdout,
               "stderr": p.stderr[-600:], "stdout": p.stdout[-2500:], "first_error": first_error_text(p.stdout + p.stderr)}
    except subprocess.TimeoutExpired:
        obs = {"rc": None, "traceback": False, "stderr": "timeout", "stdout": "", "first_error": ""}
    obs["tree"] = tree_of(cli, before_cli)
    obs["report"] = report_of(cli)

    # the documented equivalent API sequence
    a = {"stages": []}
    cmd = sem["command"]
    reach_configure = sem["opt_dict"] is not None and sem["top_ok"] and cmd["kind"] == "generate"
    reach_parse = reach_configure and cmd["kind"] == "generate" and cmd["args_ok"] and bool(cmd["targets"])
    reach_generate = reach_parse and not click_refuses(sem)
    if reach_configure:
        saved = dict(os.environ)
        for k in [k for k in os.environ if k.lower().startswith(cfgsys.ENV_PREFIX)]:
            del os.environ[k]
        os.environ.update(case.get("env") or {})
        cwd = os.getcwd()
        os.chdir(api)
        try:
            from pydjinni import API
            import copy

            def stage(name, f):
                try:
                    r = f()
                    a["stages"].append({"stage": name, "kind": "ok"})
                    return r
                except BaseException as e:  # noqa
                    a["stages"].append({"stage": name, **cfgsys.classify(e), "pos": cfgsys.first_position(e)})
                    raise

            try:
                cfgname = sem["config"]
                path = None if cfgname in ("None", "none", "False", "false") else Path(cfgname)
                c = stage("configure", lambda: API().configure(path=path, options=copy.deepcopy(sem["opt_dict"])))
                if reach_parse:
                    a["read"] = read_failure(Path(sem["idl"]))
                    with WatchFront() as watch:
                        try:
                            g = stage("parse", lambda: c.parse(Path(sem["idl"])))
                        except BaseException as e:  # noqa
                            # did the visitor's own exception leave `parse` (as opposed to one of a later phase)?
                            a["visit_escaped"] = bool(watch.rec) and watch.rec[0].get("_exc") is e
                            raise
                        finally:
                            a["front"] = [{k: v for k, v in m_.items() if k != "_exc"} for m_ in watch.rec[:1]]
                    a["kinds"] = sorted({KIND_OF[type(d).__name__] for d in g.defs if type(d).__name__ in KIND_OF})
                    if sem.get("debug"):
                        # `--log-level debug`: the generate callback pretty-prints the AST, which evaluates the marshalling
                        from rich.pretty import pretty_repr
                        try:
                            stage("astdump", lambda: pretty_repr(g.ast))
                        except BaseException:  # noqa  (the API sequence itself has no such step: carry on)
                            pass
                if reach_generate:
                    for t in cmd["targets"]:
                        stage("generate:" + t, lambda: g.generate(t, clean=sem["clean"]))
                    stage("report", lambda: g.write_processed_files())
            except BaseException:  # noqa
                pass
        finally:
            os.chdir(cwd)
            os.environ.clear()
            os.environ.update(saved)
        a["tree"] = tree_of(api, before_api)
        a["report"] = report_of(api)
    obs["api"] = a
    shutil.rmtree(ws, ignore_errors=True)
    return obs


# --------------------------------------------------------------------------------------------
# stream of target orders over identifiers that only some target languages reserve
# --------------------------------------------------------------------------------------------
# `generate x.djinni t1 … tn` generates the targets one after the other from ONE parse in ONE process; the documented status is the
# code of the first failing step. What a target does with a program does not depend on the targets before it: the reference for
# every multi-target invocation is the set of single-target invocations `generate x.djinni t` of the same workspace, each in its
# own process. The programs carry one-word identifiers that the live keyword tables reserve in a proper subset of the target
# languages (so some targets refuse the program with 161 and others generate it), at several sites.

KW_TARGETS = ["cpp", "java", "objc", "cppcli", "yaml"]
KW_CONFIG = "kwall.yaml"
KW_SITES = ["field", "param", "method", "two-words"]


def subset_reserved_words():
    """{word: [languages that reserve it]}: one-word lower-case identifiers reserved by a proper non-empty subset of the languages of the
    live keyword tables and not by the IDL; and the languages"""
    import re
    import kwtables
    kw, idl = kwtables.live_tables(), kwtables.idl_keywords()
    words = {}
    for lang, ks in kw.items():
        for k in ks:
            if re.fullmatch(r"[a-z][a-z0-9]*", k) and k not in idl:
                words.setdefault(k, set()).add(lang)
    return {w: sorted(ls) for w, ls in sorted(words.items()) if len(ls) < len(kw)}, sorted(kw)


def keyword_idl(site: str, w: str, w2: str) -> str:
    if site == "field":
        return f"kw_rec = record {{ first: string; {w}: i32; }}\n"
    if site == "param":
        return f"kw_svc = interface +cpp {{ run_it(first: i32, {w}: string) -> bool; }}\n"
    if site == "method":
        return f"kw_svc = interface +cpp {{ first(); {w}(x: i32); }}\n"
    return f"kw_rec = record {{ {w}: i32; }}\nkw_other = record {{ {w2}: string; }}\n"


def keyword_order_cases(ctx) -> list[dict]:
    """per program: one invocation per target alone, then every rotation of the target list (every target is the first one once), the
    reversed list and the two orders of a random pair. `case['kworder']` = {group, targets, words, site}"""
    words, langs = subset_reserved_words()
    exclusive = {l: [w for w, ls in words.items() if ls == [l]] for l in langs}
    out = []
    cfg_text = cfgsys.to_yaml(gen_cfg(list(GEN)))
    for gi in range(ctx.n(4, 30)):
        r = random.Random(f"{ctx.seed}/c19/kworder/{gi}") if gi else random.Random("c19/kworder/corpus")
        lang = langs[(gi + (r.randrange(len(langs)) if gi else langs.index("Java") if "Java" in langs else 0)) % len(langs)]
        pool = exclusive[lang] or sorted(words)
        w = r.choice(pool)
        w2 = r.choice([x for x in words if words[x] != words[w]] or [w])
        site = KW_SITES[gi % len(KW_SITES)]
        idl = f"kw{gi}.djinni"
        files = {idl: keyword_idl(site, w, w2), KW_CONFIG: cfg_text}
        ts = list(KW_TARGETS)
        lists = [[t] for t in ts] + [ts[k:] + ts[:k] for k in range(len(ts))] + [ts[::-1]]
        pair = r.sample(ts, 2)
        lists += [pair, pair[::-1]]
        if ctx.quick and gi:
            lists = lists[:len(ts)] + r.sample(lists[len(ts):], 4)
        for li, tl in enumerate(lists):
            c = make_case(idl, KW_CONFIG, OPTION_SETS[0], tl, False)
            c["files"] = files
            c["kworder"] = {"group": gi, "targets": tl, "words": {x: words[x] for x in ({w, w2} if site == "two-words" else {w})}, "site": site}
            c["label"] = f"kworder/{gi}/{li}"
            out.append(c)
    return out


def evaluate_keyword_orders(ctx, cases, results):
    """specification across the invocations of one group: status(`generate x t1 … tn`) = the first non-zero status among
    `generate x t1`, …, `generate x tn` (each in a process of its own) and 0 when there is none; the files below `out/` (the report
    aside) are those of the single-target invocations up to and including the first failing one"""
    groups = {}
    for c, o in zip(cases, results):
        if c.get("kworder"):
            groups.setdefault(c["kworder"]["group"], []).append((c, o))
    for gi, members in sorted(groups.items()):
        alone = {c["kworder"]["targets"][0]: o for c, o in members if len(c["kworder"]["targets"]) == 1}
        refusing = sorted(t for t, o in alone.items() if o["rc"] != 0)
        strip = lambda tree: {p: h for p, h in tree.items() if not p.endswith("report.json")}
        for c, o in members:
            ts = c["kworder"]["targets"]
            if len(ts) == 1 or any(t not in alone for t in ts):
                continue
            first = next((t for t in ts if alone[t]["rc"] != 0), None)
            want_rc = alone[first]["rc"] if first is not None else 0
            upto = ts[: ts.index(first) + 1] if first is not None else ts
            want_tree = {}
            for t in upto:
                want_tree.update(strip(alone[t]["tree"]))
            ctx.stat("kworder_multi_target_invocations")
            ctx.stat("kworder_first_failing_" + ("none" if first is None else "first" if ts[0] == first else "later"))
            ctx.count(key=json.dumps(["kworder", c["kworder"]["site"], sorted(map(tuple, c["kworder"]["words"].values())), refusing, ts]),
                      nontrivial=bool(refusing) and len(refusing) < len(alone), sample={"args": c["args"], "rc": o["rc"], "alone": {t: a["rc"] for t, a in alone.items()}})
            rep = {"args": c["args"], "group": [{k: v for k, v in m.items() if k != "child_env"} for m, _ in members], "member": c["label"],
                   "alone": {t: a["rc"] for t, a in alone.items()}, "impl": brief(o)}
            if o["rc"] != want_rc or o["traceback"]:
                ctx.report("cli:target-order:status",
                           f"`pydjinni {' '.join(c['args'])}` exits with {o['rc']}; generated one at a time the targets exit with "
                           f"{ {t: alone[t]['rc'] for t in ts} }, so the first failing step is '{first}' and the documented status {want_rc} "
                           f"(identifier(s) {c['kworder']['words']} — word: languages that reserve it — at site '{c['kworder']['site']}')", rep)
            elif strip(o["tree"]) != want_tree:
                diff = sorted(p for p in set(want_tree) | set(strip(o["tree"])) if want_tree.get(p) != strip(o["tree"]).get(p))
                ctx.report("cli:target-order:files",
                           f"`pydjinni {' '.join(c['args'])}` leaves other files below out/ than the single-target invocations of {upto} "
                           f"(first differing {diff[:4]})", {**rep, "differing": diff[:20]})


# --------------------------------------------------------------------------------------------
# translator
# --------------------------------------------------------------------------------------------

def translate() -> str:
    warnings.filterwarnings("ignore")
    from pydjinni import API
    API()   # loads every plug-in, which registers its exception classes
    import pydjinni_language_server  # noqa: F401  (imports nothing with codes; keeps the registry complete if it ever does)
    from pydjinni.exceptions import return_codes, ApplicationException

    def subs(c):
        for s in c.__subclasses__():
            yield s
            yield from subs(s)
    classes = sorted({(s.__name__, s.code) for s in subs(ApplicationException) if getattr(s, "code", -1) > 0 and s.__module__.startswith("pydjinni.")})
    ls = c17.lean_str
    return f"""import PydjinniModel.Sys.Cli
open Pydjinni.Sys
/-! generated by harness/props/c19.py from `pydjinni.exceptions.return_codes` after loading all plug-ins -/
def liveCodes : List (Nat × String) := {c17.lean_list(f'({k}, {ls(v)})' for k, v in sorted(return_codes.items()))}
def liveClassCodes : List (String × Nat) := {c17.lean_list(f'({ls(n)}, {c})' for n, c in classes)}

theorem codes_table : liveCodes = documentedCodes := by decide
theorem codes_distinct : (liveCodes.map (·.1)).Nodup := by decide
theorem codes_not_traceback_status : liveCodes.all (fun p => p.1 != 0 && p.1 != 1) = true := by decide
theorem class_codes : ∀ p ∈ classCodes, liveClassCodes.contains p = true := by decide
theorem class_codes_documented : liveClassCodes.all (fun p => isDocumentedCode p.2) = true := by decide
theorem property_codes : [(2, "FileNotFoundException"), (141, "ConfigurationException"), (150, "ParsingException"),
    (161, "InvalidIdentifierException"), (170, "TypeResolvingException")].all (fun p => liveClassCodes.contains (p.2, p.1)) = true := by decide
"""


OBLIGATIONS = ["codes_table", "codes_distinct", "codes_not_traceback_status", "class_codes", "class_codes_documented", "property_codes"]


# --------------------------------------------------------------------------------------------
# the check
# --------------------------------------------------------------------------------------------

def raised_of(st: dict) -> dict:
    if st["kind"] == "applist":
        return {"kind": "applist", "codes": [c if c is not None else 1 for c in st["codes"]]}
    if st["kind"] == "app":
        return {"kind": "app", "code": st["code"]}
    if st["kind"] == "crash":
        return {"kind": "crash", "cls": st.get("cls", "?")}
    return {"kind": "ok"}


def kinds_of(case: dict, obs: dict) -> list:
    """declaration kinds of the IDL: known for the fixed files, read off the API's AST for generated ones"""
    idl = case["sem"]["idl"]
    if case.get("files") and idl in case["files"]:
        return obs["api"].get("kinds") or []
    return IDLS.get(idl, ("", []))[1]


def model_request(case: dict, obs: dict) -> dict:
    sem = case["sem"]
    fspec = config_file_of(case)
    stages = {s["stage"]: s for s in obs["api"]["stages"]}
    conf = stages.get("configure")
    parse = stages.get("parse")
    gen_fail = {}
    for name, s in stages.items():
        if name.startswith("generate:") and s["kind"] != "ok" and not (s["kind"] == "app" and s["code"] in (141, 120)):
            gen_fail[name.split(":", 1)[1]] = raised_of(s)
    idl = sem["idl"]
    world = {"valid": conf is not None and conf["kind"] == "ok",
             "front": raised_of(parse) if parse is not None else {"kind": "ok"},
             "kinds": kinds_of(case, obs),
             "gen_fail": gen_fail, "report": bool(obs["api"].get("report")),
             "env": cfgsys.decode_env(case.get("env")), "dotenv": []}
    if "astdump" in stages:
        world["ast_dump"] = raised_of(stages["astdump"])
    if "report" in stages and stages["report"]["kind"] != "ok":
        # `write_processed_files` refuses the configured report path (unknown out-file extension): a parameter like the generators' failures
        world["report_fail"] = raised_of(stages["report"])
    if parse is not None:
        # the front end's verdict is computed by the model (`frontOf`) from the observed steps of `Parser.parse`
        fr = front_run_of(obs["api"].get("read"), obs["api"].get("front") or [], parse, bool(obs["api"].get("visit_escaped")))
        if fr is not None:
            world["front_run"] = fr
    return {"op": "c19.run", "top_ok": sem["top_ok"], "options": sem["options"], "config": classify_config(fspec),
            "command": sem["command"], "world": world, "debug": bool(sem.get("debug"))}


def run(ctx):
    ctx.coverage["rule"] = ("multi-file project stream: distinct (class, `..` spelled, file under two spellings, include directory, root in a sub-directory, spelling kinds); "
                            "`-o` value stream: distinct (key, `=` in the value, punctuation classes, with / without a configuration file); "
                            "distinct = distinct command line (IDL x config x -o list x targets x --clean x malformation), and for the broken-IDL "
                            "stream through the in-process API distinct (mutation kind, mutated file, outcome class, visitor class); for the malformed-config stream "
                            "distinct (format, corruption kind, decoder verdict); "
                            "non-trivial = anything but the plain successful `generate ok.djinni cpp` / an input that is still accepted")
    ctx.assumptions += [
        "generator failures and the errors recorded by the front end's phases after the visitor are taken from the in-process API run of the same workspace (parameters of the model)",
        "files that exist are readable (no permission or I/O errors; the checks run as root)",
        "ANTLR's error recovery is not modelled: which errors the listeners record and how the visitor ends on the recovered tree are observed",
        "package/publish sub-commands are outside this property's quantifier (C20)",
    ]
    ok, out = common.lean_check_file(translate(), "C19_tables")
    for name in OBLIGATIONS:
        ctx.obligation(name, ok, kind="generated", detail="" if ok else out)

    cases = build_cases(ctx)
    corpus = common.VERIF / "corpus" / "c19.json"
    if corpus.exists():
        extra = json.loads(corpus.read_text())
        for i, c in enumerate(extra):
            c["label"] = f"corpus/{i}"
        cases = extra + cases
    cases += broken_idl_cases(ctx)
    cases += broken_config_cases(ctx)
    cases += project_cases(ctx)
    cases += option_value_cases(ctx)
    cases += malformed_value_cases(ctx)
    cases += keyword_order_cases(ctx)
    cases += typeless_idl_cases(ctx)
    child_env = ctx.child_env()
    for c in cases:
        c["child_env"] = child_env
    cfgsys.register("cli", run_case)
    import time
    t0 = time.time()
    results = cfgsys.run_pool(ctx.tmp, [("cli", c) for c in cases], workers=14)
    ctx.stats["cli_seconds"] = round(time.time() - t0, 1)
    ctx.stats["cli_invocations"] = len(cases)
    for r_ in results:
        if r_.get("kind") == "harness-error":
            raise RuntimeError(f"harness error: {r_}")
    reqs = [cfgsys.sur2pua(model_request(c, o)) for c, o in zip(cases, results)]
    answers = ctx.driver.batch(reqs)
    for a, q in zip(answers, reqs):
        if "error" in a:
            raise RuntimeError(f"driver error {a} for {json.dumps(q)[:400]}")
    spec_reqs = [spec_request(c, o) for c, o in zip(cases, results)]
    specs = ctx.driver.batch(spec_reqs)
    breaks = []
    # what the model reads out of the `-o` texts vs what the generator meant them to denote (value = everything after the first `=`)
    ov = [c for c in cases if c.get("optval")]
    for c, a in zip(ov, ctx.driver.batch([{"op": "c17.options", "opts": c["sem"]["options"]} for c in ov])):
        if a.get("kind") != "ok" or a.get("value") != c["sem"]["opt_dict"]:
            breaks.append({"what": "foldOptions (-o texts) vs the options dictionary the texts denote", "args": c["args"], "model": a, "meant": c["sem"]["opt_dict"]})
    for c, o, m, sq, s in zip(cases, results, answers, spec_reqs, specs):
        evaluate(ctx, c, o, m, sq, s, breaks)
    evaluate_keyword_orders(ctx, cases, results)
    evaluate_typeless(ctx, cases, results)
    ctx.stats["correspondence_breaks"] = len(breaks)
    if os.environ.get("VERIF_DEBUG"):
        for b in breaks:
            print("BREAK", json.dumps(b, default=str)[:1500])
    if breaks and not ctx.violations:
        ctx.report("correspondence", "command-line model and implementation disagree; the specification holds on every sampled invocation",
                   {"correspondence": breaks[0]["what"], "first": breaks[0], "count": len(breaks)}, no_failing_input=True)
    elif breaks:
        ctx.stats["correspondence_first"] = breaks[0]["what"]


def broken_idl_cases(ctx) -> list[dict]:
    """level 1: every input of the stream through the in-process API; level 2 (returned): the command lines for a stratified
    selection — every internal error class, then one input per (mutation kind, file, outcome class, visitor class) in rotation"""
    stream = idl_stream(ctx)
    cfgsys.register("idl", parse_case)
    import time
    t0 = time.time()
    res = cfgsys.run_pool(ctx.tmp, [("idl", c) for c in stream], workers=14)
    ctx.stats["idl_stream_seconds"] = round(time.time() - t0, 1)
    for r_ in res:
        if r_.get("kind") == "harness-error":
            raise RuntimeError(f"harness error: {r_}")
    if res[0]["kind"] != "ok":
        raise RuntimeError(f"the unmutated base program is not accepted: {res[0]}")
    groups: dict = {}
    for i, (c, o) in enumerate(zip(stream, res)):
        oc, vc = outcome_class(o), visit_class(o)
        ctx.stat("idl_api_" + oc.split("@")[0])
        ctx.stat("idl_visit_" + vc)
        ctx.count(key=("idl", c["mut"].split("+")[0], c["where"], oc, vc), nontrivial=o["kind"] != "ok",
                  sample={"mutation": c["mut"], "file": c["where"], "api": oc, "visitor": vc})
        urgent = o["kind"] in ("crash", "hang") or (o["kind"] == "applist" and not o["codes"]) or vc.endswith("no-visit") and o["kind"] == "ok"
        # inputs that are still accepted are the expensive ones (full generation) and the least interesting here: one class per file
        groups.setdefault((0 if urgent else 1, c["mut"].split("+")[0] if o["kind"] != "ok" else "any", c["where"], oc, vc), []).append(i)
    ctx.stats["idl_stream_inputs"] = len(stream)
    ctx.stats["idl_stream_classes"] = len(groups)
    budget = ctx.n(60, 900)
    keys = sorted(groups)
    # every internal-error class first (up to three witnesses each), then the other classes in rotation
    chosen = [i for k in keys if k[0] == 0 for i in groups[k][:3]]
    depth = 0
    rest = [k for k in keys if k[0] == 1]
    random.Random(f"{ctx.seed}/c19/idl/select").shuffle(rest)
    while len(chosen) < budget and any(len(groups[k]) > depth for k in rest):
        for k in rest:
            if len(groups[k]) > depth and len(chosen) < budget:
                chosen.append(groups[k][depth])
        depth += 1
    out = []
    target_lists = [["cpp"], ["cpp", "java"], ["yaml"], ["java", "cpp"]]
    for i in sorted(set(chosen)):
        c, o = stream[i], res[i]
        r = random.Random(f"{ctx.seed}/c19/idl/cli/{i}")
        case = make_case(ROOT_IDL, None, OPTION_SETS[0], r.choice(target_lists), r.random() < 0.3)
        case["files"] = c["files"]
        case["label"] = f"idl/{i}/{c['mut']}@{c['where']}"
        case["level1"] = {"kind": o["kind"], "class": outcome_class(o), "visitor": visit_class(o)}
        out.append(case)
    return out


def click_refuses(sem) -> bool:
    """is the command line malformed at the click level (by construction of the case)?"""
    cmd = sem["command"]
    if not sem["top_ok"] or cmd["kind"] in ("none", "unknown"):
        return True
    if not cmd["args_ok"] or not cmd["targets"]:
        return True
    return any(t not in ("cpp", "cppcli", "java", "objc", "yaml") for t in cmd["targets"])


def spec_request(case, obs) -> dict:
    sem = case["sem"]
    first = next((raised_of(s) for s in obs["api"]["stages"] if s["kind"] != "ok"), None)
    malformed_opts = sem["opt_dict"] is None
    if malformed_opts:
        first = {"kind": "app", "code": 141}
    usage = click_refuses(sem)
    first_st = next((x for x in obs["api"]["stages"] if x["kind"] != "ok"), None)
    return {"op": "c19.spec", "usage": usage, "first": first, "code": obs["rc"] if obs["rc"] is not None and obs["rc"] >= 0 else 999,
            "traceback": obs["traceback"], "first_pos": first_st.get("pos") if first_st and not malformed_opts else None,
            **({"project": case["project"]["intent"]} if case.get("project") else {})}


def brief(o):
    return {"rc": o["rc"], "traceback": o["traceback"], "stderr": o["stderr"][-300:], "api": o["api"]["stages"]}


def traceback_shape(case, obs) -> str:
    sem = case["sem"]
    text = obs["stderr"]
    if any(x["stage"] == "parse" and x["kind"] == "crash" for x in obs["api"]["stages"]):
        return "front-end"
    if any(x.get("unprintable") for x in obs["api"]["stages"]):
        return "diagnostic-cannot-be-rendered"
    if classify_config(config_file_of(case)).get("content") == "nonStringTopKey":
        return "non-string-key"
    if "has no attribute 'cpp'" in text:
        return "glue-without-cpp"
    if sem["opt_dict"] is None:
        return "option-without-equals"
    if sem["config"] == "empty.yaml":
        return "non-mapping-config"
    if "combine_into" in text:
        return "option-over-scalar"
    if "surrogates not allowed" in text:
        return "lone-surrogate-in-config"
    if "IsADirectoryError" in text:
        return "config-directory"
    if "ReaderError" in text or "UnicodeDecodeError" in text:
        return "undecodable-config"
    if "from_pydantic_error" in text:
        return "error-path"
    if "'NoneType' object has no attribute 'include_dirs'" in text:
        return "no-generate-section"
    if "'NoneType' object has no attribute 'out'" in text:
        return "clean-unconfigured-target" if "in clean" in text else "missing-generator-section"
    return "other"


def evaluate(ctx, case, obs, m, sq, s, breaks):
    sem = case["sem"]
    rep = {"args": case["args"], "env": case.get("env"), "case": {k: v for k, v in case.items() if k not in ("child_env",)}}
    trivial = case["args"] == ["generate", "ok.djinni", "cpp"]
    ctx.count(key=json.dumps([case["args"], case.get("env")]), nontrivial=not trivial, sample={"args": case["args"], "rc": obs["rc"]})
    ctx.stat(f"rc_{obs['rc']}")
    if obs["traceback"]:
        ctx.stat("traceback")
    # ---- correspondence: exit status, traceback, effects ---------------------------------------------------
    me = m["exit"]
    if me["code"] != obs["rc"] or me["traceback"] != obs["traceback"]:
        breaks.append({"what": "c19.run exit status vs subprocess exit status", "args": case["args"], "model": me, "stages": m["stages"], "impl": brief(obs)})
    else:
        gen_m = [e[1] for e in m["events"] if e[0] == "generated"]
        report_m = any(e[0] == "report" for e in m["events"])
        if report_m != (obs["report"] is not None) and obs["rc"] == 0:
            breaks.append({"what": "c19.run report event vs report file", "args": case["args"], "model": m["events"], "impl": brief(obs)})
        if obs["report"] is not None and obs["rc"] == 0:
            keys = set((obs["report"].get("generated") or {}).keys())
            want = set()
            for t in gen_m:
                want |= set(c17.live_targets_cached().get(t, []))
            if not keys <= want or (keys != want and kinds_of(case, obs)):
                breaks.append({"what": "c19.run generated events vs report sections", "args": case["args"], "model": sorted(want), "impl": sorted(keys)})
    # model API stages vs in-process API outcome
    pure = [x for x in obs["api"]["stages"] if x["stage"] != "astdump"]
    if m.get("api") and pure and (pure[-1]["kind"] != "ok" or pure[-1]["stage"] == "report"):
        first_impl = next((raised_of(x) for x in pure if x["kind"] != "ok"), None)
        fm = m["api"]["first"]
        same = (fm is None and first_impl is None) or (fm is not None and first_impl is not None and fm["kind"] == first_impl["kind"]
                                                         and fm.get("code") == first_impl.get("code") and fm.get("codes") == first_impl.get("codes"))
        if not same:
            breaks.append({"what": "apiStages first exception vs in-process API sequence", "args": case["args"], "model": fm, "impl": obs["api"]["stages"]})
    # the front end's verdict: `frontOf` on the observed steps of `Parser.parse` vs what `parse` raised
    parse_st = next((x for x in obs["api"]["stages"] if x["stage"] == "parse"), None)
    fr = front_run_of(obs["api"].get("read"), obs["api"].get("front") or [], parse_st, bool(obs["api"].get("visit_escaped"))) if parse_st is not None else None
    ready_ok = len(m["stages"]) > 5 and m["stages"][5]["kind"] == "ok"   # `parse` checks the readiness of the configured targets before it reads the file
    if fr is not None and ready_ok:
        fm, fi = m["front"], raised_of(parse_st)
        ctx.stat("front_" + ("read-fails" if fr["read"] else ("recorded" if fr["syntax"] or fr["visit_errors"] else "clean") + ":visit-" + fr["visit"]["kind"]))
        if (fm["kind"], fm.get("code"), fm.get("codes"), fm.get("cls")) != (fi["kind"], fi.get("code"), fi.get("codes"), fi.get("cls")):
            breaks.append({"what": "frontOf (steps of Parser.parse) vs the exception `parse` raised", "args": case["args"], "label": case.get("label"),
                           "model": fm, "impl": parse_st, "front_run": fr})
    # ---- specification ---------------------------------------------------------------------------------------
    if obs["traceback"] or obs["rc"] == 1:
        ctx.report("cli:traceback-" + traceback_shape(case, obs), f"the command line ended in a Python traceback (exit status {obs['rc']})",
                   {**rep, "impl": brief(obs)})
        return
    if obs["rc"] is None:
        ctx.report("cli:timeout", "the command line did not terminate", {**rep})
        return
    first_st = next((x for x in obs["api"]["stages"] if x["kind"] != "ok"), None)
    if first_st is not None and first_st.get("unprintable"):
        ctx.report("api:diagnostic-cannot-be-rendered", f"the exception the API sequence raised cannot be rendered as a message ({first_st['unprintable']})",
                   {**rep, "impl": brief(obs)})
    cfg_class = classify_config(config_file_of(case))
    if (first_st is not None and first_st["stage"] == "configure" and obs["rc"] == 141 and sem["opt_dict"] is not None and not sq["usage"]
            and (cfg_class["state"] == "directory" or (cfg_class["state"] == "present" and cfg_class["suffix"] != "unknown"
                                                       and cfg_class["content"] in ("syntaxError", "undecodable", "nonMapping")))):
        # the configuration file itself is what is wrong: the message has to name it
        if "".join(sem["config"].split()) not in obs["first_error"]:
            ctx.report("cli:config-diagnostic-does-not-name-file", f"the message for a configuration file the {cfg_class.get('suffix', '')} decoder refuses "
                       f"({cfg_class.get('content', cfg_class['state'])}) does not name the file '{sem['config']}'",
                       {**rep, "impl": brief(obs), "first_message": obs["first_error"][:600]})
    usage = sq["usage"]
    if usage:
        # a command line click refuses: status 2, or the documented code of an error found before click got there
        first = sq["first"]
        ok = obs["rc"] == 2 or (first is not None and s_first_matches(first, obs["rc"]))
        if not ok:
            ctx.report("cli:malformed-command-line-status", f"a malformed command line ended with status {obs['rc']}", {**rep, "impl": brief(obs)})
        if obs["rc"] == 0:
            ctx.report("cli:malformed-command-line-accepted", "a malformed command line ended with status 0", {**rep, "impl": brief(obs)})
        if sem["command"]["kind"] == "generate" and any(k for k in obs["tree"] if not k.endswith("stale.txt")):
            ctx.report("cli:malformed-command-line-wrote-files", "a refused command line wrote output files", {**rep, "impl": brief(obs), "files": list(obs["tree"])[:10]})
        return
    if sq.get("first_pos") and obs["rc"] not in (0, None):
        # the first reported error carries a position: the first message has to name that file and that (line, column)
        fname, line, col = sq["first_pos"]
        if fname not in obs["first_error"] or f"at({line},{col})" not in obs["first_error"]:
            ctx.report("cli:diagnostic-names-other-position", f"the first message does not name file '{fname}' and position ({line}, {col}) of the first reported error",
                       {**rep, "impl": brief(obs), "first_message": obs["first_error"][:600], "first_pos": sq["first_pos"]})
    elif obs["rc"] in (150, 161, 170):
        import re as _re
        text = obs["stdout"] + obs["stderr"]
        if sem["idl"] not in text or not _re.search(r"at \(\d+, \d+\)", text):
            ctx.report("cli:diagnostic-without-position", f"the message for status {obs['rc']} does not name the IDL file and a (line, column) position",
                       {**rep, "impl": brief(obs), "stdout": obs["stdout"][-600:]})
    mv = case.get("malformed")
    if mv:
        # a malformed value delivered through some source: the class of the effective configuration is known by construction
        ctx.stat(f"malformed_{mv['expect']}_rc_{obs['rc']}")
        if mv["expect"] == "refused":
            if obs["rc"] != 141:
                accepted = "config:unknown-nested-key-accepted" if mv["kind"] in c17.UNKNOWN_KEY_KINDS else None
                if accepted is None or obs["rc"] != 0:
                    ctx.report("cli:malformed-value-status", f"the malformed value at '{mv['key']}' ({mv['kind']}, {mv['delivery']}) is in the effective configuration, but the "
                               f"command line ended with status {obs['rc']} instead of 141", {**rep, "impl": brief(obs), "first_message": obs["first_error"][:600]})
                    return
            elif mv["key"] and not any(k == mv["key"] or k.startswith(mv["key"] + ".") for k in named_keys_of_output(obs)):
                ctx.report("cli:config-diagnostic-names-no-key:environment" if mv.get("env_refused") else "cli:config-diagnostic-does-not-name-key",
                           f"the message for the malformed value at '{mv['key']}' ({mv['kind']}, {mv['delivery']}) does not name that key",
                           {**rep, "impl": brief(obs), "first_message": obs["first_error"][:600]})
        elif obs["rc"] != 0:
            ctx.report("cli:overridden-env-value-refused" if mv.get("env_refused") else "cli:overridden-value-refused",
                       f"the malformed value at '{mv['key']}' ({mv['kind']}) is replaced by a valid one in a source of higher precedence ({mv['delivery']}): the effective "
                       f"configuration is valid, but the command line ended with status {obs['rc']}", {**rep, "impl": brief(obs), "first_message": obs["first_error"][:600]})
            return
    pj = case.get("project")
    if pj:
        # a multi-file project: the class of its import graph (known by construction) decides the status — 0 with every declaration
        # of every file generated once and every file listed once in the report; 150 for a circular import; 2 for a missing file
        ps = s.get("project") or {}
        ctx.stat(f"project_cli_{pj['intent']}_rc_{obs['rc']}")
        if not ps.get("holds"):
            ctx.report("cli:project-status-" + pj["intent"], f"a multi-file project of class '{pj['intent']}' ended with status {obs['rc']} instead of the documented {ps.get('code')}",
                       {**rep, "project": pj["meta"], "impl": brief(obs), "first_message": obs["first_error"][:600]})
            return
        if pj["intent"] == "valid":
            import posixpath
            if "cpp" in sem["command"]["targets"]:
                got = sorted(k[len("out/cpp/"):-len(".hpp")] for k in obs["tree"] if k.startswith("out/cpp/") and k.endswith(".hpp"))
                if got != pj["decls"]:
                    ctx.report("cli:project-outputs", "the generated C++ headers are not 'one per declaration of every file of the project'",
                               {**rep, "project": pj["meta"], "headers": got, "declarations": pj["decls"]})
            listed = sorted(posixpath.normpath(x[len("<ws>/"):] if x.startswith("<ws>/") else x) for x in ((obs["report"] or {}).get("parsed") or {}).get("idl", []))
            if obs["report"] is not None and listed != pj["reach"]:
                ctx.report("cli:project-report-inputs", "the report does not list every IDL file of the project exactly once",
                           {**rep, "project": pj["meta"], "listed": listed, "files": pj["reach"]})
    if not s["holds"]:
        ctx.report("cli:exit-status", f"exit status {obs['rc']} is not the documented code of the first error of the equivalent API sequence "
                   f"({sq['first']})", {**rep, "impl": brief(obs), "spec": sq})
        return
    # CLI equals API: same files, same contents, same report
    if sem["opt_dict"] is not None and obs["api"]["stages"]:
        if obs["tree"] != obs["api"]["tree"]:
            a, b = obs["tree"], obs["api"]["tree"]
            # after a failure only the files written are compared: with --log-level debug the command line prints the AST
            # (which evaluates the marshalling) before generating, so it may fail before the first output directory is purged
            diff = sorted(k for k in set(a) | set(b) if a.get(k) != b.get(k) and not k.endswith("report.json")
                          and (obs["rc"] == 0 or not k.endswith("stale.txt")))
            if diff:
                ctx.report("cli:tree-differs-from-api", "the command line wrote other files than the equivalent API sequence", {**rep, "differences": diff[:10]})
        if obs["report"] != obs["api"]["report"]:
            ctx.report("cli:report-differs-from-api", "the processed-files report of the command line differs from the API's", {**rep, "cli": obs["report"], "api": obs["api"]["report"]})
        if obs["rc"] == 0 and not sem["options"] and sem["config"] in ("pydjinni.yaml", "good.json", "good.toml"):
            # --clean purges the output directories of exactly the generated targets; without it left-overs stay
            lt = c17.live_targets_cached()
            for t in ("cpp", "java", "yaml"):
                for g in lt[t]:
                    stale = f"{GEN[g]['out']}/stale.txt" in obs["tree"]
                    want = not (sem["clean"] and t in sem["command"]["targets"])
                    if stale != want:
                        ctx.report("cli:clean-semantics", f"--clean={sem['clean']}: left-over file in the output directory of '{g}' is {'kept' if stale else 'gone'}",
                                   {**rep, "generator": g})


def named_keys_of_output(obs) -> list:
    """the configuration keys the first message names (`'a.b': …` / `in key 'a.b': …`; rich wraps lines anywhere: white space is removed)"""
    import re
    return re.findall(r"(?:inkey)?'([^']*)':", obs["first_error"])


def s_first_matches(first, rc) -> bool:
    if first["kind"] == "app":
        return first["code"] == rc
    if first["kind"] == "applist":
        return bool(first["codes"]) and first["codes"][0] == rc
    return False


def replay(ctx, body):
    if "group" in body:
        cases = body["group"]
        for c in cases:
            c["child_env"] = ctx.child_env()
        cfgsys.register("cli", run_case)
        results = cfgsys.run_pool(ctx.tmp, [("cli", c) for c in cases], workers=8)
        before = len(ctx.violations) + sum(ctx.known_hits.values())
        evaluate_keyword_orders(ctx, cases, results)
        print(json.dumps({"violations": ctx.violations}, indent=1, default=str)[:3000])
        return len(ctx.violations) + sum(ctx.known_hits.values()) == before
    case = body["case"]
    case["child_env"] = ctx.child_env()
    cfgsys.register("cli", run_case)
    obs, = cfgsys.run_pool(ctx.tmp, [("cli", case)], workers=1)
    m = ctx.driver.one(cfgsys.sur2pua(model_request(case, obs)))
    sq = spec_request(case, obs)
    s = ctx.driver.one(sq)
    print(json.dumps(brief(obs), indent=1)[:3000])
    before = len(ctx.violations) + sum(ctx.known_hits.values())
    evaluate(ctx, case, obs, m, sq, s, [])
    if case.get("typeless") and not replay_typeless(ctx, case):
        return False
    return len(ctx.violations) + sum(ctx.known_hits.values()) == before
