"""C04 — type references resolve by lexical namespace scoping, uniquely.

Tie: correspondence between the Lean resolver model (`c04.bindings`: registry, inner-to-outer
search, deferred resolution, shared registry across imported files) and the real parser: the
declaration bound to every reference (by position), unknown-type diagnostics, duplicate rejection.
Specification on the implementation's observation (`c04.spec`): every reference is bound to the
declaration that lexical lookup — longest enclosing-namespace prefix first, a leading dot = root
only — finds in the set of all declarations of the program, independent of order and file.
Inputs: bounded-exhaustive placements of 2–3 same-named declarations in a namespace tree of depth
<= 3 x reference site x spelling x declaration order x (own file | imported file), plus random
larger programs.
Histories: resolution is a function of the program text, not of the past of the configured context
(the model's `front` is a pure function of the file system and the root file): sequences of 2-4
parses on ONE `ConfiguredContext` over a pool of files (declaring files, files referencing names
declared only in other files of the pool, files with imports, the same file twice, random
programs); every parse of a history must have the outcome, the bindings per reference position
and the declarations of the same file parsed on a fresh context, and every reference must be bound
to a declaration object of its own parse.
"""
from __future__ import annotations

import itertools
import json
import os
import random
from pathlib import Path

import front

LEAN_MODULE = "PydjinniModel.Props.C04All"
THEOREMS = [
    "Pydjinni.Front.resolve_eq_lexical",
    "Pydjinni.Front.resolve_none_iff",
    "Pydjinni.Front.resolve_abs",
    "Pydjinni.Front.prefixes_getLast",
    "Pydjinni.Front.get_perm",
    "Pydjinni.Front.resolve_perm",
    "Pydjinni.Front.registerAll_ok_eq",
    "Pydjinni.Front.registerAll_ok_iff",
    "Pydjinni.Front.registerAll_error_dup",
    "Pydjinni.Front.resolveStep_binds_lexical",
    "Pydjinni.Front.resolveStep_spec",
    "Pydjinni.Front.resolveLoop_spec",
    "Pydjinni.Front.regs_walkContents",
    "Pydjinni.Front.file_registers_iff",
    "Pydjinni.Front.get_stable",
    "Pydjinni.Front.lexicalLookup_stable",
    "Pydjinni.Front.front_bindings_lexical",
    "Pydjinni.Front.findSome_prefixes_iff",
    "Pydjinni.Front.resolve_some_iff_innermost",
    "Pydjinni.Front.resolve_depth_unique",
    "Pydjinni.Front.resolve_inner_shadows",
    "Pydjinni.Front.resolve_only_enclosing",
    "Pydjinni.Front.prefixes_eq_takes",
]
LEVEL = "proof"

POSITIONS = [[], ["a"], ["a", "b"], ["a", "b", "c"], ["a", "d"], ["e"], ["a", "b", "a"], ["ab"], ["b"]]   # "a" is a proper prefix of "ab" as a string only
KINDS = ["enum", "record", "interface"]


def decl_text(kind, name):
    return {"enum": f"{name} = enum {{ k; }}", "record": f"{name} = record {{ }}", "interface": f"{name} = interface {{ }}"}[kind]


def spellings(places):
    out = {"x", ".x", "q.x", ".q.x"}
    for ns in places:
        q = ns + ["x"]
        for i in range(len(q)):
            out.add(".".join(q[i:]))
        out.add("." + ".".join(q))
    return sorted(out)


def placement_cases():
    cases = []
    for k in (1, 2, 3):
        for places in itertools.combinations(range(len(POSITIONS)), k):
            pl = [POSITIONS[i] for i in places]
            sp = spellings(pl)
            for rot in range(len(sp)):
                cases.append((pl, rot))
    return cases


def emit_tree(items, r, order):
    """items: [(ns, text)] -> text with a namespace tree: blocks shared by everything with the same prefix,
    inner blocks first (so declarations follow an inner closing brace), dotted merging of single chains."""
    root = {"own": [], "kids": {}}
    for ns, text in items:
        node = root
        for part in ns:
            node = node["kids"].setdefault(part, {"own": [], "kids": {}})
        node["own"].append(text)

    def go(node):
        parts = []
        kids = list(node["kids"].items())
        own = list(node["own"])
        if order == 0:
            own.reverse()
        for name, child in kids:
            while not child["own"] and len(child["kids"]) == 1 and r.random() < 0.5:
                nxt, cc = next(iter(child["kids"].items()))
                name, child = name + "." + nxt, cc
            parts.append(f"namespace {name} {{ {go(child)} }}")
        if r.random() < 0.7:
            return " ".join(parts + own)
        return " ".join(own + parts)
    return go(root)


def build(pl, rot, order, split, r):
    """one holder record at every namespace position, each with two differently spelled references;
    order: holders before/after the declarations inside a block; split: declarations in an imported file"""
    sp = spellings(pl)
    decls = [(ns, decl_text(KINDS[i % 3], "x")) for i, ns in enumerate(pl)]
    holders = []
    for i, site in enumerate(POSITIONS):
        s1, s2 = sp[(rot + i) % len(sp)], sp[(rot + 3 * i + 1) % len(sp)]
        holders.append((site, f"h{i} = record {{ f: {s1}; g: list<{s2}>; }}"))
    if split == 2:
        # declarations and references in both files: the imported file is finished (its references bound) before the
        # importing file registers the declarations that shadow / would have matched them
        k = 1 + (rot % len(pl)) if len(pl) > 1 else 1
        lib_holders = [(site, text.replace(f"h{i} =", f"g{i} =")) for i, (site, text) in enumerate(holders)]
        return {"/w/m.djinni": '@import "lib.djinni"\n' + emit_tree(holders + decls[k:], r, order),
                "/w/lib.djinni": emit_tree(decls[:k] + lib_holders if order else lib_holders + decls[:k], r, order)}
    if split:
        return {"/w/m.djinni": '@import "lib.djinni"\n' + emit_tree(holders, r, order), "/w/lib.djinni": emit_tree(decls, r, order)}
    items = holders + decls if order == 0 else decls + holders
    return {"/w/m.djinni": emit_tree(items, r, order)}


def run(ctx):
    ctx.coverage["rule"] = ("placements of 1–3 declarations named x among 6 namespace positions (depth <= 3) x 6 reference sites x all "
                            "relative/partly qualified/absolute spellings x reference before/after x own/imported file/both files (imported file finished first); plus random programs; plus histories of 2-4 parses on one configured context over pools of such files (each parse compared with a fresh context); "
                            "distinct = distinct (placement, site, spelling, order, split); non-trivial = reference resolves to a user type or is rejected")
    allc = placement_cases()
    r = random.Random(f"{ctx.seed}/c04")
    if ctx.quick:
        allc = r.sample(allc, min(1500, len(allc)))
    todo = []
    for (pl, rot) in allc:
        variants = [(0, False), (1, False), (0, True), (0, 2), (1, 2)] if not ctx.quick else [r.choice([(0, False), (1, False), (0, True), (0, 2), (1, 2)])]
        for order, split in variants:
            todo.append({"files": build(pl, rot, order, split, random.Random(f"{ctx.seed}/c04/{pl}/{rot}/{order}/{split}")), "root": "/w/m.djinni",
                         "meta": ("place", tuple(map(tuple, pl)), rot, order, split)})
    # duplicates: same qualified name twice / a built-in name / across files
    for dup in ["x = enum { a; }\nx = record { }", "namespace a { x = enum { a; } }\nnamespace a { x = interface { } }",
                "list = enum { a; }", "namespace a { i32 = record { } }\nr = record { f: a.i32; g: i32; }", "a.b = enum { k; }"]:
        todo.append({"files": {"/w/m.djinni": dup}, "root": "/w/m.djinni", "meta": ("dup", dup)})
    todo.append({"files": {"/w/m.djinni": '@import "lib.djinni"\nx = enum { a; }', "/w/lib.djinni": "x = record { }"}, "root": "/w/m.djinni", "meta": ("dup", "import")})
    # files whose names differ only in letter case are different files: both are loaded, each declaration binds
    for j, (first, second) in enumerate([("Shapes", "shapes"), ("shapes", "Shapes"), ("lib/Geo", "lib/geo")]):
        todo.append({"files": {"/w/m.djinni": f'@import "{first}.djinni"\n@import "{second}.djinni"\nnamespace app {{ h = record {{ f: x; g: .x; k: y; }} }}',
                               f"/w/{first}.djinni": "x = enum { k; }\nnamespace app { y = record { } }",
                               f"/w/{second}.djinni": "namespace app { x = record { } h2 = record { f: x; g: y; } }"},
                     "root": "/w/m.djinni", "meta": ("letter-case", j)})
    # external types (@extern): they bind like declarations, and a name that is already taken is a duplicate
    ext = lambda name, ns=(), prim="record": {"ext": [{"name": name, "ns": list(ns), "prim": prim}]}
    for name, files in {
        "extern-binds": {"/w/m.djinni": '@extern "e.yaml"\nr = record { f: a.b.x; g: list<a.b.x>; }', "/w/e.yaml": ext("x", ("a", "b"))},
        "extern-after-import-dup": {"/w/m.djinni": '@import "lib.djinni"\n@extern "e.yaml"\nr = record { f: x; }', "/w/lib.djinni": "x = record { }", "/w/e.yaml": ext("x")},
        "extern-builtin-dup": {"/w/m.djinni": '@extern "e.yaml"\nr = record { f: i32; }', "/w/e.yaml": ext("i32")},
        "extern-twice-dup": {"/w/m.djinni": '@extern "e.yaml"\n@extern "f.yaml"\nr = record { f: x; }', "/w/e.yaml": ext("x", (), "enum"), "/w/f.yaml": ext("x", (), "record")},
        "extern-two-docs-dup": {"/w/m.djinni": '@extern "e.yaml"\nr = record { f: n.x; }', "/w/e.yaml": {"ext": [{"name": "x", "ns": ["n"], "prim": "enum"}, {"name": "x", "ns": ["n"], "prim": "record"}]}},
        "extern-then-decl-dup": {"/w/m.djinni": '@extern "e.yaml"\nx = enum { k; }', "/w/e.yaml": ext("x")},
        "extern-shadowing": {"/w/m.djinni": '@extern "e.yaml"\nnamespace a { x = enum { k; } h = record { f: x; g: .x; } }', "/w/e.yaml": ext("x")},
    }.items():
        todo.append({"files": files, "root": "/w/m.djinni", "meta": ("extern", name)})
    # random larger programs
    for i in range(ctx.n(800, 8000)):
        rr = random.Random(f"{ctx.seed}/c04/r{i}")
        g = front.Gen(rr, p_bad=0.12, max_decls=7, dup_names=rr.random() < 0.4, comments=False)
        R = front.Render(rr, 'min')
        todo.append({"files": {"/w/m.djinni": R.join(R.program(g.program()))}, "root": "/w/m.djinni", "meta": ("random", i)})

    results = front.run_many(ctx.tmp, todo)
    breqs = [{**req, "op": "c04.bindings"} for _, req in results]
    sreqs = [{**req, "op": "c04.spec", "impl": impl_obs(impl), "bindings": impl.get("bindings", [])} for impl, req in results]
    answers = ctx.driver.batch(breqs)
    specs = ctx.driver.batch(sreqs)
    # declarative whole-program specification (`programDiags` / `programCollision`, tied to the model by
    # front_eq_programDiags / front_duplicate_position): a duplicate is raised at the first colliding registration
    progs = ctx.driver.batch([{**req, "op": "c11.prog", "impl": impl_obs(impl)} for impl, req in results])
    for t, (impl, req), pg in zip(todo, results, progs):
        if "error" in pg:
            raise RuntimeError(f"driver error {pg}")
        ctx.stat("programDiags_" + str(pg.get("verdict")))
        if pg.get("verdict") not in ("holds", "not-applicable") and impl["kind"] not in ("crash", "hang"):
            ctx.report("resolution:" + pg["verdict"], "the outcome differs from the declarative whole-program specification (duplicates are raised at the second "
                       "declaration of the name in registration order; otherwise the diagnostics are exactly programDiags)",
                       {"input": {"files": t["files"], "root": t["root"]}, "impl": {k: v for k, v in impl.items() if k not in ("ast", "result")},
                        "programDiags": pg.get("spec"), "hypotheses": pg.get("hypotheses")})
    breaks = []
    for t, (impl, req), m, s in zip(todo, results, answers, specs):
        for x in (m, s):
            if "error" in x:
                raise RuntimeError(f"driver error {x}")
        mo = front.canon_outcome(m["outcome"])
        io = front.canon_outcome(impl)
        mb = sorted((b["file"], tuple(b["p"]), b["key"]) for b in m["bindings"])
        ib = sorted((b["file"], tuple(b["p"]), b["key"]) for b in impl.get("bindings", []))
        user = any("." in b[2] or b[2] == "x" for b in ib) or impl["kind"] != "ok"
        ctx.count(key=t["meta"], nontrivial=user, sample={"files": t["files"], "impl": impl["kind"], "bindings": [b[2] for b in ib][:6]})
        ctx.stat("impl_" + impl["kind"])
        if mo[0] == "syntax":
            continue
        if mo != io or (impl["kind"] in ("ok", "diags") and mb != ib):
            breaks.append({"files": t["files"], "why": "outcome differs" if mo != io else "bindings differ",
                           "model": m, "impl": {k: v for k, v in impl.items() if k not in ("ast", "result")}})
        if not s["holds"]:
            ctx.report("resolution:" + "+".join(sorted(set(s.get("why", ["?"])))),
                       "a reference is not bound to the declaration lexical scoping denotes (or an unknown/duplicate name is not rejected)",
                       {"input": {"files": t["files"], "root": t["root"]}, "spec": s, "impl": {k: v for k, v in impl.items() if k not in ("ast", "result")}})
    check_histories(ctx)
    ctx.stats["correspondence_breaks"] = len(breaks)
    if breaks and not ctx.violations:
        ctx.report("correspondence", "resolver model and implementation disagree; lexical scoping holds on every sampled input",
                   {"correspondence": "c04.bindings vs ConfiguredContext.parse", "first": breaks[0], "count": len(breaks)}, no_failing_input=True)


# ---------------------------------------------------------------------------------------------
# histories: several parses on one configured context
# ---------------------------------------------------------------------------------------------

def history_pool(pl, rot, order, r, seedkey):
    """a pool of files over one placement: importing file + imported file (both with declarations and references),
    a file with only the declarations, a file that only references (names declared in OTHER files of the pool, no
    import), an importing file that only references, a random program"""
    files = dict(build(pl, rot, order, 2, r))
    sp = spellings(pl)
    decls = [(ns, decl_text(KINDS[(i + rot) % 3], "x")) for i, ns in enumerate(pl)]
    holders = []
    for i, site in enumerate(POSITIONS):
        s1, s2 = sp[(rot + 2 * i) % len(sp)], sp[(rot + i + 2) % len(sp)]
        holders.append((site, f"k{i} = record {{ f: {s1}; g: set<{s2}>; }}"))
    files["/w/decls.djinni"] = emit_tree(decls, r, order)
    files["/w/refs.djinni"] = emit_tree(holders, r, order)
    files["/w/irefs.djinni"] = '@import "decls.djinni"\n' + emit_tree(holders[::2], r, 1 - order)
    rr = random.Random(f"{seedkey}/prog")
    g = front.Gen(rr, p_bad=0.1, max_decls=5, dup_names=rr.random() < 0.3, comments=False)
    R = front.Render(rr, 'min')
    files["/w/rand.djinni"] = R.join(R.program(g.program()))
    return files


def histories_for(files, r, k):
    names = sorted(files)
    fixed = [["/w/decls.djinni", "/w/refs.djinni"], ["/w/decls.djinni", "/w/decls.djinni"], ["/w/m.djinni", "/w/refs.djinni", "/w/m.djinni"],
             ["/w/lib.djinni", "/w/m.djinni"], ["/w/irefs.djinni", "/w/refs.djinni", "/w/decls.djinni", "/w/irefs.djinni"],
             ["/w/rand.djinni", "/w/rand.djinni", "/w/refs.djinni"], ["/w/refs.djinni", "/w/lib.djinni", "/w/refs.djinni"]]
    out = r.sample(fixed, min(k, len(fixed)))
    while len(out) < k:
        out.append([r.choice(names) for _ in range(r.randint(2, 4))])
    return out


def _obs(impl):
    """what is compared between a parse on a used context and the same parse on a fresh one"""
    o = {"outcome": json.loads(json.dumps(front.canon_outcome(impl))),
         "bindings": sorted([b["file"], list(b["p"]), b["key"]] for b in impl.get("bindings", [])),
         "decls": list(impl.get("decls", []))}
    if impl["kind"] == "diags":
        o["messages"] = sorted([d["file"], list(d["p"]), d["msg"]] for d in impl["diags"])
    if impl["kind"] in ("raised", "file-not-found", "crash"):
        o["message"] = impl.get("msg", "")
    res = impl.get("result")
    if res is not None:
        # a reference to a name this parse declares is bound to the declaration object of THIS parse
        own = {}
        for d in res.defs or []:
            own.setdefault(".".join([str(x) for x in d.namespace] + [str(d.name)]), []).append(d)
        foreign = []
        for t in res.refs or []:
            td = t.type_def
            if td is None or t.name == "<function>":
                continue
            key = ".".join([str(x) for x in td.namespace] + [str(td.name)])
            if key in own and not any(td is d for d in own[key]):
                foreign.append([key, front._pos(t.position)])
        o["foreign_declarations"] = sorted(foreign)
    return o


def _history_worker(args):
    import signal
    base, idx, chunk, timeout = args
    sb = front.Sandbox(Path(base) / f"h{idx}")
    out = []

    def on_alarm(*_):
        raise front._Hang()

    signal.signal(signal.SIGALRM, on_alarm)
    for case in chunk:
        root, _ = sb.materialise(case["files"])
        old = os.getcwd()
        os.chdir(root / "w")
        res = {"fresh": {}, "runs": []}
        signal.alarm(timeout)
        try:
            for f in sorted({f for h in case["histories"] for f in h}):
                res["fresh"][f] = _obs(front.real_parse(front.make_context(), root / f.lstrip("/"), root))
            for h in case["histories"]:
                cc = front.make_context()
                res["runs"].append([_obs(front.real_parse(cc, root / f.lstrip("/"), root)) for f in h])
        except front._Hang:
            res["hang"] = timeout
        finally:
            signal.alarm(0)
            os.chdir(old)
        out.append(res)
    return out


def run_histories(base, cases, timeout=60, workers=12):
    """worker subprocesses (the context keeps state across parses: nothing of it may leak into the check's process)"""
    import multiprocessing as mp
    if not cases:
        return []
    front.builtin_registry()
    front.target_keys()
    workers = max(1, min(workers, len(cases) // 2 or 1))
    chunks = [cases[i::workers] for i in range(workers)]
    with mp.get_context("fork").Pool(workers) as pool:
        res = pool.map(_history_worker, [(str(base), i, ch, timeout) for i, ch in enumerate(chunks)])
    out = [None] * len(cases)
    for w, rs in enumerate(res):
        for j, x in enumerate(rs):
            out[w + j * workers] = x
    return out


def history_verdict(case, res):
    """-> [(history, step, fresh observation, observation on the used context, why)]"""
    bad = []
    if "hang" in res:
        return [(case["histories"][len(res["runs"])] if len(res["runs"]) < len(case["histories"]) else [], -1, None, None, "hang")]
    for f, o in res["fresh"].items():
        if o.get("foreign_declarations"):
            bad.append(([f], 0, o, o, "bound to a declaration object that is not of this parse"))
    for h, run in zip(case["histories"], res["runs"]):
        for k, (f, o) in enumerate(zip(h, run)):
            if o != res["fresh"][f]:
                fr = res["fresh"][f]
                why = [x for x in ("outcome", "bindings", "decls", "messages", "message", "foreign_declarations") if o.get(x) != fr.get(x)]
                bad.append((h[:k + 1], k, fr, o, "differs in " + "+".join(why)))
                break
    return bad


def check_histories(ctx):
    r = random.Random(f"{ctx.seed}/c04/hist")
    allc = placement_cases()
    picks = r.sample(allc, ctx.n(60, 1200))
    cases = []
    for j, (pl, rot) in enumerate(picks):
        order = j % 2
        key = f"{ctx.seed}/c04/hist/{pl}/{rot}/{order}"
        files = history_pool(pl, rot, order, random.Random(key), key)
        cases.append({"files": files, "histories": histories_for(files, random.Random(key + "/h"), 5 if ctx.quick else 8)})
    results = run_histories(ctx.tmp, cases)
    failing = []
    for case, res in zip(cases, results):
        for h, run in zip(case["histories"], res.get("runs", [])):
            changed = any(o["outcome"][0] != "ok" for o in run)
            ctx.count(key=("history", tuple(h), json.dumps(case["files"], sort_keys=True)), nontrivial=changed or len(set(h)) < len(h),
                      sample={"history": h, "outcomes": [o["outcome"][0] for o in run]})
            ctx.stat("history_parses", len(h))
        for v in history_verdict(case, res):
            ctx.stat("history_dependent")
            failing.append((case, v))
    # the shortest failing histories (smallest files first) are the replays
    failing.sort(key=lambda cv: (len(cv[1][0]), sum(len(cv[0]["files"][f]) for f in set(cv[1][0]))))
    for case, (h, k, fresh, used, why) in failing[:3]:
        if True:
            ctx.report("resolution:history-dependent" if why != "hang" else "resolution:history-hang",
                       "a parse on a configured context that has parsed before differs from the same file parsed on a fresh context "
                       "(resolution is a function of the program text, not of the context's past): " + why,
                       {"input": {"files": {f: t for f, t in case["files"].items() if f in h or any(f.endswith("/" + i) for i in ("lib.djinni", "decls.djinni"))}, "history": h}, "step": k, "file": h[k] if h else None, "why": why,
                        "fresh_context": fresh, "used_context": used})


def impl_obs(impl):
    o = {"kind": impl["kind"]}
    if impl["kind"] == "diags":
        o["diags"] = [{"cls": d["cls"], "file": d["file"], "p": d["p"]} for d in impl["diags"]]
    if impl["kind"] == "raised":
        o.update({"cls": impl["cls"], "file": impl["file"], "p": impl["p"]})
    return o


def replay(ctx, body):
    inp = body["input"]
    if "history" in inp:
        case = {"files": inp["files"], "histories": [inp["history"]]}
        res, = run_histories(ctx.tmp, [case])
        bad = history_verdict(case, res)
        print(json.dumps({"history": inp["history"], "fresh": res["fresh"], "runs": res.get("runs"), "verdict": [b[4] for b in bad]}, indent=1)[:4000])
        return not bad
    (impl, req), = front.run_many(ctx.tmp, [{"files": inp["files"], "root": inp["root"]}])
    s = ctx.driver.one({**req, "op": "c04.spec", "impl": impl_obs(impl), "bindings": impl.get("bindings", [])})
    print(json.dumps({"impl": {k: v for k, v in impl.items() if k not in ("ast", "result")}, "spec": s}, indent=1)[:4000])
    return bool(s.get("holds"))
