"""C20 — a failing external build/publish tool is reported and leaves no trace of success.

Tie: correspondence between the Lean packaging model (`Sys/Pkg.lean`: `execute` with its chdir/restore, the step
lists of build / package / publish per target, file operations, tool effects) and the real pipeline
(`API().configure().package(key).build(platform)… .write_package()`, `.publish(key)`) run with stub tools on PATH,
one process per case: exception code, process cwd after the call, the whole file tree below the project, and the
stub log (tool, identifying arguments, directory each tool ran in).
Faults: for every configuration first a run with succeeding tools (its stub log enumerates the invocation points),
then every invocation point k failing in turn, as "exits non-zero" and as "not on PATH from here on"; then *sets* of
faults: whenever a run continued past its last injected fault (the failure was handled by the caller: a probe with a
fallback), every later invocation point of *that* run fails in addition (non-zero, or tools gone from there on),
recursively; thorough tier: every pair (i, j) of invocation points on top of that.
Of several failing points the first that is not a handled probe has to be reported (`effectiveFault`, Lean).
Specification on the implementation's observation (`c20.spec`, the Lean function `Pkg.spec`): fault ->
code 130, cwd after = cwd before, no invocation after the failing one, no finished artifact in the package output
directory (build / publish phase: nothing new there); every tool ran in the caller's directory or below it, or below the
configured output base; no fault -> success with the artifact present.
Location dimension: the package and publish pipelines of every target also run with `package.out` (and with it the build and
package directories) nested, absolute inside the project, absolute outside of it and reached through `..`, started in the
project directory and in a sub-directory of it — each with every invocation point failing both ways.
Session dimension: sequences of two or three operations in ONE process (`pkg._run_seq`), each in a project directory of its own with
`os.chdir` between them (success then failure, failure then failure, failure then success, …; the same or a fresh `API` object; the
failing later steps rotate through every class of invocation point): every step is judged like an operation run alone — model and
specification know nothing of the process' past (`session_restores_cwd`, `session_fault_reported`).
History dimension (`history_bases`, `pkg.prior_case`): every package target's pipelines on ONE output tree that one or two earlier succeeding package runs
of the same project have filled (each a call of its own; with / without `clean`; the same or more architectures) — the package build directory, which is
wiped only with `clean`, still holds what the packaging tool left there; then every invocation point failing both ways, the judged run with and without
`clean`. The model starts from `afterRuns` of the earlier configurations (Lean `Sys/PkgHistory.lean`; theorems `history_fault_spec`,
`history_package_failure_no_artifact`: the fault theorems hold from every world, so from every history).
Environment dimension: the pipelines of every target also run with optional helper programs installed next to the named tools
(`pkg.helper_candidates`: every program name the packaging code mentions in a `which` / `execute` / `os.system` / `subprocess` call —
read off its syntax tree — every name a run looked up with `shutil.which`, and the common formatters, caches, wrappers: xcpretty, ccache,
sccache, tee, time, nice, xcrun, …; all of them, a random half, thorough: each looked-up name alone), each with every invocation point
failing both ways; the helpers stay when the named tools disappear. The model does not know the helpers: its verdict is the named tool's
(`named_status_decides`, `executeSh_simple`; `executeSh_pipe_hides_failure` is the counterexample). Every stub records the status it exits
with, the worker records every command line handed to the shell and every path created: `Pkg.specObs` asks on every observation that
a named tool's own non-zero status (not handled by its caller) ends in 130 whatever the shell made of it, that every command line is one
simple command (no `|`, `;`, `&`, newline outside quotes), and that nothing new lies outside the configured directories.
Address dimension: the Swift package publish under every spelling of `publish.repository` (`pkg.address_forms`: scp-like with one, two,
several path segments, `~`, absolute server paths, port-like segments, other users, trailing slashes, missing / doubled / upper-case
suffix; http(s) URLs with ports, user names, queries; other schemes; directories relative, absolute, through `..`), fresh and existing
clone. Whether a spelling goes through git is the model's statement (`Pkg.classifyRepo`, the rule of the code; `classify_remote_iff`,
`scpLike_any_depth`); invocation points the model lists but the run did not show fail as well, so "git absent or failing at any point
=> 130" is asked of every address the model sends through git (`publish_remote_git_unavailable_130`, `publish_remote_fault_reported`),
and a directory named like the address is caught by the `wrote-outside-configured-directories` clause.
Outside the domain (`unquoted_bases`): `package.out` with a blank / `;` / `|` — the command line is joined unquoted; specification only,
reported under the known finding `execute:unquoted-value`.
"""
from __future__ import annotations

import itertools
import json
import random

import common
import pkg

LEAN_MODULE = "PydjinniModel.Props.C20"
THEOREMS = [
    "Pydjinni.Sys.Pkg.execute_restores_cwd",
    "Pydjinni.Sys.Pkg.execute_reports_external",
    "Pydjinni.Sys.Pkg.execute_fault_any_dir",
    "Pydjinni.Sys.Pkg.executePinned_nonzero_moves_cwd",
    "Pydjinni.Sys.Pkg.executePinned_default_runs_elsewhere",
    "Pydjinni.Sys.Pkg.run_restores_cwd",
    "Pydjinni.Sys.Pkg.run_fault_reported",
    "Pydjinni.Sys.Pkg.run_ok_clean",
    "Pydjinni.Sys.Pkg.fault_at_any_point",
    "Pydjinni.Sys.Pkg.package_failure_no_artifact",
    "Pydjinni.Sys.Pkg.build_leaves_output_untouched",
    "Pydjinni.Sys.Pkg.publish_leaves_output_untouched",
    "Pydjinni.Sys.Pkg.packageOp_fault_spec",
    "Pydjinni.Sys.Pkg.first_unhandled_fault_ends",
    "Pydjinni.Sys.Pkg.packageOp_faults_spec",
    "Pydjinni.Sys.Pkg.faults_reported_or_recovered",
    "Pydjinni.Sys.Pkg.probe_and_fallback_fail_reported",
    "Pydjinni.Sys.Pkg.run_probeFollowed",
    "Pydjinni.Sys.Pkg.execOr_log",
    "Pydjinni.Sys.Pkg.faultsAt_nonzero",
    "Pydjinni.Sys.Pkg.faultsAt_single",
    "Pydjinni.Sys.Pkg.session_restores_cwd",
    "Pydjinni.Sys.Pkg.session_dirs",
    "Pydjinni.Sys.Pkg.session_fault_reported",
    "Pydjinni.Sys.Pkg.executeCached_stale_moves_cwd",
    "Pydjinni.Sys.Pkg.named_status_decides",
    "Pydjinni.Sys.Pkg.Sh.simple_status",
    "Pydjinni.Sys.Pkg.executeSh_simple",
    "Pydjinni.Sys.Pkg.executeSh_pipe_hides_failure",
    "Pydjinni.Sys.Pkg.executeSh_list_hides_failure",
    "Pydjinni.Sys.Pkg.executeSh_and_keeps_failure",
    "Pydjinni.Sys.Pkg.scpLike_any_depth",
    "Pydjinni.Sys.Pkg.scpLike_single",
    "Pydjinni.Sys.Pkg.classify_remote_iff",
    "Pydjinni.Sys.Pkg.run_calls_prefix",
    "Pydjinni.Sys.Pkg.publish_remote_starts_git",
    "Pydjinni.Sys.Pkg.publish_remote_git_unavailable_130",
    "Pydjinni.Sys.Pkg.publish_remote_fault_reported",
    "Pydjinni.Sys.Pkg.publish_local_no_command",
    "Pydjinni.Sys.Pkg.afterRuns_calls",
    "Pydjinni.Sys.Pkg.history_fault_spec",
    "Pydjinni.Sys.Pkg.history_package_failure_no_artifact",
]
LEVEL = "proof"
TRUSTED = ("external tools replaced by stub scripts that log their invocation and the status they exit with, fail at the chosen point and otherwise "
           "leave the files the model lists as the tool's effect (harness/pkg.py STUB); the Android wrapper script `gradlew` is the real one, `java` "
           "is the stub; helper programs of the environment are stubs that pass a wrapped command's status on or swallow their input and exit 0; "
           "`shutil.which`, `os.system`, `subprocess.Popen(shell=True)` are wrapped by recorders that delegate unchanged",)

ARCHS4 = ["x86", "x86_64", "armv7", "armv8"]
SWIFT = {"macos": ["x86_64", "armv8"], "ios": ["armv8"], "ios_simulator": ["x86_64", "armv8"]}


def nonempty_sublists(xs):
    for n in range(1, len(xs) + 1):
        for c in itertools.combinations(xs, n):
            yield list(c)


def package_bases(ctx, r):
    """configurations of the package operation: target x platform/architecture sets x switches"""
    out = []

    def flags(i):
        # deterministic spread of the switches over the bases
        return {"clean": bool(i & 1), "stale": bool(i & 2), "out_abs": (i % 5 == 4), "configuration": "debug" if i % 7 == 3 else "release"}

    sets4 = list(nonempty_sublists(ARCHS4)) + [list(reversed(ARCHS4)), ["armv7", "x86"]]
    variants = [0] if ctx.quick else [0, 1, 2, 3]          # thorough: every clean x stale combination per base
    for i, archs in enumerate(sets4):
        for v in variants:
            out.append({"key": "aar", "platforms": [["android", archs]], **flags(i + v)})
            if not ctx.quick or i % 2 == 0 or len(archs) == 1:
                out.append({"key": "nuget", "platforms": [["windows", archs]], "pdb": bool(i % 2), "readme": bool(i % 3 == 1), **flags(i + 1 + v)})
    # swiftpackage: platform subsets x architecture subsets (x dSYM)
    combos = []
    for plats in nonempty_sublists(list(SWIFT)):
        for archsel in itertools.product(*[list(nonempty_sublists(SWIFT[p])) for p in plats]):
            combos.append([[p, a] for p, a in zip(plats, archsel)])
    if ctx.quick:
        fixed = [[["ios", ["armv8"]]], [["macos", ["x86_64", "armv8"]]], [["macos", ["x86_64", "armv8"]], ["ios", ["armv8"]], ["ios_simulator", ["x86_64", "armv8"]]]]
        combos = fixed + r.sample(combos, 9)
    for i, plats in enumerate(combos):
        for dsym in ((i % 2 == 0,) if ctx.quick else (False, True)):
            for v in variants[:2]:
                out.append({"key": "swiftpackage", "platforms": plats, "dsym": dsym, **flags(i + 2 + v)})
    # architectures given on the command line (a set) instead of the configuration
    out.append({"key": "aar", "platforms": [["android", ["armv7"]]], "explicit": True, "clean": True})
    out.append({"key": "swiftpackage", "platforms": [["ios_simulator", ["x86_64"]]], "explicit": True, "dsym": True})
    # an empty architecture list: nothing is built, packaging still runs its tool
    out.append({"key": "nuget", "platforms": [["windows", []]], "clean": False})
    for b in out:
        b["phase"] = "package"
    return out


def publish_bases(ctx):
    out = []
    for mode in ("local", "remote"):
        out.append({"key": "aar", "platforms": [["android", ["x86"]]], "publish_mode": mode, "clean": True})
        for pdb in (False, True):
            out.append({"key": "nuget", "platforms": [["windows", ["x86_64"]]], "publish_mode": mode, "pdb": pdb, "clean": mode == "local"})
    # the wrapper script itself is gone (package build directory tampered with between package and publish): a missing command
    gone = {"k": 0, "kind": "missing", "tool": "gradlew", "sig": [], "via_java": False, "model_kind": "missing", "handled": False,
            "max_logged": 0, "phase": "publish"}
    out.append({"key": "aar", "platforms": [["android", ["x86"]]], "publish_mode": "local", "remove_gradlew": True, "fault": dict(gone)})
    out.append({"key": "aar", "platforms": [["android", ["x86"]]], "publish_mode": "remote", "remove_gradlew": True, "out_abs": True, "fault": dict(gone)})
    for mode in ("git", "url"):
        for repo in (False, True):
            out.append({"key": "swiftpackage", "platforms": [["ios", ["armv8"]]], "publish_mode": mode, "repo_exists": repo, "clean": True,
                        "out_abs": mode == "url" and repo})
    out.append({"key": "swiftpackage", "platforms": [["macos", ["x86_64", "armv8"]]], "publish_mode": "local", "dsym": True})
    for b in out:
        b["phase"] = "publish"
    return out


# where the operation is started x where `package.out` lies (pkg.OUT_KINDS x pkg.CWD_KINDS); the default (dist, proj) and
# (in_abs, proj) are what the bases above use
LOCATIONS = [(o, c) for c in pkg.CWD_KINDS for o in pkg.OUT_KINDS if (o, c) not in (("dist", "proj"), ("in_abs", "proj"))]


def location_bases(ctx):
    """the location dimension: every target's package and publish pipelines — i.e. every kind of invocation point, those with a working
    directory of their own (gradle wrapper, nuget pack / sources / push, git in the clone) and those without (conan, lipo, xcodebuild,
    git clone) — under every (out, cwd) location. Every invocation point of each then fails in turn (`fault_cases`)."""
    reps = [
        {"key": "aar", "platforms": [["android", ["x86"]]], "phase": "package", "clean": True},
        {"key": "nuget", "platforms": [["windows", ["x86_64"]]], "phase": "package", "pdb": True, "readme": True, "stale": True},
        {"key": "swiftpackage", "platforms": [["macos", ["x86_64", "armv8"]]], "phase": "package", "dsym": True, "clean": True},
        {"key": "aar", "platforms": [["android", ["x86"]]], "phase": "publish", "publish_mode": "local", "clean": True},
        {"key": "nuget", "platforms": [["windows", ["x86_64"]]], "phase": "publish", "publish_mode": "remote", "pdb": True},
        {"key": "swiftpackage", "platforms": [["ios", ["armv8"]]], "phase": "publish", "publish_mode": "git", "repo_exists": False, "clean": True},
    ]
    if not ctx.quick:
        reps += [
            {"key": "aar", "platforms": [["android", ["armv7", "armv8"]]], "phase": "publish", "publish_mode": "remote"},
            {"key": "nuget", "platforms": [["windows", ["x86", "armv8"]]], "phase": "publish", "publish_mode": "local"},
            {"key": "swiftpackage", "platforms": [["ios", ["armv8"]]], "phase": "publish", "publish_mode": "url", "repo_exists": True},
            {"key": "swiftpackage", "platforms": [["macos", ["x86_64"]], ["ios_simulator", ["x86_64", "armv8"]]], "phase": "publish", "publish_mode": "local", "dsym": True},
            {"key": "swiftpackage", "platforms": [["macos", ["armv8"]], ["ios", ["armv8"]]], "phase": "package", "stale": True},
            {"key": "nuget", "platforms": [["windows", ["x86", "x86_64", "armv8"]]], "phase": "package", "clean": True},
        ]
    return [{**b, "out": o, "cwd": c} for (o, c) in LOCATIONS for b in reps]


def history_bases(ctx):
    """the history dimension: the operation runs on an output tree that earlier *succeeding* package runs of the same project have filled —
    build directories, the package build directory (wiped only with `clean`) holding what the packaging tool left there, the package output
    directory holding the finished artifact. Every package target; one or two earlier runs (with / without clean, with the same or with more
    architectures); the judged run with and without clean; package and publish phase. Every invocation point of each then fails in turn,
    both ways (`fault_cases`): after the failing run 130, cwd restored, no finished artifact in the package output directory."""
    reps = [
        {"key": "aar", "platforms": [["android", ["x86", "armv8"]]], "phase": "package"},
        {"key": "nuget", "platforms": [["windows", ["x86_64"]]], "phase": "package", "pdb": True, "readme": True},
        {"key": "swiftpackage", "platforms": [["macos", ["x86_64", "armv8"]], ["ios", ["armv8"]]], "phase": "package", "dsym": True},
    ]
    more = {"aar": [["android", ["x86", "armv7", "armv8"]]], "nuget": [["windows", ["x86", "x86_64"]]],
            "swiftpackage": [["macos", ["x86_64", "armv8"]], ["ios", ["armv8"]], ["ios_simulator", ["x86_64"]]]}
    out = []
    for b in reps:
        for clean in (False, True):
            out.append({**b, "clean": clean, "prior": [{"clean": False}]})
            out.append({**b, "clean": clean, "prior": [{"clean": True}, {"clean": False}]})
        out.append({**b, "clean": False, "prior": [{"clean": False, "platforms": more[b["key"]]}]})
        out.append({**b, "clean": False, "prior": [{"clean": False}], "out": "else_abs", "cwd": "sub"})
    if not ctx.quick:
        for b in reps:
            out.append({**b, "clean": True, "prior": [{"clean": False, "platforms": more[b["key"]]}]})
            out.append({**b, "clean": False, "prior": [{"clean": False}, {"clean": False}, {"clean": False}], "configuration": "debug"})
            out.append({**b, "clean": False, "prior": [{"clean": False}], "out": "dotdot"})
    # the publish pipelines after a history of package runs
    out.append({"key": "aar", "platforms": [["android", ["x86"]]], "phase": "publish", "publish_mode": "local", "prior": [{"clean": False}]})
    out.append({"key": "nuget", "platforms": [["windows", ["x86_64"]]], "phase": "publish", "publish_mode": "remote", "pdb": True, "prior": [{"clean": False}]})
    out.append({"key": "swiftpackage", "platforms": [["ios", ["armv8"]]], "phase": "publish", "publish_mode": "git", "repo_exists": False, "prior": [{"clean": True}, {"clean": False}]})
    return out


def env_bases(ctx, r, helpers, derived):
    """the environment dimension: the same pipelines with optional helper programs installed next to the named tools — formatters,
    compiler caches, wrappers, launchers (`pkg.helper_candidates`: every program name the code under test mentions or looks up, plus
    the common ones). One representative per kind of invocation point; every invocation point of each then fails in turn.
    `helpers` = everything installed; thorough tier: also each name the code itself refers to alone, and random halves."""
    reps = [
        {"key": "aar", "platforms": [["android", ["x86", "armv8"]]], "phase": "package", "clean": True},
        {"key": "nuget", "platforms": [["windows", ["x86_64"]]], "phase": "package", "pdb": True, "readme": True},
        {"key": "swiftpackage", "platforms": [["macos", ["x86_64", "armv8"]], ["ios", ["armv8"]]], "phase": "package", "dsym": True, "clean": True},
        {"key": "swiftpackage", "platforms": [["ios_simulator", ["x86_64"]]], "phase": "package", "stale": True},
        {"key": "aar", "platforms": [["android", ["x86"]]], "phase": "publish", "publish_mode": "remote", "clean": True},
        {"key": "nuget", "platforms": [["windows", ["x86_64"]]], "phase": "publish", "publish_mode": "remote", "pdb": True},
        {"key": "swiftpackage", "platforms": [["ios", ["armv8"]]], "phase": "publish", "publish_mode": "git", "repo_exists": False, "clean": True},
        {"key": "swiftpackage", "platforms": [["ios", ["armv8"]]], "phase": "publish", "publish_mode": "url", "repo_exists": True},
    ]
    out = [{**b, "helpers": list(helpers)} for b in reps]
    some = sorted(r.sample(list(helpers), len(helpers) // 2))
    out += [{**b, "helpers": some, "out": "else_abs", "cwd": "sub"} for b in reps[:4]]
    if not ctx.quick:
        out += [{**b, "helpers": some} for b in reps[4:]]
        for h in derived:
            out += [{**b, "helpers": [h]} for b in reps]
    return out


def corpus_bases():
    """`corpus/c20.json`: configurations of the classes past blind spots were in (environment with helper programs, address spellings);
    run first, each with every invocation point failing like any other base"""
    f = common.VERIF / "corpus" / "c20.json"
    if not f.exists():
        return []
    return [{k: v for k, v in e.items() if k != "what"} for e in json.loads(f.read_text())]


def unquoted_bases(ctx):
    """outside the model's domain: `package.out` holding a blank or a shell operator (`pkg.UNQUOTED_OUT`). `execute` joins the command line
    unquoted, the shell then runs something else than the named tool with the listed arguments. Every target's package operation, every
    invocation point the model lists failing in turn; only the specification is evaluated (reported under one key: a known finding)."""
    reps = [{"key": "aar", "platforms": [["android", ["x86"]]], "phase": "package", "clean": True},
            {"key": "nuget", "platforms": [["windows", ["x86_64"]]], "phase": "package", "pdb": True},
            {"key": "swiftpackage", "platforms": [["ios", ["armv8"]]], "phase": "package"}]
    return [{**b, "out": k} for k in pkg.UNQUOTED_OUT for b in reps]


def address_bases(ctx):
    """the address dimension of the Swift package publish: every spelling of `publish.repository` (`pkg.address_forms`: scp-like with
    one, two, several path segments, `~`, absolute paths, ports, other user names, trailing slashes; http(s) URLs; other URL schemes;
    local directories relative / absolute / through `..`), with a fresh and an existing clone, started in the project directory or below it.
    Which of them go through git is the model's statement (`Pkg.classifyRepo`); every invocation point the model or the run shows then fails."""
    out = []
    for i, a in enumerate(pkg.address_forms()):
        for repo in ((bool(i % 2),) if ctx.quick else (False, True)):
            out.append({"key": "swiftpackage", "platforms": [["ios", ["armv8"]]], "phase": "publish", "address": a, "repo_exists": repo,
                        "clean": bool(i % 3), "cwd": "sub" if i % 4 == 3 else "proj"})
    return out


def fault_cases(base, calls, removed_gradlew=False):
    """every invocation point of the succeeding run failing in turn, both ways"""
    out = []
    for k, c in enumerate(calls):
        for kind in ("nonzero", "missing"):
            via_java = kind == "missing" and c["tool"] == "gradlew"
            probe = c["tool"] == "nuget" and c["sig"] == ["sources", "update"]
            f = {"k": k, "kind": kind, "tool": c["tool"], "sig": c["sig"], "via_java": via_java,
                 # what the model is told: java missing makes the (present) gradlew script exit non-zero
                 "model_kind": "nonzero" if via_java else kind,
                 "handled": probe and kind == "nonzero",
                 "max_logged": k + 1 if (kind == "nonzero") else k,
                 "phase": "build" if c["tool"] in ("conan", "lipo") else base["phase"]}
            out.append({**base, "fault": f})
    return out


def is_probe(call) -> bool:
    """the one invocation whose failure the caller is documented to tolerate (it falls back to `sources add`)"""
    return call["tool"] == "nuget" and call["sig"] == ["sources", "update"]


def phase_of(tool, base_phase):
    return "build" if tool in ("conan", "lipo") else base_phase


def fault_indices(f):
    return [f["k"]] + list(f.get("also") or [])


def extend_fault(base, f, calls, j, missing=False):
    """the fault set `f` plus invocation point `j` of the run observed under `f` (its log is `calls`)"""
    c = calls[j]
    g = {"k": f["k"], "kind": "nonzero", "also": list(f.get("also") or []) + ([] if missing else [j]),
         "then_missing": j if missing else None, "missing_tool": c["tool"] if missing else None,
         "tool": c["tool"], "sig": c["sig"], "via_java": False, "model_kind": "nonzero", "set": True,
         "points": [[k, calls[k]["tool"], calls[k]["sig"]] for k in fault_indices(f)] + [[j, c["tool"], c["sig"], "missing" if missing else "nonzero"]],
         "phase": phase_of(c["tool"], base["phase"])}
    return {**base, "fault": g}


def follow_ups(results, seen, max_size=3):
    """fault sets that extend the ones just run: wherever the run went on after its last injected fault"""
    out = []
    for c, o, m in results:
        f = c.get("fault")
        if not f or f["kind"] != "nonzero" or f.get("via_java") or f.get("then_missing") is not None or o.get("prepare_failed") or pkg.outside_dom(c):
            continue
        idx = fault_indices(f)
        calls = o.get("calls", [])
        if len(idx) >= max_size or len(calls) <= max(idx) + 1:
            continue
        base = {k: v for k, v in c.items() if k not in ("id", "fault")}
        for j in range(max(idx) + 1, len(calls)):
            for missing in (False, True):
                if missing and calls[j]["tool"] == "gradlew":
                    continue   # a missing `java` is a non-zero exit of the wrapper script: covered by the non-zero set
                g = extend_fault(base, f, calls, j, missing)
                key = json.dumps([base, g["fault"]["k"], g["fault"]["also"], g["fault"]["then_missing"]], sort_keys=True)
                if key not in seen:
                    seen.add(key)
                    out.append(g)
    return out


def pair_cases(base, calls, seen):
    """every pair (i, j), i < j, of invocation points of the succeeding run failing together (non-zero)"""
    out = []
    for i in range(len(calls)):
        f = {"k": i, "kind": "nonzero", "also": []}
        for j in range(i + 1, len(calls)):
            g = extend_fault(base, f, calls, j)
            key = json.dumps([base, i, [j], None], sort_keys=True)
            if key not in seen:
                seen.add(key)
                out.append(g)
    return out


def sequence_cases(ctx, r, ok_runs, single):
    """Sequences of two or three operations run in ONE process (an API user's session: the command line never does this), each in a
    project directory of its own, the process changing directory in between: success then failure, failure then failure, failure
    then success, success / failure / success; same or different targets and phases, the same `API` object or a fresh one.
    The operations are taken from the ones already run alone (succeeding bases and single faults, whose invocation points are known);
    the failing later steps rotate through every class of invocation point (tool + arguments, with / without a working directory
    of its own, non-zero / missing), so every kind of `execute` call is met after the process has been somewhere else."""
    def clean(c):
        return {k: v for k, v in c.items() if k not in ("id", "history", "timeout")}
    oks = [clean(c) for c, o, m in ok_runs if not c.get("fault") and o.get("code") is None and not o.get("prepare_failed") and not pkg.outside_dom(c)]
    classes: dict = {}
    for c, o, m in single:
        f = c["fault"]
        if o.get("prepare_failed") or f.get("via_java") or pkg.outside_dom(c):
            continue
        classes.setdefault(json.dumps([c["key"], c["phase"], f["tool"], f["sig"], f["kind"]]), []).append(clean(c))
    if not oks or not classes:
        return []
    keys = sorted(classes)
    r.shuffle(keys)
    n = ctx.n(40, 600)
    shapes = ["SF", "FF", "SF", "FS", "SFS", "FF", "SF", "FFF"]
    out = []
    for i in range(n):
        shape = shapes[i % len(shapes)]
        steps = []
        for j, ch in enumerate(shape):
            if ch == "S":
                st = dict(r.choice(oks))
            elif j > 0:
                st = dict(r.choice(classes[keys[(i + j) % len(keys)]]))      # rotation: every class becomes a later step
            else:
                st = dict(r.choice(classes[r.choice(keys)]))
            if j > 0 and r.random() < 0.4:
                st["fresh_api"] = True
            steps.append(st)
        out.append({"seq": steps})
    return out


def fault_points(case, obs):
    """the failing points of a fault set as far as the run reached them, read off the stub log (ascending)"""
    f = case["fault"]
    calls = obs.get("calls", [])
    pts, reached_all = [], True
    for k in sorted(fault_indices(f)):
        if k >= len(calls):
            reached_all = False
            break
        pts.append({"k": k, "handled": is_probe(calls[k]), "maxLogged": k + 1, "phase": phase_of(calls[k]["tool"], case["phase"])})
    m = f.get("then_missing")
    if m is not None and reached_all and len(calls) >= m:
        pts.append({"k": m, "handled": False, "maxLogged": m, "phase": phase_of(f.get("missing_tool") or "", case["phase"])})
    return pts


def describe(case):
    d = {k: v for k, v in case.items() if k not in ("id", "timeout")}
    return d


def canon_calls_impl(obs):
    return [(c["tool"], tuple(c["sig"]), tuple(c["ranIn"])) for c in obs.get("calls", [])]


def canon_calls_model(m, case):
    f = case.get("fault") or {}
    out = []
    for c in m["calls"]:
        if c["result"] == "missing":
            continue  # never reached the stub
        if c["result"] == "nonzero" and f.get("via_java"):
            continue  # the wrapper script failed before it could start (the stub) java
        out.append((c["tool"], tuple(c["sig"]), tuple(c["ranIn"])))
    return out


def compare(case, obs, m):
    """correspondence on one case: list of differing observation components"""
    diffs = []
    if obs.get("code") != m["code"]:
        diffs.append(f"code impl={obs.get('code')}({obs.get('exc')}) model={m['code']}({m['res']})")
    if obs.get("cwdAfter") != m["cwd"]:
        diffs.append(f"cwd impl={obs.get('cwdAfter')} model={m['cwd']}")
    if canon_calls_impl(obs) != canon_calls_model(m, case):
        diffs.append("stub log differs")
    if sorted(map(tuple, obs.get("files", []))) != sorted(map(tuple, m["files"])):
        diffs.append("file tree differs")
    return diffs


def spec_request(case, obs, model=None):
    f = case.get("fault")
    calls = obs.get("calls", [])
    o = {"code": obs.get("code"), "cwdBefore": obs.get("cwdBefore") or pkg.cwd_components(case), "cwdAfter": obs.get("cwdAfter"),
         "outBefore": obs.get("outBefore", []), "outAfter": obs.get("outAfter", []),
         "ranIn": [c["ranIn"] for c in calls],
         # the configured output base holds the build / package directories the tools are started in; it need not lie below the caller
         "workRoots": [pkg.out_base(case)],
         # the status every named tool recorded for itself; which of the invocations is the probe its caller handles
         "exits": [c.get("exit", 0) for c in calls], "handledAt": [is_probe(c) for c in calls],
         "cmdlines": obs.get("cmdlines", []),
         # what is new after the operation, and where the configuration sends it: the output base, and for a publish that the model
         # classifies as "into a local directory" that directory
         "newPaths": obs.get("newPaths", []),
         "allowed": [pkg.out_base(case)] + ([model["dest"]] if model and model.get("dest") is not None and case["phase"] == "publish" else [])}
    if f and f.get("set"):
        return {"op": "c20.spec", "key": case["key"], "phase": case["phase"], "fault": None, "maxLogged": 0,
                "faults": fault_points(case, obs), "obs": o}
    return {"op": "c20.spec", "key": case["key"], "phase": f["phase"] if f else case["phase"],
            "fault": {"k": f["k"], "handled": f["handled"]} if f else None, "maxLogged": f["max_logged"] if f else 0, "obs": o}


def evaluate(ctx, cases, templates, breaks):
    """run impl + model + spec on the cases; returns [(case, obs, model)]"""
    for i, c in enumerate(cases):
        c["id"] = f"{len(breaks)}_{ctx.coverage['evaluations']}_{i}"
    obs_l = pkg.run_cases(ctx.tmp, cases, ctx.child_env(), workers=14)
    return judge(ctx, cases, obs_l, templates, breaks)


def evaluate_sequences(ctx, seqs, templates, breaks):
    """run every sequence in one process of its own; each step is then judged like an operation run alone: the model (`c20.run`) and
    the specification (`c20.spec`) know nothing of what the process did before — `session_restores_cwd`, `session_fault_reported`"""
    for i, q in enumerate(seqs):
        q["id"] = f"q{len(breaks)}_{ctx.coverage['evaluations']}_{i}"
        q["timeout"] = 30 * len(q["seq"])
    res = pkg.run_cases(ctx.tmp, seqs, ctx.child_env(), workers=14)
    cases, obs_l = [], []
    for q, o in zip(seqs, res):
        if o.get("harness_error") or o.get("hang") or len(o.get("steps", [])) != len(q["seq"]):
            raise common.Infra(f"packaging sequence failed in the harness: {o} sequence={q['seq']}")
        for i, (step, so) in enumerate(zip(q["seq"], o["steps"])):
            cases.append({**step, "history": [dict(h) for h in q["seq"][:i]]})
            obs_l.append(so)
    return judge(ctx, cases, obs_l, templates, breaks)


def history_shape(c):
    """what the process did before this operation: per earlier operation (target, phase, start directory, failed?)"""
    return [[h["key"], h["phase"], h.get("cwd", "proj"), bool(h.get("fault")), bool(h.get("fresh_api"))] for h in c.get("history") or []]


def judge(ctx, cases, obs_l, templates, breaks):
    models = ctx.driver.batch([pkg.model_request(c, templates[c["key"]]) for c in cases])
    usable = []
    for c, o in zip(cases, obs_l):
        if o.get("harness_error") or o.get("hang"):
            raise common.Infra(f"packaging case failed in the harness: {o} case={describe(c)}")
        if o.get("prepare_failed"):
            # the succeeding package run that precedes `publish` already failed: judge that run instead
            o = {"code": o.get("code"), "exc": o.get("exc"), "cwdBefore": pkg.cwd_components(c), "cwdAfter": o.get("cwdAfter"), "outBefore": [], "outAfter": [],
                 "calls": [], "files": [], "prepare_failed": True}
        usable.append(o)
    specs = ctx.driver.batch([spec_request(c if not o.get("prepare_failed") else {**c, "fault": None, "phase": "prepare"}, o, m)
                              for c, o, m in zip(cases, usable, models)])
    out = []
    for c, o, m, s in zip(cases, usable, models, specs):
        if "error" in m or "error" in s:
            raise common.Infra(f"driver error {m.get('error')} {s.get('error')}")
        f = c.get("fault")
        ctx.stat(f"location_{pkg.out_kind(c)}_{c.get('cwd', 'proj')}" + ("_fault" if f else ""))
        key = json.dumps([c["key"], c["phase"], c.get("publish_mode"), [len(a) for _, a in c["platforms"]], bool(c.get("dsym")), bool(c.get("pdb")),
                          pkg.out_kind(c), c.get("cwd", "proj"), len(c.get("helpers") or ()), c.get("address"), bool(c.get("repo_exists")),
                          (f["tool"], f["sig"], f["kind"]) if f else None,
                          [p[1:] for p in f["points"]] if f and f.get("set") else None, history_shape(c), bool(c.get("fresh_api")),
                          [[bool(p.get("clean")), "platforms" in p] for p in c.get("prior") or ()], bool(c.get("clean")) if c.get("prior") else None])
        ctx.count(key=key, nontrivial=f is not None, sample={"case": describe(c), "impl": {"code": o.get("code"), "cwdAfter": o.get("cwdAfter"), "calls": len(o.get("calls", []))}})
        ctx.stat(f"{c['key']}_{c['phase']}_" + ((f"set{len(f['points'])}" if f.get("set") else f["kind"]) if f else "ok"))
        if c.get("prior"):
            ctx.stat("tree_history_" + "".join("C" if p.get("clean") else "S" for p in c["prior"]) + (">clean" if c.get("clean") else ">keep") + ("_fault" if f else "_ok"))
        if "history" in c:
            ctx.stat("sequence_step_" + "".join("F" if h[3] else "S" for h in history_shape(c)) + (">F" if f else ">S"))
        if f and f.get("set") and s.get("effective"):
            ctx.stat("set_effective_" + ("handled-only" if s["effective"]["handled"] else ("first" if s["effective"]["k"] == f["k"] else "later")))
        ctx.stat("impl_code_" + str(o.get("code")))
        if c.get("helpers"):
            ctx.stat("environment_helpers_" + ("fault" if f else "ok"))
            for h in o.get("helperCalls", []):
                ctx.stat("helper_ran_" + h[0])
        if c.get("address"):
            ctx.stat("address_" + ("git" if m.get("remote") else "directory") + ("_fault" if f else "_ok"))
        for name in o.get("whichAsked", []):
            if "/" not in name and name not in pkg.TOOLS:
                ctx.stat("which_asked_" + name)
        if f:
            ctx.stat("fault_tool_" + f["tool"])
        if pkg.outside_dom(c):
            # a value with a blank / shell operator is spliced unquoted into the command line: outside the model's domain (the status the
            # shell returns is not the named tool's: `Pkg.executeSh_simple` needs a simple command). Specification only, one key.
            ctx.stat("outside_domain_" + ("spec_fails" if not s["holds"] else "spec_holds"))
            if not s["holds"]:
                for clause in s["failed"]:
                    ctx.stat("outside_domain_clause_" + clause)
                ctx.report("execute:unquoted-value", WHAT["unquoted-value"],
                           {"input": describe(c), "impl": strip(o), "failed_clauses": s["failed"], "model": {k: m[k] for k in ("res", "code", "cwd")}})
            out.append((c, o, m))
            continue
        d = compare(c, o, m) if not o.get("prepare_failed") else ["the succeeding package run before publish failed"]
        if d:
            breaks.append({"case": describe(c), "diffs": d, "impl": strip(o), "model": {k: m[k] for k in ("res", "code", "cwd", "calls")}})
        if not s["holds"]:
            for clause in s["failed"]:
                seen = ctx.stats.get("spec_failed_" + clause, 0)
                ctx.stat("spec_failed_" + clause)
                if seen >= 3 and ("execute:" + clause) not in ctx._finding_keys:
                    continue  # three replays per violated clause are enough; the count is in the statistics
                ctx.report("execute:" + clause, WHAT.get(clause, clause),
                           {"input": describe(c), "impl": strip(o), "failed_clauses": s["failed"], "model": {k: m[k] for k in ("res", "code", "cwd")}})
        out.append((c, o, m))
    return out


WHAT = {
    "cwd-not-restored": "after a failing external command the process working directory differs from the one before the call",
    "ran-outside-caller-directory": "an external command ran in a directory unrelated to the caller's working directory (default working_dir bound at import time)",
    "not-reported-as-130": "a failing external command did not end the operation with ExternalCommandException (code 130)",
    "continued-after-failure": "further external commands ran after the failing one",
    "artifact-after-failure": "the package output directory holds a finished artifact although packaging failed",
    "output-changed": "a failing build/publish step changed the package output directory",
    "unexpected-failure": "the operation failed although every external command succeeded",
    "no-artifact-on-success": "packaging succeeded without a finished artifact in the output directory",
    "unquoted-value": "a path with a blank or a shell operator is spliced unquoted into the command line: the shell runs something else, the "
                      "status it returns is not the named tool's (a failing tool can go unreported, a succeeding run can fail)",
    "named-command-status-lost": "a named external command recorded a non-zero exit of its own, yet the operation did not end with code 130 "
                                 "(its status was replaced on the way: pipeline, wrapper, formatter, `|| …`)",
    "shell-operator-in-command": "a command line handed to the shell holds a control operator outside quotes: its status is not the named command's",
    "wrote-outside-configured-directories": "the operation left a file or directory outside the configured output base (and, for a publish into a "
                                            "local directory, outside that directory)",
}


def strip(o):
    d = {k: v for k, v in o.items() if k not in ("files",)}
    if len(d.get("newPaths", [])) > 12:
        d["newPaths"] = d["newPaths"][:12] + [["…", str(len(d["newPaths"]) - 12), "more"]]
    return d


def run(ctx):
    ctx.coverage["rule"] = ("package targets (aar, nuget, swiftpackage) x platform/architecture sets x switches (clean, stale artifact, absolute out, "
                            "configuration, dSYM/pdb/readme, publish mode, existing clone); the package and publish pipelines of every target x location "
                            "(package.out relative / nested / absolute in the project / absolute elsewhere / through `..`, started in the project directory "
                            "or in a sub-directory of it); per configuration a succeeding run, then every invocation "
                            "point failing as non-zero exit and as missing command; then sets of faults: every run that went on after its last fault (handled "
                            "probe) extended by every later invocation point (non-zero / tools gone), recursively up to three faults; thorough: all pairs; "
                            "sessions: 2-3 operations in one process with a change of directory between them (success/failure patterns, same or fresh API "
                            "object, every invocation-point class as a later step); environment: helper programs (named by the code or common) "
                            "installed or not; address: every spelling of the Swift package repository x fresh / existing clone; outside the domain: "
                            "unquoted blanks / shell operators in package.out; "
                            "distinct = (target, phase, publish mode, architectures per platform, dSYM, pdb, out kind, cwd kind, failing tool + arguments, fault kind, "
                            "number of helper programs installed, repository address, clone exists, "
                            "tools + arguments of the fault set, what the process did before); non-trivial = a fault is injected")
    ctx.assumptions += [
        "a tool that fails leaves no output file (stubs write only on success); copytree/copy are atomic",
        "histories of the output tree: the earlier runs succeed (their tools are the same stubs), use the same project directory, target, version and `package.out`; "
        "nothing but pydjinni touches the tree between the runs",
        "publish is judged from the state a succeeding package run leaves behind (a separate API object, as a separate CLI call would have)",
        "`gradlew` cannot be absent during `package` (the operation writes it itself); there the 'missing' fault is a missing `java`",
        "a helper program (formatter, cache, wrapper) itself never fails and never writes a file",
        "pydantic reads a repository address as HttpUrl iff it is http(s):// + authority (the address forms fed are well-formed URLs); "
        "everything else is a pathlib path (Pkg.classifyRepo)",
        "model domain: every command line is one simple command (Pkg.plainCommand) and no spliced value holds a blank; values outside it "
        "are run against the specification only (finding execute:unquoted-value)",
    ]
    r = random.Random(f"{ctx.seed}/c20")
    templates = {k: pkg.template_files(common.SRC, k) for k in pkg.ALL_PLATFORMS}
    breaks = []
    bases = corpus_bases() + package_bases(ctx, r) + publish_bases(ctx) + location_bases(ctx) + history_bases(ctx) + address_bases(ctx) + unquoted_bases(ctx)
    ok_runs = evaluate(ctx, [dict(b) for b in bases], templates, breaks)
    # the environment dimension: helper programs named by the code (statically: `pkg.helper_candidates`; dynamically: every name the
    # runs so far looked up with `shutil.which` that is not a named tool) plus the common ones, installed next to the named tools
    helpers, looked_up = pkg.helper_candidates(common.SRC)
    asked = sorted({n for _, o, _ in ok_runs for n in o.get("whichAsked", []) if "/" not in n and n not in pkg.TOOLS and n not in pkg.COREUTILS})
    helpers = sorted(set(helpers) | set(asked))
    looked_up = sorted(set(looked_up) | set(asked))
    env = env_bases(ctx, r, helpers, looked_up)
    ok_runs += evaluate(ctx, [dict(b) for b in env], templates, breaks)
    bases += env
    ctx.stats["helper_programs"] = len(helpers)
    ctx.stats["helper_programs_looked_up_by_the_code"] = looked_up
    faults = []
    for c, o, m in ok_runs:
        if c.get("fault"):
            continue  # already a fault case of its own
        base = {k: v for k, v in c.items() if k != "id"}
        mcalls = [{"tool": x["tool"], "sig": x["sig"]} for x in m["calls"]]
        if o.get("code") is None and not o.get("prepare_failed") and not pkg.outside_dom(c):
            calls = o["calls"]
        else:
            calls = mcalls  # the succeeding run itself failed (reported above) / what the shell ran is not what was named
        fc = fault_cases(base, calls)
        if ctx.quick and c.get("address") and len(calls) > 3:
            # quick tier: per address the first invocation point and a rotating half of the others, both ways (thorough: all of them)
            rot = sum(map(ord, c["address"])) + ctx.seed
            fc = [x for x in fc if x["fault"]["k"] == 0 or (x["fault"]["k"] + rot) % 2 == 0]
        if [(x["tool"], x["sig"]) for x in calls] != [(x["tool"], x["sig"]) for x in mcalls]:
            # the run did not show the invocation points the model lists (e.g. it never started the tool at all): those fail as well —
            # the specification then asks for code 130 at a point the operation has to pass
            have = {(x["fault"]["k"], x["fault"]["kind"]) for x in fc}
            extra = [x for x in fault_cases(base, mcalls) if (x["fault"]["k"], x["fault"]["kind"]) not in have]
            ctx.stats["fault_points_from_model_only"] = ctx.stats.get("fault_points_from_model_only", 0) + len(extra)
            fc += extra
        faults += fc
    single = evaluate(ctx, faults, templates, breaks)
    # sets of faults: extend every run that went on after its last injected fault, to a fixed point (at most three faults)
    seen, n_sets = set(), 0
    frontier = follow_ups(single, seen)
    if not ctx.quick:
        for c, o, m in ok_runs:
            if not c.get("fault") and o.get("code") is None and not o.get("prepare_failed") and not pkg.outside_dom(c):
                frontier += pair_cases({k: v for k, v in c.items() if k != "id"}, o["calls"], seen)
    while frontier:
        n_sets += len(frontier)
        frontier = follow_ups(evaluate(ctx, frontier, templates, breaks), seen)
    # several operations in ONE process, `os.chdir` between them
    import time
    t0 = time.time()
    seqs = sequence_cases(ctx, r, ok_runs, single)
    evaluate_sequences(ctx, seqs, templates, breaks)
    ctx.stats["sequences"] = len(seqs)
    ctx.stats["sequence_seconds"] = round(time.time() - t0, 1)
    ctx.stats["correspondence_breaks"] = len(breaks)
    ctx.stats["bases"] = len(bases)
    ctx.stats["fault_cases"] = len(faults)
    ctx.stats["fault_set_cases"] = n_sets
    if breaks and not ctx.violations:
        ctx.report("correspondence", "packaging model and implementation disagree; the specification holds on every explored fault point",
                   {"correspondence": "c20.run vs package/build/write_package/publish with stub tools", "first": breaks[0], "count": len(breaks)},
                   no_failing_input=True)
    elif breaks:
        ctx.stats["correspondence_first"] = breaks[0]["diffs"]


def replay(ctx, body):
    case = dict(body["input"])
    case["id"] = "replay"
    if case.get("history"):
        # the operation is the last of a sequence run in one process
        seq = {"seq": list(case["history"]) + [{k: v for k, v in case.items() if k not in ("history", "id")}], "id": "replay", "timeout": 120}
        (q,) = pkg.run_cases(ctx.tmp, [seq], ctx.child_env(), workers=1)
        o = q["steps"][-1]
    else:
        (o,) = pkg.run_cases(ctx.tmp, [case], ctx.child_env(), workers=1)
    if o.get("prepare_failed"):
        print(json.dumps(o, indent=1))
        return False
    templates = {k: pkg.template_files(common.SRC, k) for k in pkg.ALL_PLATFORMS}
    m = ctx.driver.one(pkg.model_request(case, templates[case["key"]]))
    s = ctx.driver.one(spec_request(case, o, m))
    print(json.dumps({"impl": strip(o), "spec": s}, indent=1)[:3000])
    return bool(s.get("holds"))
