"""C13 — exported type YAML re-imports to the same types (extern round trip).

Theorems (Lean, `Props/C13.lean`, model `Gen/Yaml.lean`): in the model of `generate_type_dict` (dump of the BaseExternalType
fields + the `@computed_field`s of every generator's marshalling object, `None` dropped) and of `model_validate` (unknown
keys ignored, defaults, required fields) every attribute that is exported *and* a field of the external-type model reads the
same through the loaded type as through the local declaration (`roundtrip_view`, `_none`, `_header`, `_base`, `_key`), the
document validates if the required fields are computed (`export_validates`), and an attribute that is no model field cannot
be read at all (`not_exported_unreadable`).

Tie to /repo, every run:
  G  generated obligations (`decide`): the attribute chains `….type_def.<gen>.<attr>` / `error_domain.<gen>.<attr>` that the
     69 templates and the generators' Python read (`used`), the fields of every `…ExternalType` model, and the computed fields of
     the marshalling class of every declaration kind are extracted from the live source; `usedOk` (used ⊆ loadable, up to the
     named Dom clauses = findings), `exportedOk` (used ∩ loadable ⊆ computed for every kind), `requiredOk`.
  K1 function level: for every exported declaration of the generated programs, the real marshalling property table ->
     `c13.export` vs the YAML the yaml target wrote; `c13.load` vs the type the real `Resolver.load_external` registered.
  K2 real round trip: exporter part -> yaml (per-type files / `out_file`), every document validated with
     `API().external_type_model`; the dependant built once with `@extern` and once with everything local; the dependant's
     generated files must be identical ({path: sha256}) for cpp/java/jni/objc/objcpp/cppcli.
  S  specification on the implementation's observations: `c13.spec` compares every applicable read through the really
     loaded type with the read through the real local declaration (names the attribute), plus the file identity of K2.
"""
from __future__ import annotations

import ast
import hashlib
import json
import random
import re
from pathlib import Path

import common
import genrun_f as genrun

LEAN_MODULE = "PydjinniModel.Props.C13"
THEOREMS = [
    "Pydjinni.C13.lookup_exportProps",
    "Pydjinni.C13.lookup_exportProps_none",
    "Pydjinni.C13.loaded_value",
    "Pydjinni.C13.roundtrip_view",
    "Pydjinni.C13.roundtrip_view_none",
    "Pydjinni.C13.roundtrip_header",
    "Pydjinni.C13.base_record_header_counterexample",
    "Pydjinni.C13.not_exported_unreadable",
    "Pydjinni.C13.roundtrip_base",
    "Pydjinni.C13.roundtrip_key",
    "Pydjinni.C13.export_validates",
]
LEVEL = "proof"
TRUSTED = (
    "PyYAML dump/load and pydantic validation are modelled (dump of computed fields without None; unknown keys ignored, defaults, required) "
    "and tied by the function-level correspondence, not verified",
    "the attribute-chain extractor of this check (Jinja ASTs via the generators' own preprocessing, Python `ast` of the generator packages)",
)

TARGETS = ["cpp", "java", "objc", "cppcli"]
KINDS = ["Enum", "Flags", "Record", "Interface", "Function", "ErrorDomain"]


# ---------------------------------------------------------------------------------------------------------
# G: tables from the live source
# ---------------------------------------------------------------------------------------------------------

def api_and_gens():
    from pydjinni import API
    api = API()
    return api, [g for t in api.generation_targets.values() for g in t.generator_instances]


def jval(v):
    """canonical value: str | bool | [str] | None"""
    import enum
    from pathlib import PurePath
    if v is None or isinstance(v, bool):
        return v
    if isinstance(v, enum.Enum):
        return str(v.value)
    if isinstance(v, (str, PurePath)):
        return str(v)
    if isinstance(v, (list, tuple, set, frozenset)):
        items = [jval(x) for x in v]
        if all(isinstance(x, str) for x in items):
            return sorted(items) if isinstance(v, (set, frozenset)) else items
        return ["<" + type(x).__name__ + ">" for x in v]
    if isinstance(v, (int, float)):
        return str(v)
    return "<" + type(v).__name__ + ">"


def extract_used(gens) -> list[dict]:
    """attribute reads through a type definition: [{gen, attr, ctx, where}]"""
    from jinja2 import nodes
    keys = [g.key for g in gens]
    used: dict[tuple, set] = {}

    def add(rest, ctx, where, star=False):
        if not rest:
            return
        if star:
            k = ("*", rest[0], ctx)
        elif rest[0] in keys:
            if len(rest) < 2:
                return
            k = (rest[0], rest[1], ctx)
        else:
            k = ("", rest[0], ctx)
        used.setdefault(k, set()).add(where)

    def jchain(n):
        out = []
        while isinstance(n, nodes.Getattr):
            out.append(n.attr)
            n = n.node
        out.append(n.name if isinstance(n, nodes.Name) else "<expr>")
        return list(reversed(out))

    for g in gens:
        tdir = g._generator_directory / "templates"
        if tdir.exists():
            for f in sorted(tdir.rglob("*")):
                if not f.is_file():
                    continue
                rel = f.relative_to(tdir)
                tree = g._jinja_env.parse(g.template_preprocessing(rel))
                # loop variables that range over a `throws` clause are error-domain references
                err_refs = set()
                for fo in tree.find_all(nodes.For):
                    if isinstance(fo.target, nodes.Name) and jchain(fo.iter)[-1] == "throwing":
                        err_refs.add(fo.target.name)
                aliases = {}
                for a in tree.find_all(nodes.Assign):
                    if isinstance(a.target, nodes.Name):
                        c = jchain(a.node)
                        if c[-1] == "type_def" and len(c) > 1:
                            aliases[a.target.name] = "error" if c[0] in err_refs else "any"
                inner = set()
                for ga in tree.find_all(nodes.Getattr):
                    n = ga
                    while isinstance(n.node, nodes.Getattr):
                        inner.add(id(n.node))
                        n = n.node
                for ga in tree.find_all(nodes.Getattr):
                    if id(ga) in inner:
                        continue
                    c = jchain(ga)
                    where = f"{g.key}:{rel}:{ga.lineno}"
                    for i, x in enumerate(c):
                        if x == "type_def" and i > 0:
                            add(c[i + 1:], "error" if c[0] in err_refs else "any", where)
                    if c[0] in aliases and len(c) > 1:
                        add(c[1:], aliases[c[0]], where)
    # generator Python (+ the shared filters module)
    pyfiles = []
    for g in gens:
        pyfiles += sorted(g._generator_directory.glob("*.py"))
    pyfiles.append(common.SRC / "pydjinni/generator/filters.py")
    for py in sorted(set(pyfiles)):
        tree = ast.parse(py.read_text())
        where0 = str(py.relative_to(common.SRC))

        def pchain(n):
            out = []
            while isinstance(n, ast.Attribute):
                out.append(n.attr)
                n = n.value
            out.append(n.id if isinstance(n, ast.Name) else "<expr>")
            return list(reversed(out))

        aliases, star_aliases = set(), set()
        for n in ast.walk(tree):
            tgt = val = None
            if isinstance(n, ast.Assign) and len(n.targets) == 1 and isinstance(n.targets[0], ast.Name):
                tgt, val = n.targets[0].id, n.value
            elif isinstance(n, ast.AnnAssign) and isinstance(n.target, ast.Name) and n.value is not None:
                tgt, val = n.target.id, n.value
            if tgt is None:
                continue
            if isinstance(val, ast.Attribute) and pchain(val)[-1] == "type_def" and len(pchain(val)) > 1:
                aliases.add(tgt)
            if (isinstance(val, ast.Call) and isinstance(val.func, ast.Name) and val.func.id == "getattr" and val.args
                    and isinstance(val.args[0], ast.Attribute) and pchain(val.args[0])[-1] == "type_def"):
                star_aliases.add(tgt)
        inner = set()
        for n in ast.walk(tree):
            if isinstance(n, ast.Attribute) and isinstance(n.value, ast.Attribute):
                inner.add(id(n.value))
        for n in ast.walk(tree):
            if isinstance(n, ast.Attribute) and id(n) not in inner:
                c = pchain(n)
                where = f"{where0}:{n.lineno}"
                for i, x in enumerate(c):
                    if x == "type_def" and i > 0:
                        add(c[i + 1:], "any", where)
                if c[0] in aliases and len(c) > 1:
                    add(c[1:], "any", where)
                if c[0] in star_aliases and len(c) > 1:
                    add(c[1:], "any", where, star=True)
            if (isinstance(n, ast.Call) and isinstance(n.func, ast.Name) and n.func.id == "hasattr" and len(n.args) == 2
                    and isinstance(n.args[0], ast.Name) and n.args[0].id in star_aliases and isinstance(n.args[1], ast.Constant)):
                add([n.args[1].value], "any", f"{where0}:{n.lineno}", star=True)
    # `headers(dependencies, "<key>")` reads through `getattr(type_def, <key>)`: expand the dynamic key over the keys it is called with
    star_targets = set()
    for py in sorted(set(pyfiles)):
        for n in ast.walk(ast.parse(py.read_text())):
            if (isinstance(n, ast.Call) and isinstance(n.func, ast.Name) and n.func.id == "headers" and len(n.args) >= 2
                    and isinstance(n.args[1], ast.Constant) and isinstance(n.args[1].value, str)):
                star_targets.add(n.args[1].value)
    for k in [k for k in used if k[0] == "*"]:
        where = used.pop(k)
        for t in sorted(star_targets):
            used.setdefault((t, k[1], k[2]), set()).update(where)
    return [{"gen": k[0], "attr": k[1], "ctx": k[2], "where": sorted(v)[:4]} for k, v in sorted(used.items())]


def ext_fields(gens):
    out = []
    for g in gens:
        m = g.external_type_model
        if m is None:
            continue
        fs = []
        for name, f in m.model_fields.items():
            fs.append({"n": name, "req": bool(f.is_required()), "def": None if f.is_required() else jval(f.default)})
        out.append([g.key, fs])
    return out


def computed_by_kind(gens):
    import pydjinni.parser.ast as past
    from pydantic import BaseModel
    from pydjinni.parser.base_models import BaseExternalType
    out = []
    for g in gens:
        mm = g.marshal_models
        if not mm:
            continue
        for kind in KINDS:
            cls = getattr(past, kind)

            def find(c):
                if c in (BaseExternalType, BaseModel, object):
                    return None
                if mm.get(c):
                    return mm[c]
                for b in c.__bases__:
                    r = find(b)
                    if r:
                        return r
                return None

            mc = find(cls)
            if mc is not None:
                out.append((kind, g.key, sorted(mc.model_computed_fields.keys())))
    return out


def lean_lit(s: str) -> str:
    return json.dumps(s, ensure_ascii=False)


def obligations(ctx, gens):
    used = extract_used(gens)
    spec = ext_fields(gens)
    computed = computed_by_kind(gens)
    ctx.stats["used_attributes"] = len(used)
    src = ["import PydjinniModel.Props.C13", "open Pydjinni.Gen.Yaml", "",
           "/-- attributes read through `….type_def` by templates and generator code (live extraction) -/",
           "def used : List Used := ["]
    src.append(",\n".join(f"  ⟨{lean_lit(u['gen'])}, {lean_lit(u['attr'])}, {lean_lit(u['ctx'])}⟩" for u in used))
    src += ["]", "", "/-- fields of the generators' external-type models: (name, required) -/",
            "def extFields : List (String × List (String × Bool)) := ["]
    src.append(",\n".join("  (" + lean_lit(g) + ", [" + ", ".join(f"({lean_lit(f['n'])}, {'true' if f['req'] else 'false'})" for f in fs) + "])" for g, fs in spec))
    src += ["]", "", "/-- computed fields of the marshalling class of every declaration kind: (AST class, generator, names) -/",
            "def computed : List (String × String × List String) := ["]
    src.append(",\n".join(f"  ({lean_lit(k)}, {lean_lit(g)}, [" + ", ".join(lean_lit(n) for n in names) + "])" for k, g, names in computed))
    src += ["]", "",
            "/-- every read through a type definition can be answered by a loaded external type (up to the Dom clauses `knownMissing`) -/",
            "theorem used_loadable : used.all (usedOk extFields) = true := by decide",
            "/-- every loadable attribute that is read is exported for every declaration kind -/",
            "theorem used_exported : used.all (exportedOk extFields computed) = true := by decide",
            "/-- every required field of an external-type model is exported for every declaration kind -/",
            "theorem required_exported : requiredOk extFields computed = true := by decide", ""]
    text = "\n".join(src)
    ok, out = common.lean_check_file(text, "C13_tables")
    lines = text.split("\n")
    errs = [int(m) for m in re.findall(r"\.lean:(\d+):\d+: error", out)]
    for name in ("used_loadable", "used_exported", "required_exported"):
        ln = next(i for i, l in enumerate(lines) if l.startswith("theorem " + name)) + 1
        ctx.obligation("C13_tables." + name, ok or (bool(errs) and ln not in errs), kind="generated", detail=out)
    if not ok and not errs:
        ctx.obligation("C13_tables.elaborates", False, kind="generated", detail=out)
    return used, spec, computed, ok


# Python twins of the Lean predicates, only to *name* the offending attribute when an obligation fails
KNOWN_MISSING = {("", "error_codes", "error"), ("java", "name", "error"), ("jni", "name", "error"), ("jni", "namespace", "error"),
                 ("objc", "domain_name", "error"), ("objcpp", "name", "error"), ("objcpp", "namespace", "error"),
                 ("*", "base_type", "any"), ("*", "derived_header", "any")}
BASE_FIELDS = ["name", "namespace", "primitive", "params", "comment", "deprecated", "position"]


def py_loadable(spec, u):
    if u["gen"] == "":
        return u["attr"] in BASE_FIELDS
    fs = dict(spec).get(u["gen"])
    return fs is not None and any(f["n"] == u["attr"] for f in fs)


def py_known(u):
    return (u["gen"], u["attr"], u["ctx"]) in KNOWN_MISSING or ("*", u["attr"], u["ctx"]) in KNOWN_MISSING


# ---------------------------------------------------------------------------------------------------------
# programs: exporter part + dependant part (closed feature set)
# ---------------------------------------------------------------------------------------------------------

# exporter declarations: name -> (IDL, kind tag). All of them are exported; dependants only refer to `SAFE` ones
# unless a finding shape is requested.
EXPORTS = {
    "xe": ("xe = enum { a; b; }\n", "enum"),
    "xf": ("xf = flags { p; q; n = none; z = all; }\n", "flags"),
    "xr": ("xr = record { v: i32; s: string; }\n", "record"),
    "xd": ("xd = record { v: i32; s: string; } deriving(eq, ord)\n", "record"),
    "xn": ("namespace ns { xn = record { k: i64; } }\n", "record"),
    "xi": ("xi = interface +cpp { m(a: i32) -> i32; }\n", "interface"),
    "xj": ("xj = interface +java +objc +cppcli { on(v: i32); }\n", "interface"),
    "xa": ("xa = interface +cpp { async am(a: i32) -> i32; }\n", "interface"),
    "xp": ("xp = interface +cpp { property pr: i32; }\n", "interface"),
    "xfn": ("xfn = function (a: i32) -> bool;\n", "function"),
    "xfc": ("xfc = function +cpp (a: i32, b: string);\n", "function"),
    "xbj": ("xbj = record +java { v: i32; }\n", "record"),
    "xerr": ("xerr = error { c1; c2(code: i32); }\n", "error"),
    # finding shapes
    "xbc": ("xbc = record +cpp { v: i32; }\n", "base-record"),
    "xbo": ("xbo = record +objc { v: i32; }\n", "base-record"),
    "xbl": ("xbl = record +cppcli { v: i32; }\n", "base-record"),
}
SAFE = ["xe", "xf", "xr", "xd", "xn", "xi", "xj", "xa", "xp", "xfn", "xfc", "xbj"]
VALUE_TYPES = {"xe", "xf", "xr", "xd", "xn", "xbj", "xbc", "xbo", "xbl"}     # usable inside list<>/map<>/optional record fields
REF = {"xn": "ns.xn"}


def ref(n):
    return REF.get(n, n)


def dependant(r: random.Random, names: list[str], throws: bool = False) -> str:
    """dependant declarations over the exported `names`"""
    vals = [n for n in names if n in VALUE_TYPES]
    out = []
    if vals:
        fields = []
        for i, n in enumerate(r.sample(vals, k=min(len(vals), r.choice([1, 2, 3, 5])))):
            shape = r.choice(["{t}", "{t}", "{t}?", "list<{t}>", "map<string, {t}>", "list<{t}?>"])
            fields.append(f"    f{i}: {shape.format(t=ref(n))};\n")
        out.append("dr = record {\n" + "".join(fields) + "}\n")
    ms = []
    for i in range(r.choice([1, 2, 4])):
        ps = ", ".join(f"p{j}: {ref(r.choice(names))}" for j in range(r.choice([0, 1, 2, 3])))
        ret = r.choice(["", "", " -> " + ref(r.choice(names)), " -> list<" + ref(r.choice(vals)) + ">" if vals else ""])
        mod = r.choice(["", "", "static ", "const "])
        thr = " throws xerr" if throws and i == 0 else ""
        ms.append(f"    {mod}m{i}({ps}){thr}{ret};\n")
    out.append("di = interface +cpp {\n" + "".join(ms) + "}\n")
    if r.random() < 0.6:
        ps = ", ".join(f"p{j}: {ref(r.choice(names))}" for j in range(r.choice([1, 2])))
        ret = r.choice(["", " -> " + ref(r.choice(vals))]) if vals else ""
        thr = " throws xerr" if throws else ""
        out.append("dj = interface +java +objc +cppcli {\n    on(" + ps + ")" + thr + ret + ";\n}\n")
    if vals and r.random() < 0.5:
        out.append(f"dfn = function (a: {ref(r.choice(vals))}) -> {ref(r.choice(vals))};\n")
    if vals and r.random() < 0.3:
        out.append(f"dk = interface +cpp {{\n    cb(f: (a: {ref(r.choice(vals))}) -> bool);\n    async am() -> {ref(r.choice(vals))};\n}}\n")
    return "".join(out)


CONFIGS = [
    ("default", {}),
    ("namespaces", {"cpp": {"namespace": "a::b"}, "java": {"package": "org.x.y"}, "jni": {"namespace": "a::jni"},
                    "objc": {"type_prefix": "PX"}, "objcpp": {"namespace": "a::objcpp"}, "cppcli": {"namespace": "A::B"}}),
    ("styles", {"cpp": {"identifier": {"type": "snake_case", "file": {"style": "PascalCase", "prefix": "T"}}},
                "java": {"identifier": {"type": {"style": "PascalCase", "prefix": "J"}}},
                "objc": {"identifier": {"type": {"style": "PascalCase", "prefix": "O"}}},
                "cppcli": {"identifier": {"type": {"style": "PascalCase", "prefix": "N"}}}}),
]


def gen_case(r: random.Random, i: int) -> dict:
    k = r.choice([1, 2, 3, 4, 6, len(SAFE)])
    names = sorted(r.sample(SAFE, k=k))
    cfg_name, cfg = CONFIGS[i % len(CONFIGS)]
    mode = "out_file" if i % 2 else "per_type"
    exp = "".join(EXPORTS[n][0] for n in names)
    if r.random() < 0.3:
        exp += EXPORTS["xerr"][0]      # exported, but no dependant throws it
    return {"exp": exp, "dep": dependant(r, names), "config": cfg, "config_name": cfg_name, "mode": mode, "shape": "closed"}


# ---------------------------------------------------------------------------------------------------------
# real-code adapters (run inside the genrun workers through `job["hook"]`)
# ---------------------------------------------------------------------------------------------------------

def decl_tables(ctx_obj, node_attrs):
    """for every non-anonymous declaration of the parsed program: base fields, AST attributes that dependants read, and
    every property of every attached marshalling object (name, value, is it a computed field)"""
    from pydantic import BaseModel
    from functools import cached_property
    from pydjinni.parser.base_models import BaseExternalType
    out = []
    for d in ctx_obj.defs:
        if getattr(d, "anonymous", False):
            continue
        base = BaseExternalType.model_validate({k: getattr(d, k) for k in BaseExternalType.model_fields if k != "position"}).model_dump(mode="json")
        base.pop("position", None)
        node = []
        for a in node_attrs:
            if a in base:
                continue
            try:
                v = getattr(d, a)
            except AttributeError:
                continue
            if isinstance(v, list):
                v = [str(getattr(x, "name", x)) for x in v]
            node.append([a, jval(v)])
        marsh = []
        for key, val in (d.model_extra or {}).items():
            if not isinstance(val, BaseModel):
                continue
            props = []
            seen = set()
            comp = set(type(val).model_computed_fields.keys())
            for klass in type(val).__mro__:
                if klass in (BaseModel, object):
                    continue
                for name, member in vars(klass).items():
                    if name.startswith("_") or name in seen:
                        continue
                    if isinstance(member, (property, cached_property)) or name in comp:
                        seen.add(name)
                        try:
                            v = getattr(val, name)
                        except Exception:  # noqa: a property that raises is an attribute a dependant cannot read
                            continue
                        props.append({"n": name, "v": jval(v), "c": name in comp})
            marsh.append([key, sorted(props, key=lambda p: p["n"])])
        out.append({"name": str(d.name), "kind": type(d).__name__, "primitive": str(d.primitive.value),
                    "base": [[k, jval(base[k])] for k in ("name", "namespace", "primitive", "params", "comment", "deprecated")],
                    "node": node, "marsh": sorted(marsh)})
    return out


def loaded_tables(yaml_paths):
    """what the real `Resolver.load_external` registers for the given YAML files"""
    from pydantic import BaseModel
    from pydjinni import API
    from pydjinni.parser.resolver import Resolver
    api = API()
    model = api.external_type_model
    res = Resolver(model)
    out = {}
    for p in yaml_paths:
        res.load_external(Path(p))
    gen_keys = [k for k in model.model_fields if k not in ("name", "namespace", "primitive", "params", "comment", "deprecated", "position")]
    for key, t in res.registry.items():
        base = [[k, jval(getattr(t, k))] for k in ("name", "namespace", "primitive", "params", "comment", "deprecated")]
        gens = []
        for g in gen_keys:
            v = getattr(t, g)
            gens.append([g, None if v is None else [[k, jval(x)] for k, x in v.model_dump(mode="json").items()]])
        out[key] = {"base": base, "gens": gens}
    return out


def hook_export(job, ctx_obj, jobdir):
    return {"decls": decl_tables(ctx_obj, job["node_attrs"])}


def hook_dependant(job, ctx_obj, jobdir):
    src = Path(jobdir) / "src"
    return {"loaded": loaded_tables(sorted(str(p) for p in (src / "ext").glob("*.yaml")))}


# ---------------------------------------------------------------------------------------------------------
# K: the round trip
# ---------------------------------------------------------------------------------------------------------

def canon_files(files: dict) -> dict:
    return {p: hashlib.sha256(t.encode()).hexdigest() for p, t in files.items()}


def doc_canon(doc: dict, gen_keys):
    base = sorted([k, jval(v)] for k, v in doc.items() if k not in gen_keys)
    gens = sorted([g, sorted([k, jval(v)] for k, v in doc[g].items())] for g in gen_keys if g in doc and isinstance(doc[g], dict))
    return {"base": base, "gens": gens}


def model_doc_canon(m):
    return {"base": sorted(m["base"]), "gens": sorted([g, sorted(kv)] for g, kv in m["gens"])}


def shape_of(case) -> str:
    dep = case["dep"]
    if "throws xerr" in dep:
        return "extern-error-domain-thrown"
    if re.search(r"\bxb[col]\b", dep):
        return "extern-base-record"
    return "other"


def round_trips(ctx, cases, used, spec):
    import yaml
    from pydjinni import API
    ext_model = API().external_type_model
    gen_keys = [g for g, _ in spec] + ["yaml"]
    node_attrs = sorted({u["attr"] for u in used if u["gen"] == ""})
    used_req = [[u["gen"], u["attr"], u["ctx"]] for u in used]
    breaks = []
    # round 1: all-local build, and the export
    jobs = []
    for c in cases:
        cfg = c["config"]
        jobs.append({"files": {"main.djinni": c["exp"] + c["dep"]}, "root": "main.djinni", "targets": TARGETS, "config": cfg})
        ycfg = genrun.deep_merge(cfg, {"yaml": {"out_file": "all.yaml"}} if c["mode"] == "out_file" else {})
        jobs.append({"files": {"exp.djinni": c["exp"]}, "root": "exp.djinni", "targets": TARGETS + ["yaml"], "config": ycfg,
                     "hook": "props.c13:hook_export", "node_attrs": node_attrs})
    res1 = genrun.run_many(ctx.tmp / "r1", jobs, timeout=90)
    # round 2: the dependant with @extern
    jobs2, idx2 = [], []
    for k, c in enumerate(cases):
        loc, exp = res1[2 * k], res1[2 * k + 1]
        c["local"], c["export"] = loc, exp
        if not loc["ok"]:
            ctx.stat("local_build_fails_" + loc["stage"])
            continue
        if not exp["ok"]:
            raise common.Infra(f"the exporter part of a closed-world program is not generated: {exp}\n{c['exp']}")
        yamls = {p[5:]: t for p, t in exp["files"].items() if p.startswith("yaml/")}
        files = {"main.djinni": "".join(f'@extern "ext/{n}"\n' for n in sorted(yamls)) + c["dep"]}
        for n, t in yamls.items():
            files["ext/" + n] = t
        c["yamls"] = yamls
        jobs2.append({"files": files, "root": "main.djinni", "targets": TARGETS, "config": c["config"], "hook": "props.c13:hook_dependant"})
        idx2.append(k)
    res2 = genrun.run_many(ctx.tmp / "r2", jobs2, timeout=90)
    reqs, metas = [], []
    for k, r2 in zip(idx2, res2):
        c = cases[k]
        inp = {"exporter": c["exp"], "dependant": c["dep"], "config": c["config"], "mode": c["mode"]}
        # 1. every exported document validates against the published model; per-type files hold one document each
        docs = {}
        for n, t in c["yamls"].items():
            for d in yaml.safe_load_all(t):
                if d is None:
                    continue
                try:
                    ext_model.model_validate(d)
                except Exception as e:  # noqa
                    ctx.report("yaml:invalid:" + str(d.get("primitive")), "an exported YAML document does not validate against the external type model",
                               {"input": inp, "document": d, "error": str(e)[:400]})
                docs[".".join(list(d.get("namespace", [])) + [d["name"]])] = d
        decls = {}
        for d in c["export"]["extra"]["decls"]:
            b = {k: v for k, v in d["base"]}
            decls[".".join(list(b["namespace"]) + [b["name"]])] = d
        if set(docs) != set(decls):
            ctx.report("yaml:document-set", "the yaml target did not write exactly one document per named declaration",
                       {"input": inp, "documents": sorted(docs), "declarations": sorted(decls)})
        # 2. the dependant
        if not r2["ok"]:
            ctx.count(key=("roundtrip", c["shape"], "dependant-fails"), sample=inp)
            ctx.report("roundtrip:dependant-fails:" + r2["stage"] + ":" + r2["cls"], "the dependant builds with local types but not with the exported YAML",
                       {"input": inp, "impl": r2})
            continue
        fa, fb = canon_files(c["local"]["files"]), canon_files(r2["files"])
        differing = sorted(p for p in fb if fa.get(p) != fb[p])
        tk = tuple(sorted({p.split("/")[0] for p in fb}))
        ctx.count(key=("roundtrip", c["shape"], c["mode"], c["config_name"], len(decls), tuple(sorted(d["kind"] for d in decls.values()))),
                  nontrivial=True, sample={"exporter": c["exp"][:300], "dependant": c["dep"][:300], "mode": c["mode"], "files_compared": len(fb)})
        ctx.stat("roundtrips")
        ctx.stat("files_compared", len(fb))
        ctx.stat("mode_" + c["mode"])
        ctx.stat("config_" + c["config_name"])
        if differing:
            first = differing[0]
            ctx.report("roundtrip:" + shape_of(c), "files of the dependant differ between the @extern build and the all-local build",
                       {"input": inp, "differing": differing[:12], "first": first,
                        "extern_build": r2["files"][first][:1500], "local_build": c["local"]["files"].get(first, "<absent>")[:1500]})
        # 3. function level + specification on the observations, per exported declaration
        loaded = r2["extra"]["loaded"]
        for key, d in decls.items():
            decl_req = {"base": d["base"], "node": d["node"], "marsh": d["marsh"]}
            reqs.append({"op": "c13.export", "decl": decl_req})
            metas.append(("export", c, key, d, docs.get(key)))
            if key in docs:
                reqs.append({"op": "c13.load", "spec": spec, "doc": doc_req(docs[key], gen_keys)})
                metas.append(("load", c, key, d, loaded.get(key)))
            if key in docs and key not in loaded:
                ctx.report("key:" + d["kind"], "the type loaded from the exported YAML is not registered under the declaration's qualified name",
                           {"input": {**inp, "type": key}, "registered": sorted(loaded)})
            if key in loaded:
                reqs.append({"op": "c13.spec", "decl": decl_req, "loaded": loaded[key], "used": used_req, "primitive": d["primitive"]})
                metas.append(("spec", c, key, d, loaded[key]))
            reqs.append({"op": "c13.roundtrip", "decl": decl_req, "spec": spec, "used": used_req, "primitive": d["primitive"]})
            metas.append(("model-roundtrip", c, key, d, None))
    answers = []
    for a0 in range(0, len(reqs), 400):
        answers += ctx.driver.batch(reqs[a0:a0 + 400])
    for (kind, c, key, d, other), a in zip(metas, answers):
        if "error" in a:
            raise common.Infra(f"driver error {a} ({kind} {key})")
        inp = {"exporter": c["exp"], "dependant": c["dep"], "config": c["config"], "mode": c["mode"], "type": key}
        if kind == "export":
            ctx.count(key=("export", d["kind"], c["config_name"]), nontrivial=True, sample={"type": key, "kind": d["kind"]})
            ctx.stat("export_" + d["kind"])
            if other is not None and model_doc_canon(a) != doc_canon(other, gen_keys):
                breaks.append({"what": "c13.export vs the written YAML document", "type": key, "model": model_doc_canon(a), "impl": doc_canon(other, gen_keys), "input": inp})
        elif kind == "load":
            ctx.count(n=1)
            mine = None if a.get("invalid") else {"base": sorted(a["base"]), "gens": sorted([g, None if kv is None else sorted(kv)] for g, kv in a["gens"])}
            theirs = None if other is None else {"base": sorted(other["base"]), "gens": sorted([g, None if kv is None else sorted(kv)] for g, kv in other["gens"] if g != "yaml")}
            if mine != theirs:
                breaks.append({"what": "c13.load vs Resolver.load_external", "type": key, "model": mine, "impl": theirs, "input": inp})
        elif kind == "spec":
            ctx.count(n=1)
            if not a["same_key"]:
                ctx.report("key:" + d["kind"], "the loaded type registers under another qualified name", {"input": inp, "spec": a})
            for df in a["differing"]:
                ctx.report(f"attr:{df['gen']}.{df['attr']}".replace("<header>", "derived_header"),
                           "an attribute that dependants read through the type definition differs between the local declaration and the loaded external type",
                           {"input": inp, "attribute": df, "kind": d["kind"]})
        else:
            if a.get("invalid") or not a["holds"]:
                # the model's own round trip differs: either a Dom clause (then the implementation's observation above
                # reported it) or a modelling problem
                c.setdefault("model_diffs", []).append((key, a))
    return breaks


def doc_req(doc: dict, gen_keys):
    return {"base": [[k, jval(v)] for k, v in doc.items() if k not in gen_keys],
            "gens": [[g, [[k, jval(v)] for k, v in doc[g].items()]] for g in gen_keys if g in doc and isinstance(doc[g], dict)]}


def load_corpus():
    p = common.VERIF / "corpus" / "c13.json"
    return json.loads(p.read_text()) if p.exists() else []


def run(ctx):
    ctx.coverage["rule"] = ("round trips: distinct = (shape, export mode, naming configuration, number and kinds of the exported declarations); "
                            "function level: one evaluation per exported declaration and op (export, load, spec)")
    ctx.assumptions += [
        "closed feature set: exporter declarations " + ", ".join(SAFE) + " (+ xerr exported but not thrown); dependants: a record (plain, optional, list<>, map<>, list<T?> fields), "
        "a +cpp interface (static/const methods, parameters, returns, list<> returns), a +java+objc+cppcli interface, a named function, an interface with an inline function "
        "parameter and an async method; three naming configurations; per-type files and out_file",
        "Dom clauses (findings): noExternErrorDomainThrown, noExternBaseRecord — excluded from the generator, one witness each in corpus/c13.json",
        "generated files are compared byte for byte (sha256); the banner names the same root file in both builds",
    ]
    api, gens = api_and_gens()
    used, spec, computed, ok = obligations(ctx, gens)
    cases = []
    for c in load_corpus():
        cases.append({**c, "config": c.get("config", {}), "config_name": c.get("config_name", "default"), "mode": c.get("mode", "per_type"), "shape": c.get("shape", "corpus")})
    for i in range(ctx.n(30, 500)):
        r = random.Random(f"{ctx.seed}/c13/{i}")
        cases.append(gen_case(r, i))
    breaks = round_trips(ctx, cases, used, spec)
    # an obligation that fails without a listed Dom clause: name the attribute and try to exercise it
    if not ok:
        for u in used:
            if not py_loadable(spec, u) and not py_known(u) and not ctx.violations:
                ctx.report(f"attr:{u['gen']}.{u['attr']}", "an attribute is read through a type definition but is no field of the external type model",
                           {"obligation": "used_loadable", "attribute": u}, no_failing_input=True)
    ctx.stats["correspondence_breaks"] = len(breaks)
    keys = {}
    for v in ctx.violations:
        keys[v["key"]] = keys.get(v["key"], 0) + 1
    if keys:
        ctx.stats["violation_keys"] = keys
    if breaks and not ctx.violations:
        ctx.report("correspondence", "model and implementation disagree; the specification holds on every sampled input",
                   {"first": breaks[0], "count": len(breaks)}, no_failing_input=True)
    elif breaks:
        ctx.stats["correspondence_first"] = breaks[0]["what"]


def replay(ctx, body):
    inp = body.get("input")
    if not inp or "exporter" not in inp:
        print("replay without a concrete input (obligation / correspondence):", json.dumps(body, indent=1)[:2000])
        return False
    api, gens = api_and_gens()
    used, spec = extract_used(gens), ext_fields(gens)
    n0, k0 = len(ctx.violations), sum(ctx.known_hits.values())
    round_trips(ctx, [{"exp": inp["exporter"], "dep": inp["dependant"], "config": inp.get("config", {}), "config_name": "replay",
                       "mode": inp.get("mode", "per_type"), "shape": "replay"}], used, spec)
    return len(ctx.violations) == n0 and sum(ctx.known_hits.values()) == k0
