"""C13 — exported type YAML re-imports to the same types (extern round trip).

Theorems (Lean, `Props/C13.lean`, model `Gen/Yaml.lean`): in the model of `generate_type_dict` (dump of the BaseExternalType
fields + the `@computed_field`s of every generator's marshalling object, `None` dropped) and of `model_validate` (unknown
keys ignored, defaults, required fields) every attribute that is exported *and* a field of the external-type model reads the
same through the loaded type as through the local declaration (`roundtrip_view`, `_none`, `_header`, `_base`, `_key`), the
document validates if the required fields are computed (`export_validates`), and an attribute that is no model field cannot
be read at all (`not_exported_unreadable`).

Tie to /repo, every run:
  G  generated obligations (`decide`): the attribute chains `….type_def.<gen>.<attr>` / `error_domain.<gen>.<attr>` that the
     69 templates and the generators' Python read (`used`), the fields of every `…ExternalType` model, and the computed fields of
     the marshalling class of every declaration kind are extracted from the live source; `usedOk` (used ⊆ loadable, up to the
     named Dom clauses = findings), `exportedOk` (used ∩ loadable ⊆ computed for every kind), `requiredOk`.
  K1 function level: for every exported declaration of the generated programs, the real marshalling property table ->
     `c13.export` vs the YAML the yaml target wrote; `c13.load` vs the type the real `Resolver.load_external` registered.
  K2 real round trip: exporter part -> yaml (per-type files / `out_file`), every document validated with
     `API().external_type_model`; the dependant built once with `@extern` and once with everything local; the dependant's
     generated files must be identical ({path: sha256}) for cpp/java/jni/objc/objcpp/cppcli. Exported names come from the slot
     names, from the words `yaml.dump` has to quote and from keyword-like identifiers (also as namespaces); every dependant uses
     every exported declaration in every wrapper at every position (`dependant`); a differing round trip is re-run with one
     declaration and one usage site and reported under `roundtrip:<exported kind>:<wrapper>`.
  K3 the loader alone: `c13.loadfile` (Lean `loadFile`: validate, register, `located` = the name is a plain scalar) vs the
     registry of the real `Resolver.load_external` on the exported files (keys in order; the position delimits the name on a
     `name:` line iff located). Theorems `loadFile_registers`, `export_registered`: registration does not depend on `located`.
  K4 the workspace of the dependent program: every other round trip is built in a workspace of four directories — the working
     directory `work`, the directory `app` of the IDL file, the include directories `inc1`, `inc2` (absolute or relative to the
     working directory) — with the export reachable as given / next to the IDL file / through the first / the second include
     directory / by an absolute literal; every search candidate *behind* the export holds a decoy of the same relative name (an
     export of the same qualified names declared as other kinds under another naming configuration), the candidate in front of it
     may be a directory of that name. `c13.locate` (Lean `searchOrder`, `locate`; theorems `locate_first_file`,
     `nextToIdl_before_includeDirs`, `includeDirs_in_order`, `extern_loads_export`) on the workspace as written vs the files the real
     parser read (`parsed.external_types`); the all-local reference is built in the same place (same root spelling and cwd).
  K5 the alphabet of the exported strings: round trips under naming configurations (`ALPHABETS`) that carry underscores, digits and both letter
     cases into every exported attribute — configured namespaces / packages / prefixes with `_` and digits, the styles `none` and `snake_case`
     for types, classes, namespaces and packages, file names with `-` (`kebab-case`), `.` and digits, include prefixes with `-`, `.`, `..` —
     over type names and namespaces of the same alphabet (`LEXICAL`, `LEX_NAMESPACES`: `geo_point`, `t1_2`, `UPPER_CASE`, `trailing_`,
     `namespace geo_data`, `v2.api_1.dto` …); `stats.exported_alphabet` lists, per attribute, the characters seen. The value constraints of
     the external-type models (`Field(pattern=…)`) are part of the model (`Pat`, `cppNameOk`; theorem `cppNameOk_joined`): obligation
     `patterns_modelled` (every live pattern is one the model implements) and `c13.pattern` vs pydantic's matcher on `PATTERN_SAMPLES`.
  K6 re-export histories (`gen_sequence`, `sequence_job`): 2-3 rounds of export -> @extern -> generate (+ loader alone, + all-local build) in ONE
     worker process on ONE directory tree — the export goes to the same paths every round; from round to round the naming configuration, the
     kinds behind the names, the set of declarations or their namespaces change (or nothing does); export mode x spelling of the literals
     (absolute / relative) x one `API` object for all steps / one per step rotate. Every round is judged like any round trip (against the
     all-local build of *that* round); a failure of a later round is re-run as a history of that round alone in a fresh process: what it also
     shows alone keeps its key, the rest is `history:stale-export:<what changed>`. Lean `Disk`, `Round`, `runRounds` (`c13.rounds`, compared
     with the registry of the real loader round by round); theorems `round_history_free`, `runRounds_history_free`, `reexport_registered`.
  K7 dependants spread over several IDL files (`gen_split_case`, `SPLIT_LAYOUTS`): the `@extern` and `@import` directives of the root file
     interleaved in both orders, the external types used in the root file and / or in imported files (also two levels down), the `@extern`
     directives standing in the root file or in an imported one; the all-local reference has an `@import` of an IDL file with the same
     declarations at the place of every `@extern`. Directives are processed in source order, and an imported file is read against what
     was registered before its `@import`: `c05.front` (Lean `doLoads` / `parseOne`, theorems `parseOne_finish_order`,
     `front_registry_is_regUpTo` of C16) on the files as written vs whether the real parser accepts the dependant; layouts whose order is
     wrong (the imported file uses a type that is pulled in only after it) have to be refused in both builds.
  K8 exporting programs spread over several IDL files (`gen_multi_exporter_case`, `EXP_LAYOUTS`): import chains of two to four files, trees, diamonds,
     files shared by two importers (reached first directly / first two imports deep), files in nested directories; every file declares exported
     types and refers to types of the files it imports, the dependant uses the types of every file. The named types of the program are read off
     its files by the model of the front end (`c13.declared`: Lean `ExportSet.declared` = `progDecls` of `programInOrder`, the files reachable from
     the root by @import in finish order; theorems `declared_of_reachable_file`, `declaredOf_mem`, `progFilesOf_mem`: every declaration of every
     reachable file, at whatever import depth) — asked for EVERY exporter of every stream — and compared with the documents the yaml target wrote
     (set; order of the documents of an `out_file`) and with what the generator of the case wrote into the files.
  S  specification on the implementation's observations: every named type of the exporting program — declared in the root file or any number of
     imports below it — has an exported document (`yaml:not-exported:declared-in-imported-file` / `…-in-root-file`); every `@extern` directive loaded the export, not a decoy
     (`extern:wrong-file:<form>`); every exported declaration is registered under its qualified name
     by the real loader (`key:<Kind>`), `c13.spec` compares every applicable read through the really loaded type with the read
     through the real local declaration (names the attribute), plus the file identity of K2.
"""
from __future__ import annotations

import ast
import hashlib
import json
import random
import re
from pathlib import Path

import common
import front
import genrun_f as genrun

LEAN_MODULE = "PydjinniModel.Props.C13"
THEOREMS = [
    "Pydjinni.C13.loadFile_registers",
    "Pydjinni.C13.loadFile_ok_of_valid_fresh",
    "Pydjinni.C13.export_registered",
    "Pydjinni.C13.lookup_exportProps",
    "Pydjinni.C13.lookup_exportProps_none",
    "Pydjinni.C13.loaded_value",
    "Pydjinni.C13.roundtrip_view",
    "Pydjinni.C13.roundtrip_view_none",
    "Pydjinni.C13.roundtrip_header",
    "Pydjinni.C13.base_record_header_counterexample",
    "Pydjinni.C13.not_exported_unreadable",
    "Pydjinni.C13.roundtrip_base",
    "Pydjinni.C13.roundtrip_key",
    "Pydjinni.C13.export_validates",
    "Pydjinni.C13.locate_first_file",
    "Pydjinni.C13.locate_decoys_irrelevant",
    "Pydjinni.C13.asGiven_first",
    "Pydjinni.C13.nextToIdl_before_includeDirs",
    "Pydjinni.C13.includeDirs_in_order",
    "Pydjinni.C13.extern_loads_export",
    "Pydjinni.C13.extern_export_registered",
    "Pydjinni.C13.cppNameOk_joined",
    "Pydjinni.C13.any_accepts",
    "Pydjinni.C13.read_after_write",
    "Pydjinni.C13.loadPaths_congr",
    "Pydjinni.C13.round_history_free",
    "Pydjinni.C13.runRounds_history_free",
    "Pydjinni.C13.reexport_registered",
    "Pydjinni.C13.declaredOf_mem",
    "Pydjinni.C13.progFilesOf_mem",
    "Pydjinni.C13.declared_of_reachable_file",
]
LEVEL = "proof"
TRUSTED = (
    "PyYAML dump/load and pydantic validation are modelled (dump of computed fields without None; unknown keys ignored, defaults, required) "
    "and tied by the function-level correspondence, not verified",
    "the attribute-chain extractor of this check (Jinja ASTs via the generators' own preprocessing, Python `ast` of the generator packages)",
)

TARGETS = ["cpp", "java", "objc", "cppcli"]
KINDS = ["Enum", "Flags", "Record", "Interface", "Function", "ErrorDomain"]


# ---------------------------------------------------------------------------------------------------------
# G: tables from the live source
# ---------------------------------------------------------------------------------------------------------

def api_and_gens():
    from pydjinni import API
    api = API()
    return api, [g for t in api.generation_targets.values() for g in t.generator_instances]


def jval(v):
    """canonical value: str | bool | [str] | None"""
    import enum
    from pathlib import PurePath
    if v is None or isinstance(v, bool):
        return v
    if isinstance(v, enum.Enum):
        return str(v.value)
    if isinstance(v, (str, PurePath)):
        return str(v)
    if isinstance(v, (list, tuple, set, frozenset)):
        items = [jval(x) for x in v]
        if all(isinstance(x, str) for x in items):
            return sorted(items) if isinstance(v, (set, frozenset)) else items
        return ["<" + type(x).__name__ + ">" for x in v]
    if isinstance(v, (int, float)):
        return str(v)
    return "<" + type(v).__name__ + ">"


def extract_used(gens) -> list[dict]:
    """attribute reads through a type definition: [{gen, attr, ctx, where}]"""
    from jinja2 import nodes
    keys = [g.key for g in gens]
    used: dict[tuple, set] = {}

    def add(rest, ctx, where, star=False):
        if not rest:
            return
        if star:
            k = ("*", rest[0], ctx)
        elif rest[0] in keys:
            if len(rest) < 2:
                return
            k = (rest[0], rest[1], ctx)
        else:
            k = ("", rest[0], ctx)
        used.setdefault(k, set()).add(where)

    def jchain(n):
        out = []
        while isinstance(n, nodes.Getattr):
            out.append(n.attr)
            n = n.node
        out.append(n.name if isinstance(n, nodes.Name) else "<expr>")
        return list(reversed(out))

    for g in gens:
        tdir = g._generator_directory / "templates"
        if tdir.exists():
            for f in sorted(tdir.rglob("*")):
                if not f.is_file():
                    continue
                rel = f.relative_to(tdir)
                tree = g._jinja_env.parse(g.template_preprocessing(rel))
                # loop variables that range over a `throws` clause are error-domain references
                err_refs = set()
                for fo in tree.find_all(nodes.For):
                    if isinstance(fo.target, nodes.Name) and jchain(fo.iter)[-1] == "throwing":
                        err_refs.add(fo.target.name)
                aliases = {}
                for a in tree.find_all(nodes.Assign):
                    if isinstance(a.target, nodes.Name):
                        c = jchain(a.node)
                        if c[-1] == "type_def" and len(c) > 1:
                            aliases[a.target.name] = "error" if c[0] in err_refs else "any"
                inner = set()
                for ga in tree.find_all(nodes.Getattr):
                    n = ga
                    while isinstance(n.node, nodes.Getattr):
                        inner.add(id(n.node))
                        n = n.node
                for ga in tree.find_all(nodes.Getattr):
                    if id(ga) in inner:
                        continue
                    c = jchain(ga)
                    where = f"{g.key}:{rel}:{ga.lineno}"
                    for i, x in enumerate(c):
                        if x == "type_def" and i > 0:
                            add(c[i + 1:], "error" if c[0] in err_refs else "any", where)
                    if c[0] in aliases and len(c) > 1:
                        add(c[1:], aliases[c[0]], where)
    # generator Python (+ the shared filters module)
    pyfiles = []
    for g in gens:
        pyfiles += sorted(g._generator_directory.glob("*.py"))
    pyfiles.append(common.SRC / "pydjinni/generator/filters.py")
    for py in sorted(set(pyfiles)):
        tree = ast.parse(py.read_text())
        where0 = str(py.relative_to(common.SRC))

        def pchain(n):
            out = []
            while isinstance(n, ast.Attribute):
                out.append(n.attr)
                n = n.value
            out.append(n.id if isinstance(n, ast.Name) else "<expr>")
            return list(reversed(out))

        aliases, star_aliases = set(), set()
        for n in ast.walk(tree):
            tgt = val = None
            if isinstance(n, ast.Assign) and len(n.targets) == 1 and isinstance(n.targets[0], ast.Name):
                tgt, val = n.targets[0].id, n.value
            elif isinstance(n, ast.AnnAssign) and isinstance(n.target, ast.Name) and n.value is not None:
                tgt, val = n.target.id, n.value
            if tgt is None:
                continue
            if isinstance(val, ast.Attribute) and pchain(val)[-1] == "type_def" and len(pchain(val)) > 1:
                aliases.add(tgt)
            if (isinstance(val, ast.Call) and isinstance(val.func, ast.Name) and val.func.id == "getattr" and val.args
                    and isinstance(val.args[0], ast.Attribute) and pchain(val.args[0])[-1] == "type_def"):
                star_aliases.add(tgt)
        inner = set()
        for n in ast.walk(tree):
            if isinstance(n, ast.Attribute) and isinstance(n.value, ast.Attribute):
                inner.add(id(n.value))
        for n in ast.walk(tree):
            if isinstance(n, ast.Attribute) and id(n) not in inner:
                c = pchain(n)
                where = f"{where0}:{n.lineno}"
                for i, x in enumerate(c):
                    if x == "type_def" and i > 0:
                        add(c[i + 1:], "any", where)
                if c[0] in aliases and len(c) > 1:
                    add(c[1:], "any", where)
                if c[0] in star_aliases and len(c) > 1:
                    add(c[1:], "any", where, star=True)
            if (isinstance(n, ast.Call) and isinstance(n.func, ast.Name) and n.func.id == "hasattr" and len(n.args) == 2
                    and isinstance(n.args[0], ast.Name) and n.args[0].id in star_aliases and isinstance(n.args[1], ast.Constant)):
                add([n.args[1].value], "any", f"{where0}:{n.lineno}", star=True)
    # `headers(dependencies, "<key>")` reads through `getattr(type_def, <key>)`: expand the dynamic key over the keys it is called with
    star_targets = set()
    for py in sorted(set(pyfiles)):
        for n in ast.walk(ast.parse(py.read_text())):
            if (isinstance(n, ast.Call) and isinstance(n.func, ast.Name) and n.func.id == "headers" and len(n.args) >= 2
                    and isinstance(n.args[1], ast.Constant) and isinstance(n.args[1].value, str)):
                star_targets.add(n.args[1].value)
    for k in [k for k in used if k[0] == "*"]:
        where = used.pop(k)
        for t in sorted(star_targets):
            used.setdefault((t, k[1], k[2]), set()).update(where)
    return [{"gen": k[0], "attr": k[1], "ctx": k[2], "where": sorted(v)[:4]} for k, v in sorted(used.items())]


def ext_fields(gens):
    out = []
    for g in gens:
        m = g.external_type_model
        if m is None:
            continue
        fs = []
        for name, f in m.model_fields.items():
            e = {"n": name, "req": bool(f.is_required()), "def": None if f.is_required() else jval(f.default)}
            # value constraint of the field (`Field(pattern=…)`): the expression as written, and the model's name for it
            text = next((x.pattern for x in f.metadata if isinstance(getattr(x, "pattern", None), str)), None)
            if text is not None:
                e["pattern"] = text
                e["pat"] = MODELLED_PATTERNS.get((g.key, name, text), "any")
            fs.append(e)
        out.append([g.key, fs])
    return out


# Python twin of Lean `modelledPatterns` (the expressions of the pinned tree that `Pat` implements)
MODELLED_PATTERNS = {("jni", "translator", r"^(::)?([a-zA-Z][a-zA-Z0-9_]*(::))*[a-zA-Z][a-zA-Z0-9_]*$"): "cppName"}
# strings around the alphabet of qualified C++ names, for the correspondence of the pattern automaton with the live expression
PATTERN_SAMPLES = ["a", "A9", "a_b", "a__b_", "::a", "::a::b_2::C_", "geo_lib::jni_2::geo_data::j_geo_point", "Z9::z_9", "", "::", "a::", "::a::", "a:b", "a:::b", ":a",
                   ":::a", "::::a", "_a", "9a", "a::9", "a::_b", "a$b", "a-b", "a.b", "a b", "a::b c", "é", "a::é", "a/b", "La/b_c;", "a::b::", "a:", "a::b:"]


def pattern_correspondence(ctx, spec):
    """the model of every modelled field pattern vs the live field constraint (pydantic's own matcher), on `PATTERN_SAMPLES`"""
    from typing import Annotated
    from pydantic import Field, TypeAdapter, ValidationError
    breaks = []
    for g, fs in spec:
        for f in fs:
            if "pattern" not in f:
                continue
            live = TypeAdapter(Annotated[str, Field(pattern=f["pattern"])])

            def ok(v):
                try:
                    live.validate_python(v)
                    return True
                except ValidationError:
                    return False
            theirs = [ok(v) for v in PATTERN_SAMPLES]
            mine = ctx.driver.batch([{"op": "c13.pattern", "pat": f["pat"], "values": PATTERN_SAMPLES}])[0]
            if "error" in mine:
                raise common.Infra(f"driver error {mine}")
            ctx.count(n=len(PATTERN_SAMPLES))
            ctx.stat("pattern_samples_accepted", sum(theirs))
            ctx.stat("pattern_samples_refused", len(theirs) - sum(theirs))
            bad = [[v, m, t] for v, m, t in zip(PATTERN_SAMPLES, mine["accepts"], theirs) if m != t]
            if bad:
                breaks.append({"what": f"c13.pattern ({f['pat']}) vs the live constraint of {g}.{f['n']}", "pattern": f["pattern"], "differing [value, model, impl]": bad[:8]})
    return breaks


def computed_by_kind(gens):
    import pydjinni.parser.ast as past
    from pydantic import BaseModel
    from pydjinni.parser.base_models import BaseExternalType
    out = []
    for g in gens:
        mm = g.marshal_models
        if not mm:
            continue
        for kind in KINDS:
            cls = getattr(past, kind)

            def find(c):
                if c in (BaseExternalType, BaseModel, object):
                    return None
                if mm.get(c):
                    return mm[c]
                for b in c.__bases__:
                    r = find(b)
                    if r:
                        return r
                return None

            mc = find(cls)
            if mc is not None:
                out.append((kind, g.key, sorted(mc.model_computed_fields.keys())))
    return out


def lean_lit(s: str) -> str:
    return json.dumps(s, ensure_ascii=False)


def obligations(ctx, gens):
    used = extract_used(gens)
    spec = ext_fields(gens)
    computed = computed_by_kind(gens)
    ctx.stats["used_attributes"] = len(used)
    src = ["import PydjinniModel.Props.C13", "open Pydjinni.Gen.Yaml", "",
           "/-- attributes read through `….type_def` by templates and generator code (live extraction) -/",
           "def used : List Used := ["]
    src.append(",\n".join(f"  ⟨{lean_lit(u['gen'])}, {lean_lit(u['attr'])}, {lean_lit(u['ctx'])}⟩" for u in used))
    src += ["]", "", "/-- fields of the generators' external-type models: (name, required) -/",
            "def extFields : List (String × List (String × Bool)) := ["]
    src.append(",\n".join("  (" + lean_lit(g) + ", [" + ", ".join(f"({lean_lit(f['n'])}, {'true' if f['req'] else 'false'})" for f in fs) + "])" for g, fs in spec))
    src += ["]", "", "/-- computed fields of the marshalling class of every declaration kind: (AST class, generator, names) -/",
            "def computed : List (String × String × List String) := ["]
    src.append(",\n".join(f"  ({lean_lit(k)}, {lean_lit(g)}, [" + ", ".join(lean_lit(n) for n in names) + "])" for k, g, names in computed))
    pats = [(g, f["n"], f["pattern"]) for g, fs in spec for f in fs if "pattern" in f]
    src += ["]", "", "/-- the `pattern=` constraints of the fields of the external-type models: (generator, field, expression) -/",
            "def extPatterns : List (String × String × String) := ["]
    src.append(",\n".join(f"  ({lean_lit(g)}, {lean_lit(n)}, {lean_lit(t)})" for g, n, t in pats))
    src += ["]", "",
            "/-- every value constraint of a live external-type model is one the model implements (`modelledPatterns`, `Pat`) -/",
            "theorem patterns_modelled : patternsModelled extPatterns = true := by decide", "",
            "/-- every read through a type definition can be answered by a loaded external type (up to the Dom clauses `knownMissing`) -/",
            "theorem used_loadable : used.all (usedOk extFields) = true := by decide",
            "/-- every loadable attribute that is read is exported for every declaration kind -/",
            "theorem used_exported : used.all (exportedOk extFields computed) = true := by decide",
            "/-- every required field of an external-type model is exported for every declaration kind -/",
            "theorem required_exported : requiredOk extFields computed = true := by decide", ""]
    text = "\n".join(src)
    ok, out = common.lean_check_file(text, "C13_tables")
    lines = text.split("\n")
    errs = [int(m) for m in re.findall(r"\.lean:(\d+):\d+: error", out)]
    ctx.stats["field_patterns"] = [f"{g}.{n}" for g, n, _ in pats]
    for name in ("patterns_modelled", "used_loadable", "used_exported", "required_exported"):
        ln = next(i for i, l in enumerate(lines) if l.startswith("theorem " + name)) + 1
        ctx.obligation("C13_tables." + name, ok or (bool(errs) and ln not in errs), kind="generated", detail=out)
    if not ok and not errs:
        ctx.obligation("C13_tables.elaborates", False, kind="generated", detail=out)
    return used, spec, computed, ok


# Python twins of the Lean predicates, only to *name* the offending attribute when an obligation fails
KNOWN_MISSING = {("", "error_codes", "error"), ("java", "name", "error"), ("jni", "name", "error"), ("jni", "namespace", "error"),
                 ("objc", "domain_name", "error"), ("objcpp", "name", "error"), ("objcpp", "namespace", "error"),
                 ("*", "base_type", "any"), ("*", "derived_header", "any")}
BASE_FIELDS = ["name", "namespace", "primitive", "params", "comment", "deprecated", "position"]


def py_loadable(spec, u):
    if u["gen"] == "":
        return u["attr"] in BASE_FIELDS
    fs = dict(spec).get(u["gen"])
    return fs is not None and any(f["n"] == u["attr"] for f in fs)


def py_known(u):
    return (u["gen"], u["attr"], u["ctx"]) in KNOWN_MISSING or ("*", u["attr"], u["ctx"]) in KNOWN_MISSING


# ---------------------------------------------------------------------------------------------------------
# programs: exporter part + dependant part (closed feature set)
# ---------------------------------------------------------------------------------------------------------

# exporter declaration slots: slot -> (IDL template over the type's name `{n}`, kind tag). All declarations of the
# exporter part are exported; dependants only refer to `SAFE` ones unless a finding shape is requested.
EXPORTS = {
    "xe": ("{n} = enum {{ a; b; }}\n", "enum"),
    "xf": ("{n} = flags {{ p; q; n = none; z = all; }}\n", "flags"),
    "xr": ("{n} = record {{ v: i32; s: string; }}\n", "record"),
    "xd": ("{n} = record {{ v: i32; s: string; }} deriving(eq, ord)\n", "record"),
    "xn": ("{n} = record {{ k: i64; }}\n", "record"),                     # always inside a namespace
    "xi": ("{n} = interface +cpp {{ m(a: i32) -> i32; }}\n", "interface"),
    "xj": ("{n} = interface +java +objc +cppcli {{ on(v: i32); }}\n", "interface"),
    "xu": ("{n} = interface {{ on(v: i32) -> bool; }}\n", "interface"),    # no target flags: every language
    "xa": ("{n} = interface +cpp {{ async am(a: i32) -> i32; }}\n", "interface"),
    "xp": ("{n} = interface +cpp {{ property pr: i32; }}\n", "interface"),
    "xfn": ("{n} = function (a: i32) -> bool;\n", "function"),
    "xfc": ("{n} = function +cpp (a: i32, b: string);\n", "function"),
    "xf0": ("{n} = function ();\n", "function"),
    "xbj": ("{n} = record +java {{ v: i32; }}\n", "record"),
    "xerr": ("{n} = error {{ c1; c2(code: i32); }}\n", "error"),
    # finding shapes
    "xbc": ("{n} = record +cpp {{ v: i32; }}\n", "base-record"),
    "xbo": ("{n} = record +objc {{ v: i32; }}\n", "base-record"),
    "xbl": ("{n} = record +cppcli {{ v: i32; }}\n", "base-record"),
}
SAFE = ["xe", "xf", "xr", "xd", "xn", "xi", "xj", "xu", "xa", "xp", "xfn", "xfc", "xf0", "xbj"]

# Names of exported types. Every IDL identifier (`Letter (Letter|Digit|_)*` that is no IDL keyword) is a legal type name:
#  * words the YAML 1.1 resolver of PyYAML reads as bool/null — `yaml.dump` writes them quoted (`name: 'on'`);
#  * `y`/`n` (YAML 1.1 bools that PyYAML writes plain), identifiers that are keywords / literals / built-in names of some
#    target language or of Python but legal *type* names under every naming configuration below (the generators convert
#    the case or add a prefix); excluded because the *all-local* build refuses them: class, nil, self, type (Objective-C).
YAML_WORDS = ["on", "off", "yes", "no", "true", "false", "null", "On", "OFF", "Yes", "NO", "True", "FALSE", "Null", "NULL"]
KEYWORDISH = ["y", "n", "int", "default", "void", "id", "delete", "new", "struct", "import", "object", "name", "template", "final",
              "None", "register", "union", "typedef", "auto", "package", "native", "char", "double", "in", "out", "ref", "var",
              "val", "let", "is", "as", "this", "super", "throw", "try"]
# namespaces are spelled as they are in C++/Java/C#: only words that are no keyword there
NAMESPACES = ["ns", "on", "off", "yes", "no", "null", "Null", "y", "n", "id", "object", "name", "in", "out", "ref", "var", "is", "as",
              "on.off", "a.null", "yes.no.on"]
NAMINGS = ["slots", "yaml-words", "keywordish", "mixed"]
# the alphabet of an identifier is `Letter (Letter | Digit | _)*`: names and namespaces with underscores (single, doubled, trailing),
# digits and mixed letter case — what survives into the exported strings depends on the identifier styles (`ALPHABETS` below)
LEXICAL = ["geo_point", "point2d", "a_b_c", "x_1", "Mixed_Case", "camelCase", "UPPER_CASE", "t1_2", "Http2Server", "v_2_0", "snake_case_name", "e2e",
           "trailing_", "double__score", "Z9"]
LEX_NAMESPACES = ["geo_data", "net2", "a_b.c_d", "x1.y_2", "Geo_Data", "v2.api_1.dto", "ui__kit", "tail_"]
YAML_LOWER = {w.lower() for w in YAML_WORDS}

# how a dependant can wrap a reference to an exported type …
WRAPS = [("pl", "{t}"), ("op", "{t}?"), ("li", "list<{t}>"), ("se", "set<{t}>"), ("mv", "map<string, {t}>"), ("mk", "map<{t}, i32>"),
         ("lo", "list<{t}?>"), ("ol", "list<{t}>?"), ("ll", "list<list<{t}>>"), ("ml", "map<string, list<{t}?>>?")]
# … and where the wrapped reference can stand (`members`: position tag -> template over site name `{s}` and type `{w}`)
CPP_MEMBERS = [("cm", "    {s}(p: {w}) -> {w};\n"), ("cs", "    static {s}(p: {w}, q: i32) -> {w};\n"), ("cc", "    const {s}(p: {w});\n"),
               ("ca", "    async {s}(p: {w}) -> {w};\n"), ("cp", "    property {s}: {w};\n")]
JAVA_MEMBERS = [("jm", "    {s}(p: {w}) -> {w};\n"), ("ja", "    async {s}(p: {w}) -> {w};\n"), ("jp", "    property {s}: {w};\n")]
KIND_OF_TAG = {"enum": "enum", "flags": "flags", "record": "record", "base-record": "record", "interface": "interface", "function": "function"}


def legal_field(tag: str, wrap: str) -> bool:
    """parser rule: an interface (also an optional one) is no record field type"""
    return not (tag == "interface" and wrap in ("pl", "op"))


def site(slot: str, wrap: str, pos: str) -> str:
    """the name of a usage site spells out what is used where: the differing line of a generated file names the shape"""
    return f"u_{slot}_{wrap}_{pos}"


def dependant(r: random.Random, decls: list[dict], throws: str | None = None, rot: int = 0, light: bool = False) -> str:
    """dependant declarations over the exported declarations `decls` ({slot, tag, ref}): every declaration in every
    wrapper, at every kind of position (record field with/without deriving, parameter / return / property of a C++ and of
    a Java/ObjC/C# implemented interface, static/const/async methods, named and inline function signatures)."""
    out = []
    plain, eq, ordd = [], [], []
    cpp, java = [], []
    fn_sites = []
    for d in decls:
        for wi, (wn, wt) in enumerate(WRAPS):
            w = wt.format(t=d["ref"])
            if legal_field(d["tag"], wn):
                plain.append(f"    {site(d['slot'], wn, 'fp')}: {w};\n")
                eq.append(f"    {site(d['slot'], wn, 'fe')}: {w};\n")
                if wn in ("pl", "op"):          # 'ord' is refused for collections
                    ordd.append(f"    {site(d['slot'], wn, 'fo')}: {w};\n")
            for pn, pt in CPP_MEMBERS:
                cpp.append(pt.format(s=site(d["slot"], wn, pn), w=w))
            for pn, pt in JAVA_MEMBERS:
                java.append(pt.format(s=site(d["slot"], wn, pn), w=w))
            fn_sites.append((site(d["slot"], wn, "np"), w))
    # every declaration of the dependant is ~10 generated files (the cost of a case): the record with deriving, the named
    # signature and the inline signatures rotate with the case number `rot`
    if plain:
        out.append("dr = record {\n" + "".join(plain) + "}\n")
        if light:       # (the rounds of a re-export history: three declarations — a record, a C++ and a Java/ObjC/C# implemented interface)
            pass
        elif (rot + rot // len(SAFE)) % 2 == 0 or not ordd:
            out.append("dre = record {\n" + "".join(eq) + "} deriving(eq)\n")
        else:
            out.append("dro = record {\n" + "".join(ordd) + "} deriving(eq, ord)\n")
    thr = f" throws {throws}" if throws else ""
    if throws:
        cpp.insert(0, f"    mthrows(p: i32){thr} -> i32;\n")
        java.insert(0, f"    onthrows(){thr};\n")
    # inline signatures over one declaration: the wrappers of the three parameters and of the returned type rotate
    for which, (members, pn) in enumerate(() if light else ((cpp, "ip"), (java, "ir"))):
        d = decls[(rot + which) % len(decls)]
        wn, wt = WRAPS[(rot // len(decls) + 3 * which) % len(WRAPS)]
        # (the generated file names spell the whole signature out: three parameters keep them below the 255 bytes of a file name)
        ws = [WRAPS[(rot + 3 * which + 1 + j) % len(WRAPS)] for j in range(3)]
        params = ", ".join(f"{site(d['slot'], x, 'ia' if pn == 'ip' else 'ib')}: {t.format(t=d['ref'])}" for x, t in ws)
        sig = f"({params}) -> {wt.format(t=d['ref'])}"
        members.append(f"    {site(d['slot'], wn, pn)}(f: {sig});\n" if pn == "ip" else f"    {site(d['slot'], wn, pn)}() -> {sig};\n")
    out.append("di = interface +cpp {\n" + "".join(cpp) + "}\n")
    out.append("dj = interface +java +objc +cppcli {\n" + "".join(java) + "}\n")
    if light:
        return "".join(out)
    ret = fn_sites[rot % len(fn_sites)][1]
    params = ", ".join(f"{s}: {w}" for s, w in fn_sites)
    out.append(f"dfn = function{' +cpp' if rot % 4 >= 2 else ''} ({params}) -> {ret};\n")
    return "".join(out)


def single_site_dependant(d: dict, wn: str, pn: str) -> str | None:
    """the smallest dependant that has the usage site (declaration `d`, wrapper `wn`, position `pn`)"""
    w = dict(WRAPS)[wn].format(t=d["ref"])
    s = site(d["slot"], wn, pn)
    if pn in ("fp", "fe", "fo"):
        return "dr = record {\n    " + s + ": " + w + ";\n}" + {"fp": "", "fe": " deriving(eq)", "fo": " deriving(eq, ord)"}[pn] + "\n"
    if pn in dict(CPP_MEMBERS):
        return "di = interface +cpp {\n" + dict(CPP_MEMBERS)[pn].format(s=s, w=w) + "}\n"
    if pn in dict(JAVA_MEMBERS):
        return "dj = interface +java +objc +cppcli {\n" + dict(JAVA_MEMBERS)[pn].format(s=s, w=w) + "}\n"
    if pn == "np":
        return f"dfn = function ({s}: {w}) -> {w};\n"
    if pn in ("ip", "ia"):
        return f"di = interface +cpp {{\n    {s}(f: ({s}: {w}) -> {w});\n}}\n"
    if pn in ("ir", "ib"):
        return f"dj = interface +java +objc +cppcli {{\n    {s}() -> ({s}: {w}) -> {w};\n}}\n"
    return None


def minimised(c: dict, m: tuple) -> dict | None:
    """one exported declaration, one usage site — same names, configuration and export mode"""
    slot = next((x for x in EXPORTS if x.lower() == m[0]), None)
    if slot is None or "names" not in c or slot not in c.get("slots", ()):
        return None
    names = {k: tuple(v) for k, v in c["names"].items()}
    dep = single_site_dependant(decl_refs([slot], names)[0], m[1], m[2])
    if dep is None:
        return None
    return {**{k: c[k] for k in ("config", "config_name", "mode", "naming")}, "exp": exporter_text([slot], names), "dep": dep,
            "shape": "minimised", "slots": [slot]}


def narrowed(c: dict) -> list[dict]:
    """one exported declaration with its whole dependant — for differences that no line names a usage site for (includes, …)"""
    if "names" not in c or len(c.get("slots", ())) < 2:
        return []
    names = {k: tuple(v) for k, v in c["names"].items()}
    return [{**{k: c[k] for k in ("config", "config_name", "mode", "naming")}, "exp": exporter_text([slot], names),
             "dep": dependant(random.Random(0), decl_refs([slot], names), rot=c.get("rot", 0)), "shape": "narrowed", "slots": [slot]} for slot in c["slots"]]


CONFIGS = [
    ("default", {}),
    ("namespaces", {"cpp": {"namespace": "a::b"}, "java": {"package": "org.x.y"}, "jni": {"namespace": "a::jni"},
                    "objc": {"type_prefix": "PX"}, "objcpp": {"namespace": "a::objcpp"}, "cppcli": {"namespace": "A::B"}}),
    ("styles", {"cpp": {"identifier": {"type": "snake_case", "file": {"style": "PascalCase", "prefix": "T"}}},
                "java": {"identifier": {"type": {"style": "PascalCase", "prefix": "J"}}},
                "objc": {"identifier": {"type": {"style": "PascalCase", "prefix": "O"}}},
                "cppcli": {"identifier": {"type": {"style": "PascalCase", "prefix": "N"}}}}),
    # options that make the rendering of a reference depend on its optionality / on the primitive kind of the type
    ("nullability", {"cpp": {"not_null": {"header": "<gsl/pointers>", "type": "::gsl::not_null"}, "string_serialization": True},
                     "java": {"nullable_annotation": "@org.x.Nullable", "nonnull_annotation": "@org.x.NonNull", "interfaces": True},
                     "objc": {"strict_protocols": True}}),
]


# Naming configurations that carry the whole legal alphabet into every exported string: configured namespaces / packages / prefixes with
# underscores and digits, identifier styles that keep the IDL spelling (`none`) or its underscores (`snake_case`) for types, namespaces
# and packages, file names with `-` (`kebab-case`), `.` and digits (prefix, extension), include prefixes with `-`, `.`, `..`.
# (java.identifier.type and jni.identifier.class_name name the same Java class: they are configured alike.)
ALPHABETS = [
    ("alphabet-snake", {
        "cpp": {"namespace": "geo_lib::v2_1", "include_prefix": "inc-2/v1.0", "header_extension": "v2.hpp",
                "identifier": {"type": "snake_case", "file": {"style": "kebab-case", "prefix": "t2."}, "namespace": "none"}},
        "java": {"package": "org.x_y.z2_", "identifier": {"type": {"style": "snake_case", "prefix": "j_"}, "package": "none"}},
        "jni": {"namespace": "geo_lib::jni_2", "include_prefix": "jni-inc/1.0", "include_cpp_prefix": "inc-2/v1.0", "header_extension": "v2.hpp",
                "identifier": {"file": {"style": "kebab-case", "prefix": "jni-2."}, "class_name": {"style": "snake_case", "prefix": "j_"}, "namespace": "snake_case"}},
        "objc": {"type_prefix": "G2_", "header_extension": "v2.h", "identifier": {"type": "snake_case"}},
        "objcpp": {"namespace": "geo_lib::objc_2", "header_extension": "v2.h"},
        "cppcli": {"namespace": "Geo_Lib::V2_1", "include_cpp_prefix": "inc-2/v1.0",
                   "identifier": {"type": "snake_case", "file": {"style": "kebab-case", "prefix": "cli-2."}, "namespace": "none"}}}),
    ("alphabet-none", {
        "cpp": {"namespace": "Geo_Lib::V_2", "include_prefix": "../inc.d/2", "header_extension": "h",
                "identifier": {"type": "none", "file": "none", "namespace": "TRAIN_CASE"}},
        "java": {"package": "a_.b_2.c3", "identifier": {"type": "none", "package": "snake_case"}},
        "jni": {"namespace": "Geo_Lib::Jni_2", "header_extension": "h",
                "identifier": {"file": {"style": "none", "prefix": "jni_"}, "class_name": "none", "namespace": "none"}},
        "objc": {"type_prefix": "g_", "identifier": {"type": "none"}},
        "objcpp": {"namespace": "Geo_Lib::Objc_2"},
        "cppcli": {"namespace": "geo_lib::v_2", "identifier": {"type": "none", "file": "none", "namespace": "snake_case"}}}),
    ("alphabet-default-styles", {
        "cpp": {"namespace": "x_::y_1"}, "java": {"package": "com.acme_corp.maps_2"}, "jni": {"namespace": "x_::jni_1"},
        "objc": {"type_prefix": "A_1"}, "objcpp": {"namespace": "x_::objc_1"}, "cppcli": {"namespace": "X_::Y_1"}}),
]


def draw_names(r: random.Random, slots: list[str], naming: str, allow_same_name: bool, namespaces=None, p_ns: float = 0.3) -> dict:
    """slot -> (name, namespace | None); names are distinct up to case unless two declarations live in different namespaces
    of one `out_file` (per-type files are named after the bare name: that collision is property C15's)"""
    pools = {"slots": [], "yaml-words": YAML_WORDS, "keywordish": KEYWORDISH, "mixed": YAML_WORDS + KEYWORDISH, "lexical": LEXICAL}
    pool = list(pools[naming])
    r.shuffle(pool)
    out, taken = {}, set()
    for s in slots:
        ns = None
        if s == "xn" or r.random() < p_ns:
            ns = r.choice(namespaces or NAMESPACES)
        name = s
        if pool and (naming != "mixed" or r.random() < 0.7):
            cand = [n for n in pool if n.replace("_", "").lower() not in taken]
            if cand:
                name = cand[0]
                pool.remove(name)
        if allow_same_name and ns and out and r.random() < 0.3:
            other = r.choice(sorted(out))
            if out[other][1] != ns:
                name = out[other][0]
        taken.add(name.replace("_", "").lower())
        out[s] = (name, ns)
    return out


def exporter_text(slots: list[str], names: dict) -> str:
    out = []
    for s in slots:
        name, ns = names[s]
        decl = EXPORTS[s][0].format(n=name)
        out.append(f"namespace {ns} {{ {decl.rstrip()} }}\n" if ns else decl)
    return "".join(out)


def decl_refs(slots: list[str], names: dict) -> list[dict]:
    return [{"slot": s, "tag": EXPORTS[s][1], "ref": (names[s][1] + "." if names[s][1] else "") + names[s][0]} for s in slots]


# ---------------------------------------------------------------------------------------------------------
# the workspace of the dependent program: where the exported files stand, and what else stands around them
# ---------------------------------------------------------------------------------------------------------

# `@extern "<literal>"` is looked up as given (absolute / relative to the working directory), next to the IDL file, in the include
# directories in order (Lean `searchOrder` / `locate`). The form says where the *export* stands; every candidate behind it holds a
# decoy of the same relative name: an export of the same qualified names with other kinds under another naming configuration.
FORMS = ["file", "include-1", "cwd", "include-2", "absolute"]
SEARCH_DIRS = ["work", "app", "inc1", "inc2"]       # working directory, directory of the IDL file, include directories
HOME_OF_FORM = {"cwd": "work", "file": "app", "include-1": "inc1", "include-2": "inc2", "absolute": "real"}


def decoy_exporter(c: dict) -> str:
    """the same names in the same namespaces, every one declared as another kind of type"""
    names = {k: tuple(v) for k, v in c["names"].items()}
    out = []
    for s in c["exp_slots"]:
        k = (SAFE.index(s) if s in SAFE else 0)
        other = next(o for o in SAFE[k + 1:] + SAFE[:k + 1] if EXPORTS[o][1] != EXPORTS[s][1])
        name, ns = names[s]
        decl = EXPORTS[other][0].format(n=name)
        out.append(f"namespace {ns} {{ {decl.rstrip()} }}\n" if ns else decl)
    return "".join(out)


def workspace(layout: dict, true: dict, decoy: dict) -> dict:
    """files / directories of the dependent program's workspace (without the root IDL file), the literal of every exported file
    and what stands at each of its search candidates"""
    form = layout["form"]
    home = HOME_OF_FORM[form]
    files, dirs = {}, ["work", "inc1", "inc2"]
    behind = SEARCH_DIRS[SEARCH_DIRS.index(home) + 1:] if home in SEARCH_DIRS else list(SEARCH_DIRS)
    front = SEARCH_DIRS[:SEARCH_DIRS.index(home)] if home in SEARCH_DIRS else []
    slots = {}
    for n in sorted(true):
        files[f"{home}/ext/{n}"] = true[n]
        for b in behind:
            if n in decoy:
                files[f"{b}/ext/{n}"] = decoy[n]
        # in front of the export: nothing, or (last directory in front) a *directory* of that name, which the search skips
        as_dir = {front[-1]} if front and layout.get("dir_decoy") else set()
        dirs += [f"{b}/ext/{n}" for b in as_dir]
        if form == "absolute":
            slots[n] = [{"file": f"real/ext/{n}"}] * len(SEARCH_DIRS)       # an absolute right operand wins in every `dir / path`
        else:
            slots[n] = ["dir" if b in as_dir else {"file": f"{b}/ext/{n}"} if f"{b}/ext/{n}" in files else "absent" for b in SEARCH_DIRS]
    literal = (lambda n: "{SRC}/real/ext/" + n) if form == "absolute" else (lambda n: "ext/" + n)
    incs = ["../inc1", "../inc2"] if layout.get("relative_include_dirs") else ["{SRC}/inc1", "{SRC}/inc2"]
    return {"files": files, "dirs": dirs, "literal": literal, "slots": slots, "home": home,
            "job": {"cwd": "work", "root": "../app/main.djinni", "generate": {"include_dirs": incs}, "subst": True}}


def gen_case(r: random.Random, i: int) -> dict:
    k = r.choice([1, 2, 3, 4])
    # every slot is due once per len(SAFE) cases, the others are drawn
    slots = [SAFE[i % len(SAFE)]] + r.sample([s for s in SAFE if s != SAFE[i % len(SAFE)]], k=k - 1)
    slots.sort(key=SAFE.index)
    # configuration x naming x export mode: every pair within 16 consecutive cases
    cfg_name, cfg = CONFIGS[i % len(CONFIGS)]
    naming = NAMINGS[(i + i // 4) % len(NAMINGS)]
    mode = "out_file" if (i + i // 8) % 2 else "per_type"
    names = draw_names(r, slots + ["xerr"], naming, allow_same_name=(mode == "out_file"))
    exp = exporter_text(slots, names)
    exp_slots = list(slots)
    if r.random() < 0.3:
        exp += exporter_text(["xerr"], names)      # exported, but no dependant throws it
        exp_slots.append("xerr")
    c = {"exp": exp, "dep": dependant(r, decl_refs(slots, names), rot=i), "config": cfg, "config_name": cfg_name, "mode": mode,
         "shape": "closed", "naming": naming, "slots": slots, "exp_slots": exp_slots, "rot": i, "names": {k: list(v) for k, v in names.items()}}
    # every other case: the dependent program lives in a workspace of several directories with decoy exports (form x export mode
    # x directory decoy x spelling of the include directories rotate)
    if i % 2 == 1:
        j = i // 2
        dcfg_name, dcfg = CONFIGS[(i + 1 + j % (len(CONFIGS) - 1)) % len(CONFIGS)]
        c["layout"] = {"form": FORMS[(j + j // len(FORMS)) % len(FORMS)], "decoy": decoy_exporter(c), "decoy_config": dcfg, "decoy_config_name": dcfg_name,
                       "dir_decoy": (j // 2) % 2 == 1, "relative_include_dirs": (j // 3) % 2 == 1}
    return c


def gen_alphabet_case(r: random.Random, i: int) -> dict:
    """a closed round trip under a naming configuration of `ALPHABETS` with names / namespaces of the lexical family"""
    k = r.choice([2, 3])
    slots = [SAFE[i % len(SAFE)]] + r.sample([s for s in SAFE if s != SAFE[i % len(SAFE)]], k=k - 1)
    slots.sort(key=SAFE.index)
    cfg_name, cfg = ALPHABETS[i % len(ALPHABETS)]
    mode = "out_file" if (i + i // len(ALPHABETS)) % 2 else "per_type"
    names = draw_names(r, slots + ["xerr"], "lexical", allow_same_name=(mode == "out_file"), namespaces=LEX_NAMESPACES, p_ns=0.6)
    exp = exporter_text(slots, names)
    exp_slots = list(slots)
    if r.random() < 0.3:
        exp += exporter_text(["xerr"], names)
        exp_slots.append("xerr")
    return {"exp": exp, "dep": dependant(r, decl_refs(slots, names), rot=i), "config": cfg, "config_name": cfg_name, "mode": mode,
            "shape": "closed", "naming": "lexical", "slots": slots, "exp_slots": exp_slots, "rot": i, "names": {k: list(v) for k, v in names.items()}}


# ---------------------------------------------------------------------------------------------------------
# exporting programs spread over several IDL files: import chains, trees, diamonds
# ---------------------------------------------------------------------------------------------------------

# The *exporting* program is a root file and the files it imports, directly or through other files. Every file declares named types;
# "every named type of an accepted program" = the declarations of every file reachable from the root by `@import` (Lean `programInOrder`
# / `progDecls`, op `c13.declared`), whatever the depth at which a file is first reached. A layout is the import graph:
# file number -> the files it imports, in textual order (file 0 is the root); `dirs`: the files stand in nested directories and the
# literals are relative to the importing file.
EXP_LAYOUTS = [
    ("chain-3", {0: [1], 1: [2]}, False),
    ("diamond", {0: [1, 2], 1: [3], 2: [3]}, False),
    ("tree", {0: [1, 2], 1: [3, 4], 2: [5]}, False),
    ("chain-4-dirs", {0: [1], 1: [2], 2: [3]}, True),
    ("shared-deep-first", {0: [1, 2], 1: [2]}, False),      # the root's own `@import` of file 2 finds it already imported (two imports deep)
    ("shared-direct-first", {0: [2, 1], 1: [2]}, False),
    ("fan", {0: [1, 2, 3]}, False),
    ("chain-4", {0: [1], 1: [2], 2: [3]}, False),
    ("diamond-deep", {0: [1, 2], 1: [3], 2: [3], 3: [4]}, True),
    ("chain-2", {0: [1]}, False),
]


def exp_file_names(graph: dict, dirs: bool) -> dict:
    """file number -> path of the file relative to the root file's directory"""
    n = 1 + max([0] + [x for v in graph.values() for x in v])
    if not dirs:
        return {k: "exp.djinni" if k == 0 else f"lib{k}.djinni" for k in range(n)}
    # a file stands one directory below the file that imports it first (depth-first, textual order)
    out = {0: "exp.djinni"}

    def walk(k):
        for x in graph.get(k, ()):
            if x not in out:
                out[x] = str(Path(out[k]).parent / f"d{x}" / f"lib{x}.djinni")
                walk(x)
    walk(0)
    return out


def import_depths(graph: dict) -> dict:
    """file number -> number of imports between the root and the file on the path the parser takes first (depth-first, textual order)"""
    out = {0: 0}

    def walk(k):
        for x in graph.get(k, ()):
            if x not in out:
                out[x] = out[k] + 1
                walk(x)
    walk(0)
    return out


def gen_multi_exporter_case(r: random.Random, i: int) -> dict:
    """a closed round trip whose *exporting* program is spread over a root file and the files it imports (chains, trees, diamonds);
    every file declares exported types, a file refers to types of the files it imports, the dependant uses the types of every file"""
    import os
    lname, graph, dirs = EXP_LAYOUTS[i % len(EXP_LAYOUTS)]
    paths = exp_file_names(graph, dirs)
    nfiles = len(paths)
    j = i // len(EXP_LAYOUTS)
    first = SAFE[(i + j) % len(SAFE)]
    slots = [first] + r.sample([s for s in SAFE if s != first], k=nfiles - 1 + r.choice([0, 1]))
    pool = CONFIGS + ALPHABETS
    cfg_name, cfg = pool[(i + j) % len(pool)]
    mode = "out_file" if (i + j // 2) % 2 else "per_type"
    # (names of the slot / lexical families are accepted as type names under every configuration of the pool, and so are these namespaces)
    naming = "lexical" if cfg_name.startswith("alphabet") or (i // 2) % 2 == 1 else "slots"
    names = draw_names(r, slots, naming, allow_same_name=(mode == "out_file"), namespaces=LEX_NAMESPACES if naming == "lexical" else SEQ_NAMESPACES, p_ns=0.5)
    # one slot per file, the others anywhere
    of_file = {k: [slots[k]] for k in range(nfiles)}
    for s in slots[nfiles:]:
        of_file[r.randrange(nfiles)].append(s)
    refs = {d["slot"]: d for d in decl_refs(slots, names)}
    files, declared, flat = {}, {}, []
    depth = import_depths(graph)
    for k in range(nfiles):
        here = Path(paths[k]).parent
        head = "".join(f'@import "{os.path.relpath(paths[x], here)}"\n' for x in graph.get(k, ()))
        body = exporter_text(of_file[k], names)
        for s in of_file[k]:
            declared[refs[s]["ref"]] = {"file": paths[k], "import_depth": depth[k]}
        # a record over the types of the imported files: the exported program is connected, not only its import graph
        if graph.get(k):
            fields = "".join(f"    l{x}: list<{refs[of_file[x][0]]['ref']}>;\n" for x in graph[k])
            body += f"lk{k} = record {{\n{fields}}}\n"
            declared[f"lk{k}"] = {"file": paths[k], "import_depth": depth[k]}
        files[paths[k]] = head + body
        flat.append((k, body))
    # the same declarations in one file, in the order in which the files are finished (imported files first)
    finished = []

    def finish(k):
        for x in graph.get(k, ()):
            if x not in finished:
                finish(x)
        if k not in finished:
            finished.append(k)
    finish(0)
    flat = [dict(flat)[k] for k in finished]
    order = sorted(slots, key=SAFE.index)
    return {"exp": "".join(flat), "dep": dependant(r, [refs[s] for s in order], rot=i, light=nfiles > 4), "config": cfg, "config_name": cfg_name, "mode": mode,
            "shape": "multi-file-exporter", "naming": naming, "slots": order, "exp_slots": order, "rot": i, "names": {k: list(v) for k, v in names.items()},
            "exp_files": files, "exp_layout": lname, "declared": declared}


# ---------------------------------------------------------------------------------------------------------
# dependants spread over several IDL files: `@extern` and `@import` directives interleaved
# ---------------------------------------------------------------------------------------------------------

# The directives at the head of a file are processed in source order; an imported file is parsed (and its references are resolved)
# at its `@import`, against what was registered before: built-in types, earlier `@import`s, earlier `@extern`s — of the importing
# file and of the files above it. A layout says which directives the root file has in which order, which file holds the `@extern`s and
# which files use the external types. `E` = the `@extern` directives (`E1` / `E2`: the first / the other exported files when there are
# several), `I(x)` = `@import` of a file with content `x`: `u` uses the external types, `p` is plain (uses none), `E u` has the
# `@extern`s itself, `I(u)` imports a file that uses them. `ok`: does the order allow every file to see what it uses?
SPLIT_LAYOUTS = [
    ("E,I(u)", True), ("I(p),E", True), ("I(E u)", True), ("E1,I(u1),E2,I(u)", True), ("E,I(I(u))", True), ("I(p),E,I(u)", True), ("E,I(u),I(u)", True),
    ("I(u),E", False), ("E1,I(u),E2", False),
]


def _blocks(text: str, suffix: str) -> list[tuple[str, str]]:
    """the declarations of a dependant text, each renamed `<name><suffix>`: [(name, text)]"""
    out = []
    for b in re.split(r"(?m)^(?=\w+ = )", text):
        if b.strip():
            name = b.split(" = ", 1)[0]
            out.append((name + suffix, name + suffix + b[len(name):]))
    return out


def gen_split_case(r: random.Random, i: int) -> dict:
    """a closed round trip whose dependant is spread over a root file and one to three imported files"""
    layout, ok = SPLIT_LAYOUTS[i % len(SPLIT_LAYOUTS)]
    two = "E1" in layout
    mode = "per_type" if two or (i // len(SPLIT_LAYOUTS)) % 2 == 0 else "out_file"
    k = 2 if two else r.choice([1, 2])
    slots = [SAFE[(i + i // len(SPLIT_LAYOUTS)) % len(SAFE)]] + r.sample([x for x in SAFE if x != SAFE[(i + i // len(SPLIT_LAYOUTS)) % len(SAFE)]], k=k - 1)
    slots.sort(key=SAFE.index)
    cfg_name, cfg = CONFIGS[(i + i // 3) % len(CONFIGS)]
    # (names of the slot / lexical families are accepted as type names under every configuration of the pool, and so are these namespaces)
    lexical = (i // 2) % 2 == 1
    names = draw_names(r, slots, "lexical" if lexical else "slots", allow_same_name=False, namespaces=LEX_NAMESPACES if lexical else SEQ_NAMESPACES, p_ns=0.4)
    decls = decl_refs(slots, names)
    # the exported files by the names the yaml target gives them, and the IDL file of the all-local build that stands for each
    if mode == "out_file":
        yaml_names, loc = ["all.yaml"], {"all.yaml": exporter_text(slots, names)}
        of_file = {"all.yaml": decls}
    else:
        yaml_names = sorted(names[x][0] + ".yaml" for x in slots)
        loc = {names[x][0] + ".yaml": exporter_text([x], names) for x in slots}
        of_file = {names[d["slot"]][0] + ".yaml": [d] for d in decls}
    first, others = yaml_names[:1], yaml_names[1:]
    uses = lambda ds, sfx: _blocks(dependant(r, ds, rot=i, light=True), sfx)
    plain = lambda n: [(f"lp{n}", f"lp{n} = record {{ a: i32; b: list<string>; }}\n")]
    all_u, first_u = uses(decls, "a"), uses([d for n in first for d in of_file[n]], "f")
    root_u = uses(decls, "r")

    def ref(blocks):       # a record of the root file that refers to a record declared in an imported file
        rec = next((n for n, _ in blocks if n.startswith(("dr", "lp"))), None)
        return [("dx_" + rec, f"dx_{rec} = record {{ f: {rec}; g: list<{rec}>; }}\n")] if rec else []
    E = lambda ns: [("extern", n) for n in ns]
    I = lambda f: [("import", f)]
    files = {}      # file -> (directives, blocks)
    if layout == "E,I(u)":
        files = {"part1.djinni": ([], all_u[:2]), "main.djinni": (E(yaml_names) + I("part1.djinni"), root_u[2:] + ref(all_u[:2]))}
    elif layout == "I(p),E":
        files = {"part1.djinni": ([], plain(1)), "main.djinni": (I("part1.djinni") + E(yaml_names), root_u + ref(plain(1)))}
    elif layout == "I(E u)":
        files = {"part1.djinni": (E(yaml_names), all_u[:1]), "main.djinni": (I("part1.djinni"), root_u[1:] + ref(all_u[:1]))}
    elif layout == "E1,I(u1),E2,I(u)":
        files = {"part1.djinni": ([], first_u[:2]), "part2.djinni": ([], all_u[:2] + ref(first_u[:2])),
                 "main.djinni": (E(first) + I("part1.djinni") + E(others) + I("part2.djinni"), root_u[2:])}
    elif layout == "E,I(I(u))":
        files = {"part2.djinni": ([], all_u[:2]), "part1.djinni": (I("part2.djinni"), plain(1) + ref(all_u[:2])),
                 "main.djinni": (E(yaml_names) + I("part1.djinni"), root_u[2:] + ref(plain(1)))}
    elif layout == "I(p),E,I(u)":
        files = {"part1.djinni": ([], plain(1)), "part2.djinni": ([], all_u[:2] + ref(plain(1))),
                 "main.djinni": (I("part1.djinni") + E(yaml_names) + I("part2.djinni"), root_u[2:])}
    elif layout == "E,I(u),I(u)":
        files = {"part1.djinni": ([], all_u[:1]), "part2.djinni": ([], first_u[1:] + ref(all_u[:1])),
                 "main.djinni": (E(yaml_names) + I("part1.djinni") + I("part2.djinni"), root_u[2:])}
    elif layout == "I(u),E":
        files = {"part1.djinni": ([], all_u[:1]), "main.djinni": (I("part1.djinni") + E(yaml_names), root_u[1:])}
    elif layout == "E1,I(u),E2":
        files = {"part1.djinni": ([], all_u[:2]), "main.djinni": (E(first) + I("part1.djinni") + E(others), root_u[2:])}
    else:
        raise ValueError(layout)
    return {"exp": exporter_text(slots, names), "dep": "".join(t for _, (_, bs) in sorted(files.items()) for _, t in bs), "config": cfg, "config_name": cfg_name, "mode": mode,
            "shape": "split", "naming": "split", "slots": slots, "exp_slots": list(slots), "rot": i, "names": {x: list(v) for x, v in names.items()},
            "yaml_names": yaml_names,
            "split": {"layout": layout, "order_ok": ok, "local_idl": loc,
                      "files": {f: {"directives": [list(d) for d in ds], "text": "".join(t for _, t in bs)} for f, (ds, bs) in files.items()}}}


def split_files(split: dict, extern: bool) -> dict:
    """the IDL files of a split dependant: with the `@extern` directives, or — the all-local reference — with an `@import` of an IDL file
    that declares the same types at the place of every `@extern`"""
    out = {}
    for f, d in split["files"].items():
        head = ""
        for kind, arg in d["directives"]:
            if kind == "import":
                head += f'@import "{arg}"\n'
            elif extern:
                head += f'@extern "ext/{arg}"\n'
            else:
                head += f'@import "loc/{arg[:-5]}.djinni"\n'
        out[f] = head + d["text"]
    if not extern:
        for n, text in split["local_idl"].items():
            out[f"loc/{n[:-5]}.djinni"] = text
    return out


# ---------------------------------------------------------------------------------------------------------
# re-export histories: one process, one directory tree, several rounds of export -> @extern -> generate on the SAME paths
# ---------------------------------------------------------------------------------------------------------

# what changes from one round to the next. Every round is a complete round trip of its own: the dependant built against the files the
# round's export wrote has to equal the all-local build of *that* round, whatever the same paths held before.
EDITS = ["config", "kinds", "declarations", "namespaces", "config+kinds", "same"]
# (namespaces that no target language reserves under any identifier style of the configuration pool)
SEQ_NAMESPACES = ["ns", "on", "off", "yes.no.on", "lib.core", "n", "on.off"]


def gen_sequence(r: random.Random, i: int) -> dict:
    """2-3 rounds over one library: round k+1 re-exports under another naming configuration (`config`), with every name declared as
    another kind of type (`kinds`), with a declaration added and one dropped (`declarations`), with the declarations moved to other
    namespaces (`namespaces`), or unchanged (`same`). Export mode, spelling of the @extern literals (absolute / relative to the
    working directory) and one `API` object for all steps / a new one per step rotate with the sequence number."""
    mode = "out_file" if (i + i // len(EDITS)) % 2 else "per_type"        # (every edit meets both export modes within 2 x len(EDITS) sequences)
    pool = CONFIGS + ALPHABETS
    lexical = (i // 3) % 2 == 1
    slots = [SAFE[i % len(SAFE)], SAFE[(5 * i + 3) % len(SAFE)]]
    slots = sorted(set(slots), key=SAFE.index)
    # (names of the slot / lexical families are accepted as type names under every configuration of the pool)
    names = draw_names(r, slots, "lexical" if lexical else "slots", allow_same_name=False, namespaces=LEX_NAMESPACES if lexical else SEQ_NAMESPACES, p_ns=0.5)
    ci = i % len(pool)
    hist = {"seq": i, "form": "absolute" if (i // 2) % 2 == 0 else "relative", "share_api": (i // 4) % 2 == 1}
    rounds = []
    for k in range(3 if i % 4 == 0 else 2):
        edit = "first"
        if k > 0:
            edit = EDITS[(i + k - 1) % len(EDITS)]
            if "config" in edit:
                ci = (ci + 1 + r.randrange(len(pool) - 1)) % len(pool)
            if "kinds" in edit:
                new_slots, new_names = [], {}
                for s_ in slots:
                    j = SAFE.index(s_)
                    o = next(o for o in SAFE[j + 1:] + SAFE[:j + 1] if EXPORTS[o][1] != EXPORTS[s_][1] and o not in new_slots)
                    new_slots.append(o)
                    new_names[o] = names[s_]
                slots, names = sorted(new_slots, key=SAFE.index), new_names
            if edit == "declarations":
                added = next(o for o in SAFE[(i + k) % len(SAFE):] + SAFE if o not in slots)
                if len(slots) > 1:
                    names.pop(slots[0])
                    slots = slots[1:]
                names[added] = (f"added_{k}", r.choice([None, "ns", "geo_data"]))
                slots = sorted(slots + [added], key=SAFE.index)
            if edit == "namespaces":
                nss = LEX_NAMESPACES if lexical else SEQ_NAMESPACES
                names = {s_: (n, r.choice([x for x in nss + [None] if x != ns])) for s_, (n, ns) in names.items()}
        cfg_name, cfg = pool[ci]
        rounds.append({"exp": exporter_text(slots, names), "dep": dependant(r, decl_refs(slots, names), rot=i + k, light=True), "config": cfg, "config_name": cfg_name,
                       "mode": mode, "shape": "history", "naming": "lexical" if lexical else "slots", "slots": list(slots), "exp_slots": list(slots), "rot": i + k,
                       "names": {s_: list(v) for s_, v in names.items()},
                       "yaml_names": ["all.yaml"] if mode == "out_file" else sorted({names[s_][0] + ".yaml" for s_ in slots}),
                       "history": {**hist, "round": k, "edit": edit}})
    for k, c in enumerate(rounds):
        c["history"]["rounds"] = [{"exporter": x["exp"], "dependant": x["dep"], "config": x["config"], "yaml_names": x["yaml_names"], "edit": x["history"]["edit"]} for x in rounds[:k + 1]]
    return {"rounds": rounds}


def sequence_job(seq: dict, node_attrs) -> dict:
    """the steps of a history (per round: export of the library, the dependant with @extern, the loader alone, the all-local build) as
    one job of one worker process on one directory tree: lib/ -> out_lib/yaml, app/ -> out_app, loc/ -> out_loc"""
    steps = []
    for c in seq["rounds"]:
        h, cfg = c["history"], c["config"]
        yopt = {"yaml": {"out_file": "all.yaml"}} if c["mode"] == "out_file" else {}
        share = {"share_api": True} if h["share_api"] else {}
        prefix = "{JOB}/out_lib/yaml/" if h["form"] == "absolute" else "../../out_lib/yaml/"
        heads = "".join(f'@extern "{prefix}{n}"\n' for n in c["yaml_names"])
        steps += [
            {"files": {"lib/exp.djinni": c["exp"]}, "cwd": "lib", "root": "exp.djinni", "targets": ["yaml"], "config": genrun.deep_merge(cfg, yopt), "out_dir": "out_lib",
             "hook": "props.c13:hook_export", "node_attrs": node_attrs, **share},
            {"files": {"app/main.djinni": heads + c["dep"]}, "subst": True, "cwd": "app", "root": "main.djinni", "targets": TARGETS, "config": cfg, "out_dir": "out_app", **share},
            {"files": {"app/heads.djinni": heads}, "subst": True, "cwd": "app", "root": "heads.djinni", "targets": [], "config": cfg, "out_dir": "out_heads",
             "hook": "props.c13:hook_loader", "yaml_paths": ["{JOB}/out_lib/yaml/" + n for n in c["yaml_names"]], **share},
            {"files": {"loc/main.djinni": c["exp"] + c["dep"]}, "cwd": "loc", "root": "main.djinni", "targets": TARGETS, "config": cfg, "out_dir": "out_loc", **share},
        ]
    return {"steps": steps}


def sequence_of_rounds(rounds: list[dict], mode: str, hist: dict) -> dict:
    """a history given by the (exporter, dependant, config) of its rounds — replays and the re-run of one round alone"""
    out = []
    for k, x in enumerate(rounds):
        out.append({"exp": x["exporter"], "dep": x["dependant"], "config": x["config"], "config_name": "replay", "mode": mode, "shape": "history",
                    "yaml_names": x["yaml_names"], "history": {**hist, "round": k, "edit": x.get("edit", "?")}})
    for k, c in enumerate(out):
        c["history"]["rounds"] = rounds[:k + 1]
    return {"rounds": out}


# ---------------------------------------------------------------------------------------------------------
# real-code adapters (run inside the genrun workers through `job["hook"]`)
# ---------------------------------------------------------------------------------------------------------

def decl_tables(ctx_obj, node_attrs):
    """for every non-anonymous declaration of the parsed program: base fields, AST attributes that dependants read, and
    every property of every attached marshalling object (name, value, is it a computed field)"""
    from pydantic import BaseModel
    from functools import cached_property
    from pydjinni.parser.base_models import BaseExternalType
    out = []
    for d in ctx_obj.defs:
        if getattr(d, "anonymous", False):
            continue
        base = BaseExternalType.model_validate({k: getattr(d, k) for k in BaseExternalType.model_fields if k != "position"}).model_dump(mode="json")
        base.pop("position", None)
        node = []
        for a in node_attrs:
            if a in base:
                continue
            try:
                v = getattr(d, a)
            except AttributeError:
                continue
            if isinstance(v, list):
                v = [str(getattr(x, "name", x)) for x in v]
            node.append([a, jval(v)])
        marsh = []
        for key, val in (d.model_extra or {}).items():
            if not isinstance(val, BaseModel):
                continue
            props = []
            seen = set()
            comp = set(type(val).model_computed_fields.keys())
            for klass in type(val).__mro__:
                if klass in (BaseModel, object):
                    continue
                for name, member in vars(klass).items():
                    if name.startswith("_") or name in seen:
                        continue
                    if isinstance(member, (property, cached_property)) or name in comp:
                        seen.add(name)
                        try:
                            v = getattr(val, name)
                        except Exception:  # noqa: a property that raises is an attribute a dependant cannot read
                            continue
                        props.append({"n": name, "v": jval(v), "c": name in comp})
            marsh.append([key, sorted(props, key=lambda p: p["n"])])
        out.append({"name": str(d.name), "kind": type(d).__name__, "primitive": str(d.primitive.value),
                    "base": [[k, jval(base[k])] for k in ("name", "namespace", "primitive", "params", "comment", "deprecated")],
                    "node": node, "marsh": sorted(marsh)})
    return out


def loaded_tables(yaml_paths):
    """what the real `Resolver.load_external` registers for the given YAML files"""
    from pydantic import BaseModel
    from pydjinni import API
    from pydjinni.parser.resolver import Resolver
    api = API()
    model = api.external_type_model
    res = Resolver(model)
    out = {}
    texts = {}
    for p in yaml_paths:
        texts[str(p)] = Path(p).read_text()
        res.load_external(Path(p))
    gen_keys = [k for k in model.model_fields if k not in ("name", "namespace", "primitive", "params", "comment", "deprecated", "position")]
    for key, t in res.registry.items():
        base = [[k, jval(getattr(t, k))] for k in ("name", "namespace", "primitive", "params", "comment", "deprecated")]
        gens = []
        for g in gen_keys:
            v = getattr(t, g)
            gens.append([g, None if v is None else [[k, jval(x)] for k, x in v.model_dump(mode="json").items()]])
        # the position the loader computed: line/columns when it found the `name:` line, otherwise only the file
        pos = getattr(t, "position", None)
        located = bool(pos is not None and pos.start is not None)
        points_at = None
        if located:
            lines = texts.get(str(pos.file), "").split("\n")
            line = lines[pos.start.line - 1] if 0 < pos.start.line <= len(lines) else ""
            points_at = line[pos.start.col:pos.end.col] if pos.end is not None and pos.end.line == pos.start.line else None
        out[key] = {"base": base, "gens": gens, "located": located, "points_at": points_at,
                    "file": None if pos is None or pos.file is None else Path(pos.file).name}
    return out


def hook_export(job, ctx_obj, jobdir):
    return {"decls": decl_tables(ctx_obj, job["node_attrs"])}


def hook_loader(job, ctx_obj, jobdir):
    """the loader alone (a root file that only pulls the YAML files in): what is registered does not depend on whether a
    dependant can be built"""
    src = Path(jobdir) / "src"
    if job.get("yaml_paths"):
        return {"loaded": loaded_tables([p.replace("{JOB}", str(jobdir)) for p in job["yaml_paths"]])}
    if job.get("workspace"):
        # the files the real parser located for the `@extern` directives, in the order of the directives
        import os
        located = [os.path.normpath(os.path.abspath(str(p))) for p in ctx_obj._file_reader_writer.processed_files.parsed.external_types]
        return {"loaded": loaded_tables(located), "located": [os.path.relpath(p, str(src)) for p in located]}
    return {"loaded": loaded_tables(sorted(str(p) for p in (src / "ext").glob("*.yaml")))}


# ---------------------------------------------------------------------------------------------------------
# K: the round trip
# ---------------------------------------------------------------------------------------------------------

def canon_files(files: dict) -> dict:
    return {p: hashlib.sha256(t.encode()).hexdigest() for p, t in files.items()}


def doc_canon(doc: dict, gen_keys):
    base = sorted([k, jval(v)] for k, v in doc.items() if k not in gen_keys)
    gens = sorted([g, sorted([k, jval(v)] for k, v in doc[g].items())] for g in gen_keys if g in doc and isinstance(doc[g], dict))
    return {"base": base, "gens": gens}


def model_doc_canon(m):
    return {"base": sorted(m["base"]), "gens": sorted([g, sorted(kv)] for g, kv in m["gens"])}


WRAP_NAMES = {"pl": "plain", "op": "optional", "li": "list", "se": "set", "mv": "map-value", "mk": "map-key", "lo": "list-of-optional",
              "ol": "optional-list", "ll": "list-of-list", "ml": "optional-map-of-list-of-optional"}
SITE_RE = re.compile("u(" + "|".join(sorted((x.lower() for x in EXPORTS), key=len, reverse=True)) + ")(" + "|".join(WRAP_NAMES) + ")([a-z]{2})")


SITES_SEEN: set = set()
ALPHABET_SEEN: dict = {}


def possible_sites() -> set:
    out = set()
    for kind in ("enum", "flags", "record", "interface", "function"):
        for wn, _ in WRAPS:
            for pn in ["fp", "fe", "fo"] + [x for x, _ in CPP_MEMBERS + JAVA_MEMBERS] + ["np"]:
                if pn in ("fp", "fe", "fo") and not legal_field(kind, wn):
                    continue
                if pn == "fo" and wn not in ("pl", "op"):
                    continue
                out.add((kind, wn, pn))
    return out


def differing_sites(local_text: str, extern_text: str) -> list[tuple]:
    """usage sites (slot, wrapper, position) named on lines of the @extern build that the all-local build does not have"""
    have = set(local_text.split("\n"))
    out = []
    for line in extern_text.split("\n"):
        if line not in have:
            for m in SITE_RE.finditer(line.replace("_", "").lower()):
                if m.groups() not in out:
                    out.append(m.groups())
    return out


def shape_of(case, sites=()) -> str:
    dep = case["dep"]
    if re.search(r"\bthrows\s+\w", dep):
        return "extern-error-domain-thrown"
    if re.search(r"\bxb[col]\b", dep):
        return "extern-base-record"
    if sites:
        slot, wrap, _ = sites[0]
        return KIND_OF_TAG[EXPORTS[slot][1]] + ":" + WRAP_NAMES[wrap]
    return "other"


def round_trips(ctx, cases, used, spec, minimise=True, sequences=(), alone=False):
    import yaml
    from pydjinni import API
    ext_model = API().external_type_model
    gen_keys = [g for g, _ in spec] + ["yaml"]
    node_attrs = sorted({u["attr"] for u in used if u["gen"] == ""})
    used_req = [[u["gen"], u["attr"], u["ctx"]] for u in used]
    breaks = []
    pending = []        # differing round trips: reported after the attempt to reproduce each shape with one declaration and one site
    deferred = []       # failures of a later round of a re-export history: classified once the round has been run on its own

    def rep(c, key, what, body):
        if c.get("history") and c["history"]["round"] > 0:
            deferred.append((c, key, what, body))
        else:
            c.setdefault("_reported", set()).add(key)
            ctx.report(key, what, body)
    # round 1: all-local build, and the export (+ the decoy export of a workspace case)
    jobs = []
    for c in cases:
        cfg = c["config"]
        lay = c.get("layout")
        c["_jobs"] = [len(jobs), len(jobs) + 1, len(jobs) + 2 if lay else None]
        if lay:
            # the all-local reference is built where the dependent program will be built: same root spelling, same working directory
            jobs.append({"files": {"app/main.djinni": c["exp"] + c["dep"]}, "root": "../app/main.djinni", "cwd": "work", "targets": TARGETS, "config": cfg})
        elif c.get("split"):
            # the same files, an `@import` of an IDL file with the same declarations at the place of every `@extern`
            jobs.append({"files": split_files(c["split"], extern=False), "root": "main.djinni", "targets": TARGETS, "config": cfg})
        else:
            jobs.append({"files": {"main.djinni": c["exp"] + c["dep"]}, "root": "main.djinni", "targets": TARGETS, "config": cfg})
        yopt = {"yaml": {"out_file": "all.yaml"}} if c["mode"] == "out_file" else {}
        # (an exporting program of several files: the root file `exp.djinni` and what it imports)
        jobs.append({"files": c.get("exp_files") or {"exp.djinni": c["exp"]}, "root": "exp.djinni", "targets": ["yaml"], "config": genrun.deep_merge(cfg, yopt),
                     "hook": "props.c13:hook_export", "node_attrs": node_attrs})
        if lay:
            jobs.append({"files": {"exp.djinni": lay["decoy"]}, "root": "exp.djinni", "targets": ["yaml"], "config": genrun.deep_merge(lay["decoy_config"], yopt)})
    seq_at = len(jobs)
    jobs += [sequence_job(q, node_attrs) for q in sequences]
    # (a history run on its own gets a process of its own)
    res1 = genrun.run_many(ctx.tmp / ("r1a" if alone else "r1"), jobs, timeout=90, fresh_process=alone)
    # round 2: the dependant with @extern
    jobs2, idx2 = [], []
    for k, c in enumerate(cases):
        loc, exp = res1[c["_jobs"][0]], res1[c["_jobs"][1]]
        c["local"], c["export"] = loc, exp
        if not loc["ok"] and not (c.get("split") and loc["stage"] == "parse"):
            ctx.stat("local_build_fails_" + loc["stage"])
            continue
        if not exp["ok"]:
            raise common.Infra(f"the exporter part of a closed-world program is not generated: {exp}\n{c['exp']}")
        yamls = {p[5:]: t for p, t in exp["files"].items() if p.startswith("yaml/")}
        c["yamls"] = yamls
        ws = None
        if c.get("layout"):
            dec = res1[c["_jobs"][2]]
            decoys = {p[5:]: t for p, t in dec["files"].items() if p.startswith("yaml/")} if dec["ok"] else {}
            if not dec["ok"] or set(decoys) != set(yamls):
                ctx.stat("workspace_with_incomplete_decoy")
            ws = workspace(c["layout"], yamls, decoys)
        c["ws"] = ws
        if c.get("split"):
            if sorted(yamls) != sorted(c["yaml_names"]):
                ctx.stat("split_export_names_not_as_predicted")      # (the files of the dependant name the exported files beforehand)
                continue
            files = split_files(c["split"], extern=True)
            for n, t in yamls.items():
                files["ext/" + n] = t
            jobs2.append({"files": files, "root": "main.djinni", "targets": TARGETS, "config": c["config"]})
            lfiles = {"main.djinni": "".join(f'@extern "ext/{n}"\n' for n in sorted(yamls)), **{"ext/" + n: t for n, t in yamls.items()}}
            jobs2.append({"files": lfiles, "root": "main.djinni", "targets": [], "config": c["config"], "hook": "props.c13:hook_loader"})
        elif ws:
            heads = "".join(f'@extern "{ws["literal"](n)}"\n' for n in sorted(yamls))
            files = {**ws["files"], "app/main.djinni": heads + c["dep"]}
            extra = {**ws["job"], "dirs": ws["dirs"]}
            jobs2.append({"files": files, "targets": TARGETS, "config": c["config"], **extra})
            jobs2.append({"files": {**ws["files"], "app/main.djinni": heads}, "targets": [], "config": c["config"], **extra,
                          "hook": "props.c13:hook_loader", "workspace": True})
        else:
            files = {"main.djinni": "".join(f'@extern "ext/{n}"\n' for n in sorted(yamls)) + c["dep"]}
            for n, t in yamls.items():
                files["ext/" + n] = t
            jobs2.append({"files": files, "root": "main.djinni", "targets": TARGETS, "config": c["config"]})
            lfiles = dict(files)
            lfiles["main.djinni"] = "".join(f'@extern "ext/{n}"\n' for n in sorted(yamls))
            jobs2.append({"files": lfiles, "root": "main.djinni", "targets": [], "config": c["config"], "hook": "props.c13:hook_loader"})
        idx2.append(k)
    res2 = genrun.run_many(ctx.tmp / "r2", jobs2, timeout=90)
    reqs, metas = [], []
    triples = [(cases[k], res2[2 * j], res2[2 * j + 1]) for j, k in enumerate(idx2)]
    # the rounds of the histories: every round is a round trip of its own (export, dependant, loader, all-local build of that round)
    for q, res in zip(sequences, res1[seq_at:]):
        steps = res.get("steps") or [res] * (4 * len(q["rounds"]))
        for k, c in enumerate(q["rounds"]):
            exp, r2, rl, loc = steps[4 * k: 4 * k + 4]
            c["local"], c["export"], c["ws"] = loc, exp, None
            if not loc["ok"] or not exp["ok"]:
                if exp["ok"] or exp.get("stage") in ("hang", "not-run"):
                    ctx.stat("local_build_fails_" + loc["stage"])
                    break
                raise common.Infra(f"the exporter part of a closed-world program is not generated: {exp}\n{c['exp']}")
            c["yamls"] = {p[5:]: t for p, t in exp["files"].items() if p.startswith("yaml/")}
            if sorted(c["yamls"]) != sorted(c["yaml_names"]):
                ctx.stat("history_export_names_not_as_predicted")       # (the dependant of the round names the files beforehand)
                break
            ctx.count(key=("history", c["history"]["edit"], c["mode"], c["history"]["form"], "one-api" if c["history"]["share_api"] else "api-per-step", c["config_name"]),
                      nontrivial=c["history"]["round"] > 0, sample={"round": c["history"]["round"], "edit": c["history"]["edit"], "exporter": c["exp"][:200]})
            ctx.stat("history_rounds")
            ctx.stat("history_edit_" + c["history"]["edit"])
            triples.append((c, r2, rl))
    for c, r2, rl in triples:
        inp = {"exporter": c["exp"], "dependant": c["dep"], "config": c["config"], "mode": c["mode"]}
        if c.get("history"):
            inp["history"] = {k_: c["history"][k_] for k_ in ("round", "edit", "form", "share_api", "rounds")}
        if c.get("layout"):
            inp["layout"] = c["layout"]
        if c.get("split"):
            inp["split"], inp["yaml_names"] = c["split"], c["yaml_names"]
        if c.get("exp_files"):
            inp["exporter_files"], inp["exporter_layout"] = c["exp_files"], c.get("exp_layout")
        # 1. every exported document validates against the published model; per-type files hold one document each
        docs, doc_list = {}, []
        for n in sorted(c["yamls"]):
            for d in yaml.safe_load_all(c["yamls"][n]):
                if d is None:
                    continue
                try:
                    ext_model.model_validate(d)
                except Exception as e:  # noqa
                    # the shape of the failure: the refused attribute (first error of the validator), otherwise the kind of the type
                    where, value = str(d.get("primitive")), None
                    try:
                        first = e.errors()[0]
                        where, value = ".".join(str(x) for x in first["loc"]), first.get("input")
                    except Exception:  # noqa
                        pass
                    rep(c, "yaml:invalid:" + where, "an exported YAML document does not validate against the external type model"
                        + (f": {where} = {value!r} is refused" if value is not None else ""),
                        {"input": inp, "document": d, "attribute": where, "value": jval(value) if value is not None else None, "error": str(e)[:400]})
                docs[".".join(list(d.get("namespace", [])) + [str(d["name"])])] = d
                doc_list.append(d)
        decls = {}
        for d in c["export"]["extra"]["decls"]:
            b = {k: v for k, v in d["base"]}
            decls[".".join(list(b["namespace"]) + [b["name"]])] = d
        if set(docs) != set(decls) or len(doc_list) != len(decls):
            bare = {}
            for k in decls:
                bare.setdefault(k.split(".")[-1], []).append(k)
            lost = sorted(set(decls) - set(docs))
            if c["mode"] == "per_type" and lost and set(docs) <= set(decls) and all(len(bare[k.split(".")[-1]]) > 1 for k in lost):
                # Dom clause distinctNamesPerTypeFile: `<name>.yaml` has no namespace component (property C15, overwrite:yaml:namespace-dropped)
                ctx.count(key=("roundtrip", "same-name-per-type-file"), sample=inp)
                rep(c, "yaml:document-set:same-name-per-type-file", "equally named types of different namespaces are exported to one per-type file: the later export replaces the earlier one",
                           {"input": inp, "documents": sorted(docs), "declarations": sorted(decls), "lost": lost})
                continue
            rep(c, "yaml:document-set", "the yaml target did not write exactly one document per named declaration",
                       {"input": inp, "documents": sorted(docs), "declarations": sorted(decls)})
        # every named type of the exporting program has a document, wherever it is declared: in the root file or in a file that is
        # reached through one, two, … imports. What the program declares is read off its files by the model of the front end (Lean
        # `programInOrder` / `progDecls`: the files reachable from the root by @import, in the order in which they are finished) and is
        # known to the generator of the case (`declared`) — not taken from what the parser handed to the generators.
        xfiles = c.get("exp_files") or {"exp.djinni": c["exp"]}
        reqs.append({"op": "c13.declared", **{k_: v_ for k_, v_ in front.front_request({"/w/" + f: t for f, t in xfiles.items()}, "/w/exp.djinni").items() if k_ != "op"}})
        metas.append(("declared", c, None, None, {"docs": [".".join(list(d.get("namespace", [])) + [str(d["name"])]) for d in doc_list], "inp": inp}))
        if c.get("declared"):
            ctx.count(key=("exporter-files", c.get("exp_layout"), c["mode"], c["config_name"]), nontrivial=True,
                      sample={"layout": c.get("exp_layout"), "files": sorted(xfiles), "declared": {k_: v_["import_depth"] for k_, v_ in c["declared"].items()}})
            ctx.stat("exporter_layout_" + str(c.get("exp_layout")))
            for v_ in c["declared"].values():
                ctx.stat(f"exported_declarations_at_import_depth_{v_['import_depth']}")
            lost = sorted(k_ for k_ in c["declared"] if k_ not in docs)
            if lost:
                w = c["declared"][lost[0]]
                rep(c, "yaml:not-exported:" + ("declared-in-root-file" if w["import_depth"] == 0 else "declared-in-imported-file"),
                    f"the exporting program is accepted, but the yaml target wrote no document for named types it declares: {lost[0]} is declared in {w['file']} "
                    f"({w['import_depth']} import(s) below the root file)",
                    {"input": inp, "not_exported": {k_: c["declared"][k_] for k_ in lost}, "documents": sorted(docs), "export_mode": c["mode"]})
        for key, d in decls.items():
            name = key.split(".")[-1]
            family = "yaml-word" if name.lower() in YAML_LOWER else "keywordish" if name in KEYWORDISH else "ordinary"
            ctx.count(key=("name", d["kind"], c["mode"], family, "namespaced" if "." in key else "global"), nontrivial=True, sample={"type": key})
            ctx.stat(f"name_{family}_{d['kind']}_{c['mode']}")
        c["_docs"], c["_rl"] = {n: [d for d in yaml.safe_load_all(c["yamls"][n]) if d is not None] for n in sorted(c["yamls"])}, rl
        # the alphabet of the exported strings, per attribute
        for d in doc_list:
            for g in gen_keys:
                for k_, v_ in (d.get(g) or {}).items() if isinstance(d.get(g), dict) else ():
                    if isinstance(v_, str):
                        ALPHABET_SEEN.setdefault(f"{g}.{k_}", set()).update(ch if not ch.isalnum() else ("0" if ch.isdigit() else "A" if ch.isupper() else "a") for ch in v_)
        # 2. the loader on the exported files alone
        loaded, loader_ok = {}, rl["ok"]
        if not rl["ok"]:
            rep(c, "load:fails:" + rl["stage"] + ":" + rl["cls"], "the exported YAML files cannot be pulled in with @extern",
                       {"input": inp, "impl": rl})
        else:
            loaded = rl["extra"]["loaded"]
            reqs.append({"op": "c13.loadfile", "spec": spec, "docs": [doc_req(d, gen_keys) for d in doc_list]})
            metas.append(("loadfile", c, None, None, loaded))
            ws = c.get("ws")
            if ws:
                # which file every `@extern` directive found: the search order (Lean `locate`) on the workspace as it was written,
                # vs the files the real parser read; the file has to be the export (the decoys stand behind it)
                form = c["layout"]["form"]
                located = rl["extra"]["located"]
                ctx.count(key=("workspace", form, c["mode"], "dir-decoy" if c["layout"].get("dir_decoy") else "", "relative-include-dirs" if c["layout"].get("relative_include_dirs") else ""),
                          nontrivial=True, sample={"form": form, "files": sorted(ws["files"])[:8], "located": located[:4]})
                ctx.stat("workspace_" + form)
                for n, got in zip(sorted(c["yamls"]), located + [None] * len(c["yamls"])):
                    reqs.append({"op": "c13.locate", "as_given": ws["slots"][n][0], "next_to_idl": ws["slots"][n][1], "include_dirs": ws["slots"][n][2:]})
                    metas.append(("locate", c, n, None, got))
                    if got != f"{ws['home']}/ext/{n}":
                        rep(c, "extern:wrong-file:" + form, "an @extern directive of the dependent program did not load the exported file but another file of the same relative name",
                                   {"input": inp, "directive": '@extern "' + ws["literal"](n) + '"', "exported_file": f"{ws['home']}/ext/{n}", "loaded_file": got,
                                    "working_directory": "work", "idl_file": "app/main.djinni", "include_dirs": ws["job"]["generate"]["include_dirs"],
                                    "candidates_in_search_order": ws["slots"][n]})
        # 3. the dependant
        sp = c.get("split")
        if sp:
            # the directives in source order (Lean `doLoads`) on the files as written vs whether the real parser accepts the dependant
            ctx.count(key=("split", sp["layout"], c["mode"], c["config_name"]), nontrivial=True, sample={"layout": sp["layout"], "files": {f: d["directives"] for f, d in sp["files"].items()}})
            ctx.stat("split_" + sp["layout"] + ("_accepted" if r2["ok"] else "_refused"))
            vfiles = {"/w/" + f: t for f, t in split_files(sp, extern=True).items()}
            for n in sorted(c["yamls"]):
                vfiles["/w/ext/" + n] = {"ext": [{"key": ".".join(list(d.get("namespace") or []) + [str(d["name"])]), "prim": str(d.get("primitive")),
                                                  "arity": len(d.get("params") or []), "pos": [1, 0, 1, 0]} for d in yaml.safe_load_all(c["yamls"][n]) if d is not None]}
            reqs.append(front.front_request(vfiles, "/w/main.djinni"))
            metas.append(("split", c, sp["layout"], None, r2))
        if sp and not c["local"]["ok"]:
            # the all-local build refuses the order of the directives: so must the build with @extern
            if r2["ok"]:
                rep(c, "split:accepted-only-with-extern:" + sp["layout"], "the dependant is refused when the types are declared in imported IDL files at the place of the @extern directives, "
                    "but accepted with the exported YAML", {"input": inp, "local": c["local"]})
            elif sp["order_ok"]:
                ctx.stat("local_build_fails_" + c["local"]["stage"])
        elif not r2["ok"] and sp:
            ctx.count(key=("roundtrip", c["shape"], "dependant-fails"), sample=inp)
            pending.append((c, [], "split:dependant-refused:" + sp["layout"], "a dependant that is spread over several IDL files builds when the types are declared in imported IDL files at the place "
                            f"of the @extern directives, but is refused with the exported YAML (directives of the root file: {sp['files']['main.djinni']['directives']})",
                            {"input": inp, "impl": r2, "layout": sp["layout"]}))
        elif not r2["ok"]:
            ctx.count(key=("roundtrip", c["shape"], "dependant-fails"), sample=inp)
            pending.append((c, [], "roundtrip:dependant-fails:" + r2["stage"] + ":" + r2["cls"], "the dependant builds with local types but not with the exported YAML",
                            {"input": inp, "impl": r2}))
        else:
            if sp:
                # the banner of a file generated for a declaration of an *imported* file names that file by its absolute path: modulo the job's directory
                here = re.compile(re.escape(str(ctx.tmp)) + r"/r\w+/w\d+_j\d+/src/")
                c["local"]["files"] = {p_: here.sub("<SRC>/", t_) for p_, t_ in c["local"]["files"].items()}
                r2["files"] = {p_: here.sub("<SRC>/", t_) for p_, t_ in r2["files"].items()}
            fa, fb = canon_files(c["local"]["files"]), canon_files(r2["files"])
            differing = sorted(p for p in fb if fa.get(p) != fb[p])
            ctx.count(key=("roundtrip", c["shape"], c["mode"], c["config_name"], c.get("naming"), tuple(c.get("slots", ()))),
                      nontrivial=True, sample={"exporter": c["exp"][:300], "dependant": c["dep"][:300], "mode": c["mode"], "files_compared": len(fb)})
            for m in set(SITE_RE.findall(c["dep"].replace("_", "").lower())):
                ctx.count(key=("site", KIND_OF_TAG[EXPORTS[m[0]][1]], m[1], m[2]), nontrivial=True, sample={"site": site(*m)})
                SITES_SEEN.add((KIND_OF_TAG[EXPORTS[m[0]][1]], m[1], m[2]))
            ctx.stat("roundtrips")
            ctx.stat("files_compared", len(fb))
            ctx.stat("mode_" + c["mode"])
            ctx.stat("config_" + c["config_name"])
            ctx.stat("naming_" + str(c.get("naming")))
            if differing:
                first = differing[0]
                ext_text, loc_text = r2["files"][first], c["local"]["files"].get(first, "")
                sites = differing_sites(loc_text, ext_text)
                have = set(loc_text.split("\n"))
                pending.append((c, sites, "roundtrip:" + shape_of(c, sites), "files of the dependant differ between the @extern build and the all-local build",
                           {"input": inp, "differing": differing[:12], "first": first,
                            "sites": [{"site": site(*m), "exported": EXPORTS[m[0]][1], "wrapper": WRAP_NAMES[m[1]], "position": m[2]} for m in sites[:8]],
                            "extern_only_lines": [l for l in ext_text.split("\n") if l not in have][:6],
                            "local_only_lines": [l for l in loc_text.split("\n") if l not in set(ext_text.split("\n"))][:6]}))
        # 4. function level + specification on the observations, per exported declaration
        for key, d in decls.items():
            decl_req = {"base": d["base"], "node": d["node"], "marsh": d["marsh"]}
            reqs.append({"op": "c13.export", "decl": decl_req})
            metas.append(("export", c, key, d, docs.get(key)))
            if key in docs:
                reqs.append({"op": "c13.load", "spec": spec, "doc": doc_req(docs[key], gen_keys)})
                metas.append(("load", c, key, d, loaded.get(key)))
            if loader_ok and key in docs and key not in loaded:
                slot = next((sl for sl, (n, ns) in c.get("names", {}).items() if (ns + "." if ns else "") + n == key), None)
                pending.append((c, [(slot.lower(), "pl", "cm")] if slot else [], "key:" + d["kind"],
                                "the type loaded from the exported YAML is not registered under the declaration's qualified name",
                                {"input": {**inp, "type": key}, "registered": sorted(loaded)}))
            if key in loaded:
                reqs.append({"op": "c13.spec", "decl": decl_req, "loaded": loaded[key], "used": used_req, "primitive": d["primitive"]})
                metas.append(("spec", c, key, d, loaded[key]))
            reqs.append({"op": "c13.roundtrip", "decl": decl_req, "spec": spec, "used": used_req, "primitive": d["primitive"]})
            metas.append(("model-roundtrip", c, key, d, None))
    # the histories as wholes: the model of the rounds on one directory tree (Lean `runRounds`) vs what the real loader registered, round by round
    for q in sequences:
        done = [c for c in q["rounds"] if "_rl" in c]
        if not done or any(not c["_rl"]["ok"] for c in done):
            continue
        reqs.append({"op": "c13.rounds", "spec": spec, "rounds": [
            {"written": [[n, [doc_req(d, gen_keys) for d in ds]] for n, ds in c["_docs"].items()], "externs": c["yaml_names"]} for c in done]})
        metas.append(("rounds", done[-1], None, None, [c["_rl"]["extra"]["loaded"] for c in done]))
    if pending:
        minis, seen = [], set()
        for c, sites, key, _, _ in pending:
            if c.get("history"):
                continue
            if minimise and sites and key not in seen:
                seen.add(key)
                mc = minimised(c, sites[0])
                if mc is not None:
                    minis.append(mc)
            elif minimise and key.startswith("roundtrip:other") and key not in seen:
                seen.add(key)
                minis += narrowed(c)
        if minis:
            breaks += round_trips(ctx, minis, used, spec, minimise=False)
        for c, sites, key, what, body in pending:
            rep(c, key, what, body)
    answers = []
    for a0 in range(0, len(reqs), 400):
        answers += ctx.driver.batch(reqs[a0:a0 + 400])
    for (kind, c, key, d, other), a in zip(metas, answers):
        if "error" in a:
            raise common.Infra(f"driver error {a} ({kind} {key})")
        inp = {"exporter": c["exp"], "dependant": c["dep"], "config": c["config"], "mode": c["mode"], "type": key}
        if c.get("layout"):
            inp["layout"] = c["layout"]
        if c.get("history"):
            inp["history"] = {k_: c["history"][k_] for k_ in ("round", "edit", "form", "share_api", "rounds")}
        if kind == "split":
            ctx.count(n=1)
            mo = front.model_outcome(a)
            accepted = mo == ("ok",)
            if accepted != bool(other["ok"]) and not (not other["ok"] and not other["stage"].startswith("parse")):
                inp.pop("type")
                breaks.append({"what": "c05.front (the directives of every file in source order) vs whether the parser accepts the dependant that is spread over several files",
                               "layout": key, "model": list(mo)[:3], "impl": {k_: other.get(k_) for k_ in ("ok", "stage", "cls", "msg")}, "input": {**inp, "split": c["split"]}})
            continue
        if kind == "declared":
            ctx.count(n=1)
            inp.pop("type")
            if a.get("declared") is None:
                breaks.append({"what": "c13.declared: the model of the front end cannot read the exporting program", "model": a, "input": inp})
                continue
            mkeys = [x["key"] for x in a["declared"]]
            if c.get("declared") is not None and sorted(mkeys) != sorted(c["declared"]):
                breaks.append({"what": "c13.declared (progDecls of programInOrder) vs the declarations the generator of the case wrote into the files",
                               "model": sorted(mkeys), "generator": sorted(c["declared"]), "input": inp})
            lost = [x for x in a["declared"] if x["key"] not in other["docs"]]
            if lost and not any(k_.startswith("yaml:") for k_ in c.get("_reported", ())) and not any(x[0] is c and x[1].startswith("yaml:") for x in deferred):
                root = lost[0]["file"] == "/w/exp.djinni"
                rep(c, "yaml:not-exported:" + ("declared-in-root-file" if root else "declared-in-imported-file"),
                    f"the yaml target wrote no document for a named type of the exporting program: {lost[0]['key']}, declared in {lost[0]['file']}",
                    {"input": other["inp"], "not_exported": lost, "documents": sorted(other["docs"]), "export_mode": c["mode"]})
            elif not lost and c["mode"] == "out_file" and sorted(mkeys) == sorted(other["docs"]) and mkeys != other["docs"]:
                # the documents of an `out_file` stand in the order in which the declarations are registered: imported files first
                breaks.append({"what": "c13.declared (finish order of the files) vs the order of the documents in the out_file", "model": mkeys, "impl": other["docs"], "input": inp})
            continue
        if kind == "locate":
            ctx.count(n=1)
            if a.get("located") != other:
                inp.pop("type")
                breaks.append({"what": "c13.locate (search order on the written workspace) vs the file the parser read", "file": key, "model": a.get("located"), "impl": other, "input": inp})
            continue
        if kind == "rounds":
            ctx.count(n=len(other))
            inp.pop("type")
            for k_, (m_, loaded_) in enumerate(zip(a["rounds"], other)):
                mine = None if "registered" not in m_ else [[".".join(e["key"][0] + [e["key"][1]]), sorted(e["type"]["base"]),
                                                            sorted([g, None if kv is None else sorted(kv)] for g, kv in e["type"]["gens"])] for e in m_["registered"]]
                theirs = [[k2, sorted(t["base"]), sorted([g, None if kv is None else sorted(kv)] for g, kv in t["gens"] if g != "yaml")] for k2, t in loaded_.items()]
                if mine != theirs:
                    first = next((x for x in zip(mine or [], theirs) if x[0] != x[1]), None)
                    breaks.append({"what": f"c13.rounds (runRounds: every round reads the files as they are now) vs the registry of Resolver.load_external in round {k_ + 1} of a history",
                                   "model": first[0] if first else m_ if mine is None else [x[0] for x in mine], "impl": first[1] if first else [x[0] for x in theirs], "input": inp})
                    break
            continue
        if kind == "loadfile":
            ctx.count(n=1)
            inp.pop("type")
            mine = None if "registered" not in a else [[".".join(e["key"][0] + [e["key"][1]]), e["located"]] for e in a["registered"]]
            # located: the loader gave the type a position that delimits the name on a `name:` line of the file
            theirs = [[k, bool(t["located"] and t["points_at"] == k.split(".")[-1])] for k, t in other.items()]
            ctx.stat("loader_located", sum(1 for _, l in theirs if l))
            ctx.stat("loader_not_located", sum(1 for _, l in theirs if not l))
            if mine != theirs:
                breaks.append({"what": "c13.loadfile vs the registry of Resolver.load_external (keys in order, name line located)", "model": a, "impl": theirs, "input": inp})
            continue
        if kind == "export":
            ctx.count(key=("export", d["kind"], c["config_name"]), nontrivial=True, sample={"type": key, "kind": d["kind"]})
            ctx.stat("export_" + d["kind"])
            if other is not None and model_doc_canon(a) != doc_canon(other, gen_keys):
                breaks.append({"what": "c13.export vs the written YAML document", "type": key, "model": model_doc_canon(a), "impl": doc_canon(other, gen_keys), "input": inp})
        elif kind == "load":
            ctx.count(n=1)
            mine = None if a.get("invalid") else {"base": sorted(a["base"]), "gens": sorted([g, None if kv is None else sorted(kv)] for g, kv in a["gens"])}
            theirs = None if other is None else {"base": sorted(other["base"]), "gens": sorted([g, None if kv is None else sorted(kv)] for g, kv in other["gens"] if g != "yaml")}
            if mine != theirs:
                breaks.append({"what": "c13.load vs Resolver.load_external", "type": key, "model": mine, "impl": theirs, "input": inp})
        elif kind == "spec":
            ctx.count(n=1)
            if not a["same_key"]:
                rep(c, "key:" + d["kind"], "the loaded type registers under another qualified name", {"input": inp, "spec": a})
            for df in a["differing"]:
                rep(c, f"attr:{df['gen']}.{df['attr']}".replace("<header>", "derived_header"),
                           "an attribute that dependants read through the type definition differs between the local declaration and the loaded external type",
                           {"input": inp, "attribute": df, "kind": d["kind"]})
        else:
            if a.get("invalid") or not a["holds"]:
                # the model's own round trip differs: either a Dom clause (then the implementation's observation above
                # reported it) or a modelling problem
                c.setdefault("model_diffs", []).append((key, a))
    if deferred:
        # Which of these failures does the round show on its own — the same files, configuration and export mode in a fresh process on
        # a fresh tree? Those are reported (by that run) under their own key; the others exist only because of what the process did and
        # the paths held before: `history:stale-export:<what changed>`.
        by_round = {}
        for c, key, what, body in deferred:
            by_round.setdefault((c["history"]["seq"], c["history"]["round"]), (c, []))[1].append((key, what, body))
        singles = []
        for (sq, k), (c, _) in by_round.items():
            h = c["history"]
            singles.append(sequence_of_rounds([h["rounds"][-1]], c["mode"], {"seq": sq, "form": h["form"], "share_api": h["share_api"]}))
        breaks += round_trips(ctx, [], used, spec, minimise=False, sequences=singles, alone=True)
        for ((sq, k), (c, items)), single in zip(by_round.items(), singles):
            own = single["rounds"][0].get("_reported", set())
            mine = [(key, what, body) for key, what, body in items if key not in own]
            ctx.stat("history_rounds_failing")
            if not mine:
                continue
            h = c["history"]
            key, what, body = mine[0]
            c.setdefault("_reported", set()).add("history:stale-export:" + h["edit"])
            ctx.report("history:stale-export:" + h["edit"],
                       f"round {k + 1} of a re-export history (same process, same paths; changed since the round before: {h['edit']}) fails, the same round on its own does not: {what}",
                       {"input": body.get("input"), "failures_of_the_round": sorted({x[0] for x in mine}), "also_alone": sorted(own),
                        "first": {k_: v for k_, v in body.items() if k_ != "input"}})
    return breaks


def doc_req(doc: dict, gen_keys):
    return {"base": [[k, jval(v)] for k, v in doc.items() if k not in gen_keys],
            "gens": [[g, [[k, jval(v)] for k, v in doc[g].items()]] for g in gen_keys if g in doc and isinstance(doc[g], dict)]}


def load_corpus():
    p = common.VERIF / "corpus" / "c13.json"
    return json.loads(p.read_text()) if p.exists() else []


def run(ctx):
    ctx.coverage["rule"] = ("round trips: distinct = (shape, export mode, configuration, naming family, exported slots); histories: distinct = (what changed since the round before, export mode, "
                            "spelling of the @extern literals, one API object / one per step, configuration); workspaces: distinct = (where the export stands, "
                            "export mode, directory decoy, spelling of the include directories); usage sites: distinct = (exported kind, wrapper, "
                            "position); split dependants: distinct = (layout of the directives, export mode, configuration); names: distinct = (declaration kind, export mode, name family, namespaced); function level: one evaluation per exported declaration "
                            "and op (export, load, spec) and one per program for the whole-file load")
    ctx.assumptions += [
        "closed feature set: exporter slots " + ", ".join(SAFE) + " (+ xerr exported but not thrown), 1-4 per program, each slot due every " + str(len(SAFE)) + " cases; "
        "names of the exported types: the slot names, identifiers PyYAML has to quote (bool/null words of YAML 1.1 in three spellings), identifiers that are "
        "keywords/literals elsewhere (" + str(len(KEYWORDISH)) + " words; class, nil, self, type are refused by the Objective-C generator for local declarations too), "
        "global or inside 1-3 levels of namespaces whose names come from the same families; the same bare name in two namespaces only with out_file "
        "(per-type files are named after the bare name: property C15)",
        "dependants use every exported declaration in every wrapper (" + ", ".join(WRAP_NAMES.values()) + ") at every position: field of a record without / with deriving(eq) / "
        "deriving(eq, ord) (plain and optional only), parameter+return of a method / static / const / async method and a property of a +cpp interface and of a "
        "+java+objc+cppcli interface, parameters and (rotating) return of a named function and a +cpp function, inline function parameter/return types; "
        "interfaces are no record fields (parser rule)",
        "four configurations (default, namespaces, identifier styles, nullability options: cpp.not_null, Java nullable/nonnull annotations, java.interfaces, "
        "objc.strict_protocols, cpp.string_serialization) x four naming families x per-type files / out_file: every pair within 16 consecutive cases",
        "Dom clauses (findings): noExternErrorDomainThrown, noExternBaseRecord, distinctNamesPerTypeFile — excluded from the generator, one witness each in corpus/c13.json",
        "generated files are compared byte for byte (sha256); the banner names the same root file in both builds",
        "every other case runs in a workspace: working directory, directory of the IDL file and two include directories are four different directories; the export stands "
        "at one search candidate (" + ", ".join(FORMS) + " in rotation, x export mode), every candidate behind it holds a decoy export of the same relative name (same qualified "
        "names, every declaration of another kind, another of the four configurations), the last candidate in front of it is absent or a directory of that name; no symbolic links; "
        "the root IDL file is spelled relative to the working directory",
        "alphabet stream: configurations " + ", ".join(n for n, _ in ALPHABETS) + " x names " + ", ".join(LEXICAL) + " x namespaces " + ", ".join(LEX_NAMESPACES) +
        " (60 % of the declarations namespaced), 2-3 exported slots per case, both export modes; java.identifier.type and jni.identifier.class_name are configured alike "
        "(they name the same Java class); `$` cannot reach an exported string (no identifier, package or prefix may contain it)",
        "split dependants: layouts " + ", ".join(l for l, _ in SPLIT_LAYOUTS) + " (E = @extern directives, I(x) = @import of a file that uses the external types (u), uses none (p), has the "
        "@extern directives itself (E u), imports such a file (I(u))); one or two exported slots, light dependants; the all-local reference imports one IDL file per exported YAML file at the "
        "place of its @extern; the last two layouts have the wrong order and must be refused by both builds",
        "exporting programs of several files: import graphs " + ", ".join(n for n, _, _ in EXP_LAYOUTS) + " (2-6 files, the deepest file 1-3 imports below the root, files shared by two importers, "
        "files in nested directories with literals relative to the importing file); every file declares one or two exported slots, every importing file a record over types of the files it "
        "imports; the dependant uses the slots of every file; the all-local reference declares everything in one file; configurations from the four + the three alphabet configurations, "
        "both export modes",
        "re-export histories: two exported slots, light dependants (a record, a +cpp and a +java+objc+cppcli interface over every wrapper), configurations from the four + the three "
        "alphabet configurations, names of the slot / lexical families, 2 rounds (3 in every fourth history); edits " + ", ".join(EDITS) + " in rotation; every round cleans the "
        "output directories it writes (`clean=True`), the dependent program names the exported files by the names the yaml target is known to give them (<name>.yaml / all.yaml); "
        "the steps of a history run in one forked worker process, the re-run of a round alone in a process of its own",
    ]
    api, gens = api_and_gens()
    used, spec, computed, ok = obligations(ctx, gens)
    cases, sequences = [], []
    for n, c in enumerate(load_corpus()):
        if "rounds" in c:       # a re-export history
            sequences.append(sequence_of_rounds(c["rounds"], c["mode"], {"seq": 1000 + n, "form": c.get("form", "absolute"), "share_api": bool(c.get("share_api"))}))
            for x in sequences[-1]["rounds"]:
                x["config_name"] = "corpus"
            continue
        cases.append({**c, "config": c.get("config", {}), "config_name": c.get("config_name", "default"), "mode": c.get("mode", "per_type"), "shape": c.get("shape", "corpus")})
    for i in range(ctx.n(32, 448)):
        r = random.Random(f"{ctx.seed}/c13/{i}")
        cases.append(gen_case(r, i))
    for i in range(ctx.n(6, 126)):
        r = random.Random(f"{ctx.seed}/c13/alphabet/{i}")
        cases.append(gen_alphabet_case(r, i))
    for i in range(ctx.n(len(SPLIT_LAYOUTS), 12 * len(SPLIT_LAYOUTS))):
        k = i + ctx.seed * len(SPLIT_LAYOUTS)
        cases.append(gen_split_case(random.Random(f"{ctx.seed}/c13/split/{i}"), k))
    for i in range(ctx.n(len(EXP_LAYOUTS), 10 * len(EXP_LAYOUTS))):
        k = i + ctx.seed * len(EXP_LAYOUTS)
        cases.append(gen_multi_exporter_case(random.Random(f"{ctx.seed}/c13/exporter-files/{i}"), k))
    sequences += [gen_sequence(random.Random(f"{ctx.seed}/c13/history/{i}"), i) for i in range(ctx.n(12, 96))]
    breaks = round_trips(ctx, cases, used, spec, sequences=sequences)
    breaks += pattern_correspondence(ctx, spec)
    ctx.stats["exported_alphabet"] = {k: "".join(sorted(v)) for k, v in sorted(ALPHABET_SEEN.items())}      # a / A / 0 = lower / upper / digit
    # an obligation that fails without a listed Dom clause: name the attribute and try to exercise it
    if not ok:
        for u in used:
            if not py_loadable(spec, u) and not py_known(u) and not ctx.violations:
                ctx.report(f"attr:{u['gen']}.{u['attr']}", "an attribute is read through a type definition but is no field of the external type model",
                           {"obligation": "used_loadable", "attribute": u}, no_failing_input=True)
    poss = possible_sites()
    ctx.stats["usage_sites_possible"] = len(poss)
    ctx.stats["usage_sites_round_tripped"] = len(SITES_SEEN & poss)
    ctx.stats["usage_sites_missing"] = ["/".join(x) for x in sorted(poss - SITES_SEEN)][:40]
    ctx.stats["usage_sites_inline_signatures_round_tripped"] = len({x for x in SITES_SEEN if x[2] in ("ia", "ib", "ip", "ir")})    # rotating, of 5 x 10 x 4
    ctx.stats["correspondence_breaks"] = len(breaks)
    keys = {}
    for v in ctx.violations:
        keys[v["key"]] = keys.get(v["key"], 0) + 1
    if keys:
        ctx.stats["violation_keys"] = keys
    if breaks and not ctx.violations:
        ctx.report("correspondence", "model and implementation disagree; the specification holds on every sampled input",
                   {"first": breaks[0], "count": len(breaks)}, no_failing_input=True)
    elif breaks:
        ctx.stats["correspondence_first"] = breaks[0]["what"]


def replay(ctx, body):
    inp = body.get("input")
    if not inp or "exporter" not in inp:
        print("replay without a concrete input (obligation / correspondence):", json.dumps(body, indent=1)[:2000])
        return False
    api, gens = api_and_gens()
    used, spec = extract_used(gens), ext_fields(gens)
    n0, k0 = len(ctx.violations), sum(ctx.known_hits.values())
    key = body.get("key")
    kk0 = ctx.known_hits.get(key, 0)
    case = {"exp": inp["exporter"], "dep": inp["dependant"], "config": inp.get("config", {}), "config_name": "replay",
            "mode": inp.get("mode", "per_type"), "shape": "replay"}
    if inp.get("layout"):
        case["layout"] = inp["layout"]
    if inp.get("split"):
        case["split"], case["yaml_names"], case["shape"] = inp["split"], inp["yaml_names"], "split"
    if inp.get("exporter_files"):
        case["exp_files"], case["exp_layout"], case["shape"] = inp["exporter_files"], inp.get("exporter_layout"), "multi-file-exporter"
        if body.get("not_exported") and isinstance(body["not_exported"], dict):
            case["declared"] = dict(body["not_exported"])
    if inp.get("history"):
        h = inp["history"]
        round_trips(ctx, [], used, spec, sequences=[sequence_of_rounds(h["rounds"], case["mode"], {"seq": 0, "form": h.get("form", "absolute"), "share_api": bool(h.get("share_api"))})])
    else:
        round_trips(ctx, [case], used, spec)
    if key:     # the recorded failure: does a failure of the same shape occur again?
        return not any(v["key"] == key for v in ctx.violations[n0:]) and ctx.known_hits.get(key, 0) == kk0
    return len(ctx.violations) == n0 and sum(ctx.known_hits.values()) == k0
