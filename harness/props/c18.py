"""C18 — language-server answers always reflect the current text of each document.

Tie: correspondence between the Lean model of the server's bookkeeping (`Sys/Lsp.lean`: workspace + ast/type_def/hover/dependency
caches, `validate` with the exception classes it distinguishes, `to_hover_cache`, the query handlers, didClose, didChangeWatchedFiles)
and the real handlers driven in-process: per event the publications (uri, severity, range), the request's answer and the
number of exceptions swallowed by `error_logger`. The front end is an oracle for both sides' reference: for the model the
result of the real `api.parse` on the same text (fresh context), so only the server's bookkeeping is compared.

Inputs: every well-formed event sequence of depth <= 4 over 2 documents x 5 texts (valid, syntax error, unknown type, duplicate
type, deprecated use; the second document imports files that exist on disk) plus save / watched-files events — exhaustively in
the thorough tier, all of depth <= 2 plus a seeded sample in quick — each followed by a query battery (documentSymbol in both
modes; hover and definition at every column of the lines that hold references, both boundaries of every span included);
and seeded random sequences of length <= 60 over 3 documents with imports between documents, files on disk changing, and
queries on open, closed and never-opened documents. Documents are never written to disk.
Every family runs under a set of *namings* of its documents and disk files (`NAMINGS`): plain ASCII names, and names a client has to
percent-encode in the document URI — blanks, non-ASCII letters, `#`, `%`, `+`, `&`, a directory with such a name, names whose URI
percent-decodes to the URI of another document of the scenario — in three URI spellings (`Path.as_uri()`-style, lower-case hex,
minimal encoding). All depth <= 2 histories run under every naming; the sampled and the random ones rotate through them.

Specification on the implementation's observations (`c18.check` -> Lean `specCheck`): after open/change exactly one publication,
equal to `diagsOf (front (current text))`; queries answer what a cache-free server would answer from the current text
(`null` for a document that is not open); close/save/queries publish nothing; no handler logs an internal error.
"""
from __future__ import annotations

import json
import random
from pathlib import Path

import common
import lsp

LEAN_MODULE = "PydjinniModel.Props.C18"
THEOREMS = [
    "Pydjinni.Sys.Lsp.validate_publishes_current",
    "Pydjinni.Sys.Lsp.step_inv",
    "Pydjinni.Sys.Lsp.run_inv",
    "Pydjinni.Sys.Lsp.queries_pure",
    "Pydjinni.Sys.Lsp.close_drops_state",
    "Pydjinni.Sys.Lsp.close_keeps_others",
    "Pydjinni.Sys.Lsp.no_internal_error",
    "Pydjinni.Sys.Lsp.lsp_refines_spec",
    "Pydjinni.Sys.Lsp.crash_leaves_stale_diagnostics",
    "Pydjinni.Sys.Lsp.hoverPinned_unopened_fails",
    "Pydjinni.Sys.Lsp.putCells_get",
]
LEVEL = "proof"
TRUSTED = ("pygls dispatch / transport and the asynchronous ordering of notifications are not modelled: handlers are called in-process, one at a time",
           "the front end is a parameter of the model; its results come from the real api.parse on the same text (C03-C06, C16 are about it)")

# ---- exhaustive family: two documents, five texts each --------------------------------------------------------------

DISK = {"lib.pydjinni": "# lib doc\nlibt = record { a: i8; }\n", "a.pydjinni": "disk_a = record { z: i8; }\n"}
TEXTS_A = [
    "# doc of foo\nfoo = record { x: i8; }\nbar = record { f: foo; g: list<foo>; }\n",          # valid
    "foo = record { x: i8 }\n",                                                                      # syntax error
    "# @deprecated\nold = enum { k; }\nr = record { x: nope; y: old; }\n",                          # unknown type (next to a deprecated use)
    "d = enum { p; }\nd = enum { q; }\n",                                                            # duplicate type
    "# @deprecated use bar\nold = enum { k; }\nr = record { f: old; g: map<string, old>; }\n",       # deprecated use
]
TEXTS_B = [
    '@import "lib.pydjinni"\nuse = record { f: libt; h: set<libt>; }\n',                             # valid, imports a file on disk
    '@import "lib.pydjinni"\nuse = record { f: libt }\n',                                            # syntax error
    '@import "a.pydjinni"\nuse = record { f: disk_a; g: gone; }\n',                                  # unknown type (+ depends on a's disk copy)
    'e = enum { p; }\n@import "a.pydjinni"\ne = enum { q; }\n',                                      # duplicate type
    '@import "a.pydjinni"\n# @deprecated\nold = record { z: disk_a; }\nuse = record { f: old; }\n',  # deprecated use
]
EXH = {"texts": TEXTS_A + TEXTS_B, "disk": DISK, "docs": {"a": [0, 1, 2, 3, 4], "b": [5, 6, 7, 8, 9]}}
EXTRA = [{"ev": "save", "u": "a"}, {"ev": "watched", "changes": ["lib.pydjinni"]}, {"ev": "watched", "changes": ["a.pydjinni"]},
         {"ev": "watched", "changes": ["<config>"]}]


# ---- namings: the same scenario with other file names / URI spellings -----------------------------------------------------------
# stems of the documents (a, b, c) and of the disk files (lib, missing, ext; `a.pydjinni` is the disk copy of document a, ...).
# A URI is an opaque key for the server: nothing it does may depend on how the client spelled it.
NAMINGS = [
    {"id": "plain", "style": "py", "stems": {}},
    {"id": "blank", "style": "py", "stems": {"a": "my a", "b": "b  two", "c": "c d", "lib": "my lib", "ext": "ext file"}},
    {"id": "non-ascii", "style": "py", "stems": {"a": "grüße", "b": "bär", "c": "çé日本", "lib": "bibliothèque", "missing": "fehlt ö"}},
    {"id": "reserved", "style": "py", "stems": {"a": "a#1", "b": "50%+b", "c": "c&d=e;f", "lib": "lib+x#y", "ext": "e%t"}},
    # the URI of `b` percent-decodes to the URI of `a`, that of `c` to the URI of `b`
    {"id": "decodes-to-sibling", "style": "py", "stems": {"a": "a b", "b": "a%20b", "c": "a%2520b", "lib": "lib%41"}},
    {"id": "lower-hex", "style": "lower", "stems": {"a": "my ä", "b": "b#ü", "c": "c d", "lib": "my lib"}},
    {"id": "minimal-encoding", "style": "min", "stems": {"a": "ü a", "b": "b+ß", "c": "c%d", "lib": "lib é"}},
    {"id": "directory", "style": "py", "stems": {"a": "d ü/a", "b": "d ü/b", "c": "d ü/c", "lib": "d ü/lib", "missing": "d ü/missing", "ext": "d ü/ext"}},
]


_IMPORT_LITERAL = None


def actual_name(stems, logical):
    stem, dot, ext = logical.rpartition(".")
    return stems.get(stem, stem) + dot + ext


def retext(stems, t):
    """import literals name the file relative to the importing file: all files of a naming share one directory"""
    global _IMPORT_LITERAL
    if _IMPORT_LITERAL is None:
        import re
        _IMPORT_LITERAL = re.compile(r'"([a-z]+\.(?:pydjinni|yaml))"')
    return None if t is None else _IMPORT_LITERAL.sub(lambda m: '"' + actual_name(stems, m.group(1)).rsplit("/", 1)[-1] + '"', t)


def apply_naming(scn, naming):
    """the scenario with its documents and files renamed: texts and disk contents import the new names"""
    stems = naming["stems"]
    return {"texts": [retext(stems, t) for t in scn["texts"]], "disk": {actual_name(stems, f): retext(stems, c) for f, c in scn["disk"].items()},
            "docs": scn["docs"], "names": {d: stems.get(d, d) for d in scn["docs"]}, "style": naming["style"], "naming": naming["id"], "stems": stems}


def rename_seq(named, seq):
    """disk and watched-files events of a history written in the family's logical file names, in the naming's names"""
    stems, out = named["stems"], []
    for ev in seq:
        if ev["ev"] == "disk":
            ev = {"ev": "disk", "files": {actual_name(stems, f): retext(stems, c) for f, c in ev["files"].items()}}
        elif ev["ev"] == "watched":
            ev = {"ev": "watched", "changes": [c if c == "<config>" else actual_name(stems, c) for c in ev["changes"]]}
        out.append(ev)
    return out


def replay_scenario(scn):
    return {k: scn[k] for k in ("texts", "disk", "names", "style", "naming") if k in scn}


def battery(scn, docs=None):
    out = []
    for d in (docs or scn["docs"]):
        texts = [scn["texts"][t] for t in scn["docs"][d]]
        nlines = max(t.count("\n") for t in texts)
        width = max(len(l) for t in texts for l in t.split("\n")) + 2
        out += [{"ev": "symbols", "u": d, "hier": True}, {"ev": "symbols", "u": d, "hier": False}]
        for line in range(nlines):
            if not any(":" in (t.split("\n") + [""] * nlines)[line] or "@import" in (t.split("\n") + [""] * nlines)[line] for t in texts):
                continue   # no text has a reference on this line
            for col in range(width):
                out.append({"ev": "hover", "u": d, "line": line, "col": col})
                out.append({"ev": "definition", "u": d, "line": line, "col": col})
    return out


def mutators(scn, open_docs):
    evs = []
    for d, ts in scn["docs"].items():
        if d in open_docs:
            evs += [{"ev": "change", "u": d, "t": t} for t in ts] + [{"ev": "close", "u": d}]
        else:
            evs += [{"ev": "open", "u": d, "t": t} for t in ts]
    return evs + EXTRA


def after(open_docs, ev):
    if ev["ev"] == "open":
        return open_docs | {ev["u"]}
    if ev["ev"] == "close":
        return open_docs - {ev["u"]}
    return open_docs


def all_sequences(scn, depth):
    out = []

    def go(prefix, open_docs):
        if prefix:
            out.append(list(prefix))
        if len(prefix) == depth:
            return
        for ev in mutators(scn, open_docs):
            prefix.append(ev)
            go(prefix, after(open_docs, ev))
            prefix.pop()
    go([], frozenset())
    return out


def sample_sequence(scn, r, depth):
    seq, open_docs = [], frozenset()
    for _ in range(depth):
        ev = r.choice(mutators(scn, open_docs))
        seq.append(ev)
        open_docs = after(open_docs, ev)
    return seq


# ---- random family: three documents, imports between them, disk changes ------------------------------------------------

RND_DISK0 = {"lib.pydjinni": "# lib doc\nlibt = record { a: i8; }\n", "a.pydjinni": "# disk a\nta = enum { k; }\n",
             "b.pydjinni": '@import "lib.pydjinni"\ntb = record { f: libt; }\n', "ext.yaml": None}
RND_DISK_POOL = {
    "lib.pydjinni": ["# lib doc\nlibt = record { a: i8; }\n", "# @deprecated gone soon\nlibt = enum { k; }\n", "libt = record { a: i8 }\n", None,
                     "other = enum { k; }\n"],
    "a.pydjinni": ["# disk a\nta = enum { k; }\n", "ta = enum { k; }\nta = enum { l; }\n", '@import "b.pydjinni"\nta = record { f: tb; }\n', None],
    "b.pydjinni": ['@import "lib.pydjinni"\ntb = record { f: libt; }\n', "tb = flags { x; y; }\n", '@import "a.pydjinni"\ntb = record { f: ta; }\n'],
}
RND_TEXTS = [
    "# doc of foo\nfoo = record { x: i8; }\nbar = record { f: foo; g: list<foo>; }\n",
    "foo = record { x: i8 }\n",
    "# @deprecated\nold = enum { k; }\nr = record { x: nope; y: list<nope>; z: old; }\n",
    "d = enum { p; }\nd = enum { q; }\n",
    "# @deprecated use bar\nold = enum { k; }\nr = record { f: old; g: map<string, old>; }\n",
    '@import "lib.pydjinni"\nuse = record { f: libt; h: set<libt>; }\n',
    '@import "a.pydjinni"\n@import "b.pydjinni"\nuse = record { f: ta; g: tb; }\n',
    '@import "b.pydjinni"\nx = interface { m(p: tb) -> list<\n  tb>; }\n',
    '@import "missing.pydjinni"\nx = enum { k; }\n',
    'namespace n.m {\n  # inner doc\n  inner = record { a: string; }\n}\nouter = record { f: n.m.inner; g: map<i32,\n list<n.m.inner>>; }\n',
    '@import "c.pydjinni"\nself = enum { k; }\n',
    'f = function (a: i32) -> bool;\ni = interface { cb(h: (x: i8) -> string); }\nlibt = enum { k; }\n@import "lib.pydjinni"\n',
    "",
    '@extern "ext.yaml"\nz = record { a: i8; }\n',
]
RND = {"texts": RND_TEXTS, "disk": RND_DISK0, "docs": {d: list(range(len(RND_TEXTS))) for d in ("a", "b", "c")}}


def random_sequence(r, length):
    scn = RND
    seq, open_docs, cur = [], {}, {}
    docs = list(scn["docs"])
    for _ in range(length):
        x = r.random()
        d = r.choice(docs)
        if x < 0.34:
            t = r.randrange(len(scn["texts"]))
            seq.append({"ev": "change" if d in open_docs else "open", "u": d, "t": t})
            open_docs[d] = t
        elif x < 0.42:
            if d in open_docs:
                seq.append({"ev": "close", "u": d})
                del open_docs[d]
        elif x < 0.72:
            text = scn["texts"][open_docs.get(d, r.randrange(len(scn["texts"])))]
            lines = text.split("\n")
            line = r.randrange(max(1, len(lines)))
            col = r.randrange(len(lines[line]) + 2) if line < len(lines) else 0
            seq.append({"ev": r.choice(["hover", "definition"]), "u": d, "line": line, "col": col})
        elif x < 0.80:
            seq.append({"ev": "symbols", "u": d, "hier": r.random() < 0.6})
        elif x < 0.89:
            seq.append({"ev": "watched", "changes": r.sample(["lib.pydjinni", "a.pydjinni", "b.pydjinni", "c.pydjinni", "<config>"], r.choice([1, 1, 2]))})
        elif x < 0.96:
            name = r.choice(list(RND_DISK_POOL))
            seq.append({"ev": "disk", "files": {name: r.choice(RND_DISK_POOL[name])}})
        else:
            seq.append({"ev": "save", "u": d})
    return seq


def final_battery(scn, seq):
    """hover/definition at every column of every line of the final text of each open document, symbols for all documents"""
    cur = {}
    for ev in seq:
        if ev["ev"] in ("open", "change"):
            cur[ev["u"]] = ev["t"]
        elif ev["ev"] == "close":
            cur.pop(ev["u"], None)
    out = []
    for d in scn["docs"]:
        out += [{"ev": "symbols", "u": d, "hier": True}, {"ev": "symbols", "u": d, "hier": False}]
        if d in cur:
            for line, l in enumerate(scn["texts"][cur[d]].split("\n")):
                for col in range(len(l) + 2):
                    out.append({"ev": "hover", "u": d, "line": line, "col": col})
                    out.append({"ev": "definition", "u": d, "line": line, "col": col})
        else:
            out += [{"ev": "hover", "u": d, "line": 1, "col": 3}, {"ev": "definition", "u": d, "line": 1, "col": 3}]
    return out


# ---- evaluation (worker processes) -------------------------------------------------------------------------------------

def _worker(args):
    base, idx, scns, seqs, shared_table = args
    root = Path(base) / f"ws{idx}"
    lsp.setup(root)
    drv = common.Driver()
    results = []
    tables = {}
    batch, metas, batch_k = [], [], None

    def table_of(k):
        # no disk events in this family: one table per naming for all its sequences
        if k not in tables:
            scn = scns[k]
            pairs = [{"ev": "open", "u": d, "t": t} for d, ts in scn["docs"].items() for t in ts]
            tables[k] = lsp.front_table(root, scn, pairs)
        return tables[k]

    def flush():
        nonlocal batch, metas
        if not batch:
            return
        if shared_table:
            unq = lsp.unquote_table([u for it, _ in batch for u in it["_uris"]])
            res = drv.batch([{"op": "c18.check", "configUri": lsp.config_uri(root), "front": table_of(batch_k), "unq": unq,
                              "items": [{k: v for k, v in it.items() if k != "_uris"} for it, _ in batch]}], timeout=3000)[0]
            if "error" in res:
                raise RuntimeError("driver: " + res["error"])
            rs = res["results"]
        else:
            res = drv.batch([{"op": "c18.check", "configUri": lsp.config_uri(root), "front": tb, "unq": lsp.unquote_table(it["_uris"]),
                              "items": [{k: v for k, v in it.items() if k != "_uris"}]} for it, tb in batch], timeout=3000)
            for x in res:
                if "error" in x:
                    raise RuntimeError("driver: " + x["error"])
            rs = [x["results"][0] for x in res]
        for (sid, seq, impl, tb), r in zip(metas, rs):
            out = {"sid": sid, "corr": r["corr"], "spec": r["spec"], "n": len(seq)}
            if r["corr"] or r["spec"]:
                out["impl_at"] = {i: {k: v for k, v in impl[i].items()} for i in sorted({r["corr"]["index"]} if r["corr"] else set()) + [x[0] for x in r["spec"][:3]]}
            out["kinds"] = sorted({row["r"]["k"] for row in (tb or [])} | {"!buffer" for row in (tb or []) if not row["r"].get("buffer_ok", True)}) if tb else None
            out["nonnull"] = sum(1 for o in impl if o["answer"]["a"] not in ("none", "null"))
            out["pubs"] = sum(len(o["pubs"]) for o in impl)
            results.append(out)
        batch, metas = [], []

    def item(scn, seq, impl):
        evs = lsp.model_events(root, seq, scn)
        return {"events": evs, "impl": impl, "_uris": [e["u"] for e in evs if "u" in e] + [c for e in evs for c in e.get("changes", [])]}

    for sid, k, seq in sorted(seqs, key=lambda x: x[1]) if shared_table else seqs:
        scn = scns[k]
        if shared_table:
            if batch_k is not None and k != batch_k:
                flush()
            batch_k = k
            table_of(k)
            impl = lsp.run_sequence(root, scn, seq)
            batch.append((item(scn, seq, impl), None))
            metas.append((sid, seq, impl, None))
        else:
            tb = lsp.front_table(root, scn, seq)
            impl = lsp.run_sequence(root, scn, seq)
            batch.append((item(scn, seq, impl), tb))
            metas.append((sid, seq, impl, tb))
        if len(batch) >= 200:
            flush()
    flush()
    kinds = []
    for k, table0 in tables.items():
        kinds += sorted({row["r"]["k"] + (":" + row["r"]["cls"] if row["r"].get("cls") else "") for row in table0})
        for row in table0:
            if not row["r"].get("buffer_ok", True):
                kinds.append("!buffer:" + str(k) + ":" + next((d for d in scns[k]["docs"] if lsp.uri_of(root, d, scns[k]) == row["u"]), "a") + ":" + str(row["t"]))
    return results, kinds


def evaluate(ctx, scns, seqs, shared_table, workers=14):
    """`seqs`: (id, index of the scenario in `scns`, events)"""
    import multiprocessing as mp
    if not seqs:
        return [], []
    lsp._shared_api()
    lsp._ls_module()
    # warm everything that is lazily initialised (ANTLR tables, pygls/lsprotocol converters) before forking
    warm = ctx.tmp / "warm"
    lsp.setup(warm)
    lsp.front_table(warm, {"texts": ["w = record { a: list<i8>; }\n"], "disk": {}}, [{"ev": "open", "u": "w", "t": 0}])
    lsp.run_sequence(warm, {"texts": ["w = record { a: list<i8>; }\n"], "disk": {}},
                     [{"ev": "open", "u": "w", "t": 0}, {"ev": "hover", "u": "w", "line": 0, "col": 16}, {"ev": "symbols", "u": "w", "hier": True}])
    workers = max(1, min(workers, len(seqs) // 4 or 1))
    chunks = [seqs[i::workers] for i in range(workers)]
    with mp.get_context("fork").Pool(workers) as pool:
        res = pool.map(_worker, [(str(ctx.tmp), i, scns, ch, shared_table) for i, ch in enumerate(chunks)])
    out, kinds = [], set()
    for r, k in res:
        out += r
        kinds |= set(k)
    return out, sorted(kinds)


WHAT = {
    "stale-diagnostics": "after an open/change nothing was published: the diagnostics of the previous text stay on screen",
    "wrong-diagnostics": "the publication after an open/change is not the front end's diagnostics for the current text",
    "handler-error": "a request/notification handler failed internally (exception swallowed and logged by error_logger)",
    "answer-not-from-current-text": "a hover/definition/documentSymbol answer differs from what the current text yields",
    "publication-on-close": "closing a document published diagnostics",
    "publication-on-query": "a query published diagnostics",
    "publication-on-save": "saving published diagnostics",
    "wrong-diagnostics-on-revalidation": "a publication triggered by a watched-files event is not the diagnostics of the document's current text",
}


def check_one(ctx, root, scn, s):
    tb = lsp.front_table(root, scn, s)
    impl = lsp.run_sequence(root, scn, s)
    r = ctx.driver.one({"op": "c18.check", "configUri": lsp.config_uri(root), "front": tb, "unq": lsp.model_unq(root, s, scn),
                        "items": [{"events": lsp.model_events(root, s, scn), "impl": impl}]})
    return tb, impl, r


def shrink(ctx, scn, seq, clause):
    """greedy removal of events while the same clause still fails (keeps well-formedness)"""
    root = ctx.tmp / "shrink"
    lsp.setup(root)

    def wellformed(s):
        o = set()
        for ev in s:
            if ev["ev"] == "open":
                if ev["u"] in o:
                    return False
                o.add(ev["u"])
            elif ev["ev"] == "change" and ev["u"] not in o:
                return False
            elif ev["ev"] == "close":
                if ev["u"] not in o:
                    return False
                o.discard(ev["u"])
        return True

    def fails(s):
        tb, impl, r = check_one(ctx, root, scn, s)
        return "error" not in r and any(c == clause for _, c in r["results"][0]["spec"]), impl
    cur = list(seq)
    # first the cheap big step: the failing event with the state-changing events before it, no other query
    last = cur[-1]
    cand = [e for e in cur[:-1] if e["ev"] not in ("hover", "definition", "symbols", "save")] + [last]
    if len(cand) < len(cur) and wellformed(cand) and fails(cand)[0]:
        cur = cand
    i = len(cur) - 2
    budget = 60
    while i >= 0 and budget > 0 and len(cur) <= 80:
        cand = cur[:i] + cur[i + 1:]
        budget -= 1
        if cand and wellformed(cand) and fails(cand)[0]:
            cur = cand
        i -= 1
    ok, impl = fails(cur)
    return cur, impl


def run(ctx):
    ctx.coverage["rule"] = ("event sequences over open/change/close/save/watched-files on 2 documents x 5 texts: all of depth <= 2 (quick; <= 4 thorough) under "
                            "every naming of the documents and files (plain; blanks, non-ASCII letters, #, %, +, & in file or directory names; names whose URI "
                            "percent-decodes to a sibling's URI; three URI spellings) plus a seeded sample of depth 3-4 rotating through the namings (thorough: "
                            "all of depth <= 4 plain, all of depth <= 3 under every naming), each followed by documentSymbol (both modes) and hover/definition "
                            "at every column of the reference lines; "
                            "random sequences (<= 60 events, 3 documents, imports between documents, disk changes, queries on open/closed/unknown documents), "
                            "rotating through the namings; distinct = distinct (naming, mutator sequence); non-trivial = at least two state-changing events")
    ctx.assumptions += [
        "protocol misuse that pygls itself rejects (change/close of a document that is not open, opening an open document) is outside the event alphabet",
        "generate_on_save is off; the configuration file does not exist (default configuration); code lenses are not queried",
        "the front end never ends in a non-ApplicationException (C06); if it does, the oracle says `crash` and the case is reported",
        "document URIs are well-formed `file:` URIs (reserved characters percent-encoded); `urllib.parse.unquote` is a parameter of the model",
    ]
    r = random.Random(f"{ctx.seed}/c18")
    named_ex = [apply_naming(EXH, nm) for nm in NAMINGS]
    named_rnd = [apply_naming(RND, nm) for nm in NAMINGS]
    # ---- exhaustive family
    plans = []      # (index of the naming, logical mutator sequence)
    if ctx.quick:
        base = all_sequences(EXH, 2)
        for k in range(len(NAMINGS)):
            plans += [(k, s) for s in base]
        seen = {json.dumps(s) for s in base}
        n = 0
        for i in range(ctx.n(1100, 0)):
            s = sample_sequence(EXH, random.Random(f"{ctx.seed}/c18/s/{i}"), 3 + i % 2)
            if json.dumps(s) not in seen:
                seen.add(json.dumps(s))
                plans.append(((n + ctx.seed) % len(NAMINGS), s))
                n += 1
    else:
        plans += [(0, s) for s in all_sequences(EXH, 4)]
        d3 = all_sequences(EXH, 3)
        for k in range(1, len(NAMINGS)):
            plans += [(k, s) for s in d3]
    import time
    t0 = time.time()
    bats = [{d: battery(scn, [d]) for d in scn["docs"]} for scn in named_ex]
    mini = {d: [{"ev": "symbols", "u": d, "hier": True}, {"ev": "symbols", "u": d, "hier": False},
                {"ev": "hover", "u": d, "line": 1, "col": 18}, {"ev": "definition", "u": d, "line": 1, "col": 18}] for d in EXH["docs"]}

    def with_battery(k, s):
        touched = {e["u"] for e in s if e["ev"] in ("open", "change", "close")}
        out = rename_seq(named_ex[k], s)
        for d in EXH["docs"]:
            out += bats[k][d] if d in touched else mini[d]   # a document the history never opened: a few probes (all must answer null)
        return out
    ex = [(i, k, with_battery(k, s)) for i, (k, s) in enumerate(plans)]
    res_ex, kinds = evaluate(ctx, named_ex, ex, shared_table=True)
    ctx.stats["exhaustive_sequences"] = len(ex)
    ctx.stats["battery_queries_per_document"] = {named_ex[k]["naming"]: {d: len(b) for d, b in bats[k].items()} for k in range(len(NAMINGS))}
    ctx.stats["t_exhaustive_s"] = round(time.time() - t0, 1)
    t0 = time.time()
    ctx.stats["front_kinds_exhaustive"] = [k for k in kinds if not k.startswith("!buffer")]
    # ---- random family
    rnd = []
    for i in range(ctx.n(160, 800)):
        rr = random.Random(f"{ctx.seed}/c18/r/{i}")
        s = random_sequence(rr, rr.choice([8, 20, 40, 60]))
        k = (i + ctx.seed) % len(NAMINGS)
        rnd.append((i, k, rename_seq(named_rnd[k], s) + final_battery(named_rnd[k], s)))
    res_rnd, _ = evaluate(ctx, named_rnd, rnd, shared_table=False)
    ctx.stats["random_sequences"] = len(rnd)
    ctx.stats["t_random_s"] = round(time.time() - t0, 1)

    breaks, reported = [], {}
    # the tie's own premise: what the front end is given for an open document is the editor buffer, not the file of the same name
    stale_input = [k for k in kinds if k.startswith("!buffer")] + (["!buffer:random"] if any("!buffer" in (r.get("kinds") or []) for r in res_rnd) else [])
    if stale_input:
        _, k, name, t = (stale_input[0].split(":") + ["0", "a", "0"])[:4]
        scn0 = named_ex[int(k) if k.isdigit() else 0]
        ctx.report("server:front-end-input-not-the-buffer", "the text handed to the front end for an open document is not the editor buffer (a file of the same name exists on disk)",
                   {"input": {"scenario": replay_scenario(scn0), "events": [{"ev": "open", "u": name or "a", "t": int(t) if t.isdigit() else 0}]},
                    "observed": stale_input[:5]})
    for fam, scns, items, results in (("exhaustive", named_ex, {i: (k, s) for i, k, s in ex}, res_ex), ("random", named_rnd, {i: (k, s) for i, k, s in rnd}, res_rnd)):
        for res in results:
            k, seq = items[res["sid"]]
            scn = scns[k]
            muts = [e for e in seq if e["ev"] in ("open", "change", "close", "watched", "save", "disk")]
            nq = len(seq) - len(muts)
            ctx.count(key=fam + scn["naming"] + json.dumps(muts if fam == "exhaustive" else res["sid"]), nontrivial=sum(1 for e in muts if e["ev"] in ("open", "change", "close")) >= 2,
                      sample={"family": fam, "naming": scn["naming"], "events": muts[:8], "queries": nq, "publications": res["pubs"], "non_null_answers": res["nonnull"]}, n=len(seq))
            ctx.stat(fam + "_publications", res["pubs"])
            ctx.stat(fam + "_non_null_answers", res["nonnull"])
            ctx.stat(fam + "_naming_" + scn["naming"])
            ctx.stat(fam + "_non_null_answers_naming_" + scn["naming"], res["nonnull"])
            ctx.stat(fam + "_publications_naming_" + scn["naming"], res["pubs"])
            for kk in res.get("kinds") or []:
                ctx.stat("front_kind_" + kk)
            if res["corr"]:
                breaks.append({"family": fam, "naming": scn["naming"], "events": muts, "at": res["corr"], "event": seq[res["corr"]["index"]]})
            clauses = []
            for i, c in res["spec"]:
                if c not in clauses:
                    clauses.append(c)
            for c in clauses:
                ctx.stat("spec_failed_" + c)
                ctx.stat("spec_failed_" + c + "_naming_" + scn["naming"])
                if reported.get(c, 0) >= 3:
                    continue
                reported[c] = reported.get(c, 0) + 1
                first = next(i for i, cc in res["spec"] if cc == c)
                # the shortest history that shows it: everything up to the first failing event, then shrunk
                small, impl = shrink(ctx, scn, seq[:first + 1], c)
                ctx.report("server:" + c, WHAT.get(c, c),
                           {"input": {"scenario": replay_scenario(scn), "events": small},
                            "uris": {d: lsp.uri_of(Path("/ws"), d, scn) for d in scn["docs"]},
                            "failing_event": small[-1] if small else None, "impl": impl[-1] if impl else None,
                            "found_in": {"family": fam, "naming": scn["naming"], "length": len(seq), "first_failing_index": first}})
    ctx.stats["correspondence_breaks"] = len(breaks)
    if breaks and not ctx.violations:
        ctx.report("correspondence", "language-server model and implementation disagree; the specification holds on every explored history",
                   {"correspondence": "c18.check (Sys/Lsp.lean step) vs the real handlers", "first": breaks[0], "count": len(breaks)}, no_failing_input=True)
    elif breaks:
        ctx.stats["correspondence_first"] = {k: breaks[0][k] for k in ("family", "naming", "event")}


def replay(ctx, body):
    inp = body["input"]
    scn = dict(inp["scenario"])
    root = ctx.tmp / "replay"
    lsp.setup(root)
    tb, impl, r = check_one(ctx, root, scn, inp["events"])
    buffer_ok = all(row["r"].get("buffer_ok", True) for row in tb)
    print(json.dumps({"impl_last": impl[-1] if impl else None, "check": r, "front_end_given_the_buffer": buffer_ok}, indent=1)[:3000])
    return "error" not in r and not r["results"][0]["spec"] and buffer_ok
