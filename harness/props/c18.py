"""C18 — language-server answers always reflect the current text of each document.

Tie: correspondence between the Lean model of the server's bookkeeping (`Sys/Lsp.lean`: workspace + ast/type_def/hover/dependency
caches, `validate` with the exception classes it distinguishes, `to_hover_cache`, the query handlers, didClose, didChangeWatchedFiles)
and the real handlers driven in-process: per event the publications (uri, severity, range), the request's answer and the
number of exceptions swallowed by `error_logger`. The front end is an oracle for both sides' reference: for the model the
result of the real `api.parse` on the same text (fresh context), so only the server's bookkeeping is compared.

Inputs: every well-formed event sequence of depth <= 4 over 2 documents x 5 texts (valid, syntax error, unknown type, duplicate
type, deprecated use; the second document imports files that exist on disk) plus save / watched-files events — exhaustively in
the thorough tier, all of depth <= 2 plus a seeded sample in quick — each followed by a query battery (documentSymbol in both
modes; hover and definition at every column of the lines that hold references, both boundaries of every span included);
and seeded random sequences of length <= 60 over 3 documents with imports between documents, files on disk changing, and
queries on open, closed and never-opened documents. Documents are never written to disk.

Specification on the implementation's observations (`c18.check` -> Lean `specCheck`): after open/change exactly one publication,
equal to `diagsOf (front (current text))`; queries answer what a cache-free server would answer from the current text
(`null` for a document that is not open); close/save/queries publish nothing; no handler logs an internal error.
"""
from __future__ import annotations

import json
import random
from pathlib import Path

import common
import lsp

LEAN_MODULE = "PydjinniModel.Props.C18"
THEOREMS = [
    "Pydjinni.Sys.Lsp.validate_publishes_current",
    "Pydjinni.Sys.Lsp.step_inv",
    "Pydjinni.Sys.Lsp.run_inv",
    "Pydjinni.Sys.Lsp.queries_pure",
    "Pydjinni.Sys.Lsp.close_drops_state",
    "Pydjinni.Sys.Lsp.no_internal_error",
    "Pydjinni.Sys.Lsp.lsp_refines_spec",
    "Pydjinni.Sys.Lsp.crash_leaves_stale_diagnostics",
    "Pydjinni.Sys.Lsp.hoverPinned_unopened_fails",
    "Pydjinni.Sys.Lsp.putCells_get",
]
LEVEL = "proof"
TRUSTED = ("pygls dispatch / transport and the asynchronous ordering of notifications are not modelled: handlers are called in-process, one at a time",
           "the front end is a parameter of the model; its results come from the real api.parse on the same text (C03-C06, C16 are about it)")

# ---- exhaustive family: two documents, five texts each --------------------------------------------------------------

DISK = {"lib.pydjinni": "# lib doc\nlibt = record { a: i8; }\n", "a.pydjinni": "disk_a = record { z: i8; }\n"}
TEXTS_A = [
    "# doc of foo\nfoo = record { x: i8; }\nbar = record { f: foo; g: list<foo>; }\n",          # valid
    "foo = record { x: i8 }\n",                                                                      # syntax error
    "# @deprecated\nold = enum { k; }\nr = record { x: nope; y: old; }\n",                          # unknown type (next to a deprecated use)
    "d = enum { p; }\nd = enum { q; }\n",                                                            # duplicate type
    "# @deprecated use bar\nold = enum { k; }\nr = record { f: old; g: map<string, old>; }\n",       # deprecated use
]
TEXTS_B = [
    '@import "lib.pydjinni"\nuse = record { f: libt; h: set<libt>; }\n',                             # valid, imports a file on disk
    '@import "lib.pydjinni"\nuse = record { f: libt }\n',                                            # syntax error
    '@import "a.pydjinni"\nuse = record { f: disk_a; g: gone; }\n',                                  # unknown type (+ depends on a's disk copy)
    'e = enum { p; }\n@import "a.pydjinni"\ne = enum { q; }\n',                                      # duplicate type
    '@import "a.pydjinni"\n# @deprecated\nold = record { z: disk_a; }\nuse = record { f: old; }\n',  # deprecated use
]
EXH = {"texts": TEXTS_A + TEXTS_B, "disk": DISK, "docs": {"a": [0, 1, 2, 3, 4], "b": [5, 6, 7, 8, 9]}}
EXTRA = [{"ev": "save", "u": "a"}, {"ev": "watched", "changes": ["lib.pydjinni"]}, {"ev": "watched", "changes": ["a.pydjinni"]},
         {"ev": "watched", "changes": ["<config>"]}]


def battery(scn, docs=None):
    out = []
    for d in (docs or scn["docs"]):
        texts = [scn["texts"][t] for t in scn["docs"][d]]
        nlines = max(t.count("\n") for t in texts)
        width = max(len(l) for t in texts for l in t.split("\n")) + 2
        out += [{"ev": "symbols", "u": d, "hier": True}, {"ev": "symbols", "u": d, "hier": False}]
        for line in range(nlines):
            if not any(":" in (t.split("\n") + [""] * nlines)[line] or "@import" in (t.split("\n") + [""] * nlines)[line] for t in texts):
                continue   # no text has a reference on this line
            for col in range(width):
                out.append({"ev": "hover", "u": d, "line": line, "col": col})
                out.append({"ev": "definition", "u": d, "line": line, "col": col})
    return out


def mutators(scn, open_docs):
    evs = []
    for d, ts in scn["docs"].items():
        if d in open_docs:
            evs += [{"ev": "change", "u": d, "t": t} for t in ts] + [{"ev": "close", "u": d}]
        else:
            evs += [{"ev": "open", "u": d, "t": t} for t in ts]
    return evs + EXTRA


def after(open_docs, ev):
    if ev["ev"] == "open":
        return open_docs | {ev["u"]}
    if ev["ev"] == "close":
        return open_docs - {ev["u"]}
    return open_docs


def all_sequences(scn, depth):
    out = []

    def go(prefix, open_docs):
        if prefix:
            out.append(list(prefix))
        if len(prefix) == depth:
            return
        for ev in mutators(scn, open_docs):
            prefix.append(ev)
            go(prefix, after(open_docs, ev))
            prefix.pop()
    go([], frozenset())
    return out


def sample_sequence(scn, r, depth):
    seq, open_docs = [], frozenset()
    for _ in range(depth):
        ev = r.choice(mutators(scn, open_docs))
        seq.append(ev)
        open_docs = after(open_docs, ev)
    return seq


# ---- random family: three documents, imports between them, disk changes ------------------------------------------------

RND_DISK0 = {"lib.pydjinni": "# lib doc\nlibt = record { a: i8; }\n", "a.pydjinni": "# disk a\nta = enum { k; }\n",
             "b.pydjinni": '@import "lib.pydjinni"\ntb = record { f: libt; }\n', "ext.yaml": None}
RND_DISK_POOL = {
    "lib.pydjinni": ["# lib doc\nlibt = record { a: i8; }\n", "# @deprecated gone soon\nlibt = enum { k; }\n", "libt = record { a: i8 }\n", None,
                     "other = enum { k; }\n"],
    "a.pydjinni": ["# disk a\nta = enum { k; }\n", "ta = enum { k; }\nta = enum { l; }\n", '@import "b.pydjinni"\nta = record { f: tb; }\n', None],
    "b.pydjinni": ['@import "lib.pydjinni"\ntb = record { f: libt; }\n', "tb = flags { x; y; }\n", '@import "a.pydjinni"\ntb = record { f: ta; }\n'],
}
RND_TEXTS = [
    "# doc of foo\nfoo = record { x: i8; }\nbar = record { f: foo; g: list<foo>; }\n",
    "foo = record { x: i8 }\n",
    "# @deprecated\nold = enum { k; }\nr = record { x: nope; y: list<nope>; z: old; }\n",
    "d = enum { p; }\nd = enum { q; }\n",
    "# @deprecated use bar\nold = enum { k; }\nr = record { f: old; g: map<string, old>; }\n",
    '@import "lib.pydjinni"\nuse = record { f: libt; h: set<libt>; }\n',
    '@import "a.pydjinni"\n@import "b.pydjinni"\nuse = record { f: ta; g: tb; }\n',
    '@import "b.pydjinni"\nx = interface { m(p: tb) -> list<\n  tb>; }\n',
    '@import "missing.pydjinni"\nx = enum { k; }\n',
    'namespace n.m {\n  # inner doc\n  inner = record { a: string; }\n}\nouter = record { f: n.m.inner; g: map<i32,\n list<n.m.inner>>; }\n',
    '@import "c.pydjinni"\nself = enum { k; }\n',
    'f = function (a: i32) -> bool;\ni = interface { cb(h: (x: i8) -> string); }\nlibt = enum { k; }\n@import "lib.pydjinni"\n',
    "",
    '@extern "ext.yaml"\nz = record { a: i8; }\n',
]
RND = {"texts": RND_TEXTS, "disk": RND_DISK0, "docs": {d: list(range(len(RND_TEXTS))) for d in ("a", "b", "c")}}


def random_sequence(r, length):
    scn = RND
    seq, open_docs, cur = [], {}, {}
    docs = list(scn["docs"])
    for _ in range(length):
        x = r.random()
        d = r.choice(docs)
        if x < 0.34:
            t = r.randrange(len(scn["texts"]))
            seq.append({"ev": "change" if d in open_docs else "open", "u": d, "t": t})
            open_docs[d] = t
        elif x < 0.42:
            if d in open_docs:
                seq.append({"ev": "close", "u": d})
                del open_docs[d]
        elif x < 0.72:
            text = scn["texts"][open_docs.get(d, r.randrange(len(scn["texts"])))]
            lines = text.split("\n")
            line = r.randrange(max(1, len(lines)))
            col = r.randrange(len(lines[line]) + 2) if line < len(lines) else 0
            seq.append({"ev": r.choice(["hover", "definition"]), "u": d, "line": line, "col": col})
        elif x < 0.80:
            seq.append({"ev": "symbols", "u": d, "hier": r.random() < 0.6})
        elif x < 0.89:
            seq.append({"ev": "watched", "changes": r.sample(["lib.pydjinni", "a.pydjinni", "b.pydjinni", "c.pydjinni", "<config>"], r.choice([1, 1, 2]))})
        elif x < 0.96:
            name = r.choice(list(RND_DISK_POOL))
            seq.append({"ev": "disk", "files": {name: r.choice(RND_DISK_POOL[name])}})
        else:
            seq.append({"ev": "save", "u": d})
    return seq


def final_battery(scn, seq):
    """hover/definition at every column of every line of the final text of each open document, symbols for all documents"""
    cur = {}
    for ev in seq:
        if ev["ev"] in ("open", "change"):
            cur[ev["u"]] = ev["t"]
        elif ev["ev"] == "close":
            cur.pop(ev["u"], None)
    out = []
    for d in scn["docs"]:
        out += [{"ev": "symbols", "u": d, "hier": True}, {"ev": "symbols", "u": d, "hier": False}]
        if d in cur:
            for line, l in enumerate(scn["texts"][cur[d]].split("\n")):
                for col in range(len(l) + 2):
                    out.append({"ev": "hover", "u": d, "line": line, "col": col})
                    out.append({"ev": "definition", "u": d, "line": line, "col": col})
        else:
            out += [{"ev": "hover", "u": d, "line": 1, "col": 3}, {"ev": "definition", "u": d, "line": 1, "col": 3}]
    return out


# ---- evaluation (worker processes) -------------------------------------------------------------------------------------

def _worker(args):
    base, idx, scn, seqs, shared_table = args
    root = Path(base) / f"ws{idx}"
    lsp.setup(root)
    drv = common.Driver()
    results = []
    table0 = None
    if shared_table:
        # no disk events in this family: one table for all sequences
        pairs = [{"ev": "open", "u": d, "t": t} for d, ts in scn["docs"].items() for t in ts]
        table0 = lsp.front_table(root, scn, pairs)
    batch, metas = [], []

    def flush():
        nonlocal batch, metas
        if not batch:
            return
        if shared_table:
            res = drv.batch([{"op": "c18.check", "configUri": lsp.config_uri(root), "front": table0, "items": batch}], timeout=3000)[0]
            if "error" in res:
                raise RuntimeError("driver: " + res["error"])
            rs = res["results"]
        else:
            res = drv.batch([{"op": "c18.check", "configUri": lsp.config_uri(root), "front": tb, "items": [it]} for tb, it in batch], timeout=3000)
            for x in res:
                if "error" in x:
                    raise RuntimeError("driver: " + x["error"])
            rs = [x["results"][0] for x in res]
        for (sid, seq, impl, tb), r in zip(metas, rs):
            out = {"sid": sid, "corr": r["corr"], "spec": r["spec"], "n": len(seq)}
            if r["corr"] or r["spec"]:
                out["impl_at"] = {i: {k: v for k, v in impl[i].items()} for i in sorted({r["corr"]["index"]} if r["corr"] else set()) + [x[0] for x in r["spec"][:3]]}
            out["kinds"] = sorted({row["r"]["k"] for row in (tb or [])} | {"!buffer" for row in (tb or []) if not row["r"].get("buffer_ok", True)}) if tb else None
            out["nonnull"] = sum(1 for o in impl if o["answer"]["a"] not in ("none", "null"))
            out["pubs"] = sum(len(o["pubs"]) for o in impl)
            results.append(out)
        batch, metas = [], []

    for sid, seq in seqs:
        if shared_table:
            impl = lsp.run_sequence(root, scn, seq)
            batch.append({"events": lsp.model_events(root, seq), "impl": impl})
            metas.append((sid, seq, impl, None))
        else:
            tb = lsp.front_table(root, scn, seq)
            impl = lsp.run_sequence(root, scn, seq)
            batch.append((tb, {"events": lsp.model_events(root, seq), "impl": impl}))
            metas.append((sid, seq, impl, tb))
        if len(batch) >= 200:
            flush()
    flush()
    kinds = sorted({row["r"]["k"] + (":" + row["r"]["cls"] if row["r"].get("cls") else "") for row in (table0 or [])})
    for row in (table0 or []):
        if not row["r"].get("buffer_ok", True):
            kinds.append("!buffer:" + row["u"].rsplit("/", 1)[-1] + ":" + str(row["t"]))
    return results, kinds


def evaluate(ctx, scn, seqs, shared_table, workers=14):
    import multiprocessing as mp
    if not seqs:
        return [], []
    lsp._shared_api()
    lsp._ls_module()
    # warm everything that is lazily initialised (ANTLR tables, pygls/lsprotocol converters) before forking
    warm = ctx.tmp / "warm"
    lsp.setup(warm)
    lsp.front_table(warm, {"texts": ["w = record { a: list<i8>; }\n"], "disk": {}}, [{"ev": "open", "u": "w", "t": 0}])
    lsp.run_sequence(warm, {"texts": ["w = record { a: list<i8>; }\n"], "disk": {}},
                     [{"ev": "open", "u": "w", "t": 0}, {"ev": "hover", "u": "w", "line": 0, "col": 16}, {"ev": "symbols", "u": "w", "hier": True}])
    workers = max(1, min(workers, len(seqs) // 4 or 1))
    chunks = [seqs[i::workers] for i in range(workers)]
    with mp.get_context("fork").Pool(workers) as pool:
        res = pool.map(_worker, [(str(ctx.tmp), i, scn, ch, shared_table) for i, ch in enumerate(chunks)])
    out, kinds = [], set()
    for r, k in res:
        out += r
        kinds |= set(k)
    return out, sorted(kinds)


WHAT = {
    "stale-diagnostics": "after an open/change nothing was published: the diagnostics of the previous text stay on screen",
    "wrong-diagnostics": "the publication after an open/change is not the front end's diagnostics for the current text",
    "handler-error": "a request/notification handler failed internally (exception swallowed and logged by error_logger)",
    "answer-not-from-current-text": "a hover/definition/documentSymbol answer differs from what the current text yields",
    "publication-on-close": "closing a document published diagnostics",
    "publication-on-query": "a query published diagnostics",
    "publication-on-save": "saving published diagnostics",
    "wrong-diagnostics-on-revalidation": "a publication triggered by a watched-files event is not the diagnostics of the document's current text",
}


def shrink(ctx, scn, seq, clause):
    """greedy removal of events while the same clause still fails (keeps well-formedness)"""
    root = ctx.tmp / "shrink"
    lsp.setup(root)

    def wellformed(s):
        o = set()
        for ev in s:
            if ev["ev"] == "open":
                if ev["u"] in o:
                    return False
                o.add(ev["u"])
            elif ev["ev"] == "change" and ev["u"] not in o:
                return False
            elif ev["ev"] == "close":
                if ev["u"] not in o:
                    return False
                o.discard(ev["u"])
        return True

    def fails(s):
        tb = lsp.front_table(root, scn, s)
        impl = lsp.run_sequence(root, scn, s)
        r = ctx.driver.one({"op": "c18.check", "configUri": lsp.config_uri(root), "front": tb, "items": [{"events": lsp.model_events(root, s), "impl": impl}]})
        return "error" not in r and any(c == clause for _, c in r["results"][0]["spec"]), impl
    cur = list(seq)
    # first the cheap big step: the failing event with the state-changing events before it, no other query
    last = cur[-1]
    cand = [e for e in cur[:-1] if e["ev"] not in ("hover", "definition", "symbols", "save")] + [last]
    if len(cand) < len(cur) and wellformed(cand) and fails(cand)[0]:
        cur = cand
    i = len(cur) - 2
    budget = 60
    while i >= 0 and budget > 0 and len(cur) <= 80:
        cand = cur[:i] + cur[i + 1:]
        budget -= 1
        if cand and wellformed(cand) and fails(cand)[0]:
            cur = cand
        i -= 1
    ok, impl = fails(cur)
    return cur, impl


def run(ctx):
    ctx.coverage["rule"] = ("event sequences over open/change/close/save/watched-files on 2 documents x 5 texts: all of depth <= 2 (quick; <= 4 thorough) plus a "
                            "seeded sample of depth 3-4, each followed by documentSymbol (both modes) and hover/definition at every column of the reference lines; "
                            "random sequences (<= 60 events, 3 documents, imports between documents, disk changes, queries on open/closed/unknown documents); "
                            "distinct = distinct mutator sequence; non-trivial = at least two state-changing events")
    ctx.assumptions += [
        "protocol misuse that pygls itself rejects (change/close of a document that is not open, opening an open document) is outside the event alphabet",
        "generate_on_save is off; the configuration file does not exist (default configuration); code lenses are not queried",
        "the front end never ends in a non-ApplicationException (C06); if it does, the oracle says `crash` and the case is reported",
    ]
    r = random.Random(f"{ctx.seed}/c18")
    # ---- exhaustive family
    if ctx.quick:
        seqs = all_sequences(EXH, 2)
        seen = {json.dumps(s) for s in seqs}
        for i in range(ctx.n(1100, 0)):
            s = sample_sequence(EXH, random.Random(f"{ctx.seed}/c18/s/{i}"), 3 + i % 2)
            if json.dumps(s) not in seen:
                seen.add(json.dumps(s))
                seqs.append(s)
    else:
        seqs = all_sequences(EXH, 4)
    import time
    t0 = time.time()
    bats = {d: battery(EXH, [d]) for d in EXH["docs"]}
    mini = {d: [{"ev": "symbols", "u": d, "hier": True}, {"ev": "symbols", "u": d, "hier": False},
                {"ev": "hover", "u": d, "line": 1, "col": 18}, {"ev": "definition", "u": d, "line": 1, "col": 18}] for d in EXH["docs"]}

    def with_battery(s):
        touched = {e["u"] for e in s if e["ev"] in ("open", "change", "close")}
        out = list(s)
        for d in EXH["docs"]:
            out += bats[d] if d in touched else mini[d]   # a document the history never opened: a few probes (all must answer null)
        return out
    ex = [(i, with_battery(s)) for i, s in enumerate(seqs)]
    res_ex, kinds = evaluate(ctx, EXH, ex, shared_table=True)
    ctx.stats["exhaustive_sequences"] = len(ex)
    ctx.stats["battery_queries_per_document"] = {d: len(b) for d, b in bats.items()}
    ctx.stats["t_exhaustive_s"] = round(time.time() - t0, 1)
    t0 = time.time()
    ctx.stats["front_kinds_exhaustive"] = kinds
    # ---- random family
    rnd = []
    for i in range(ctx.n(120, 800)):
        rr = random.Random(f"{ctx.seed}/c18/r/{i}")
        s = random_sequence(rr, rr.choice([8, 20, 40, 60]))
        rnd.append((i, s + final_battery(RND, s)))
    res_rnd, _ = evaluate(ctx, RND, rnd, shared_table=False)
    ctx.stats["random_sequences"] = len(rnd)
    ctx.stats["t_random_s"] = round(time.time() - t0, 1)

    breaks, reported = [], {}
    # the tie's own premise: what the front end is given for an open document is the editor buffer, not the file of the same name
    stale_input = [k for k in kinds if k.startswith("!buffer")] + (["!buffer:random"] if any("!buffer" in (r.get("kinds") or []) for r in res_rnd) else [])
    if stale_input:
        name, t = (stale_input[0].split(":") + ["", ""])[1:3]
        ctx.report("server:front-end-input-not-the-buffer", "the text handed to the front end for an open document is not the editor buffer (a file of the same name exists on disk)",
                   {"input": {"scenario": {"texts": EXH["texts"], "disk": EXH["disk"]}, "events": [{"ev": "open", "u": name.replace(".pydjinni", "") or "a", "t": int(t) if t.isdigit() else 0}]},
                    "observed": stale_input[:5]})
    for fam, scn, items, results in (("exhaustive", EXH, dict(ex), res_ex), ("random", RND, dict(rnd), res_rnd)):
        for res in results:
            seq = items[res["sid"]]
            muts = [e for e in seq if e["ev"] in ("open", "change", "close", "watched", "save", "disk")]
            nq = len(seq) - len(muts)
            ctx.count(key=fam + json.dumps(muts if fam == "exhaustive" else res["sid"]), nontrivial=sum(1 for e in muts if e["ev"] in ("open", "change", "close")) >= 2,
                      sample={"family": fam, "events": muts[:8], "queries": nq, "publications": res["pubs"], "non_null_answers": res["nonnull"]}, n=len(seq))
            ctx.stat(fam + "_publications", res["pubs"])
            ctx.stat(fam + "_non_null_answers", res["nonnull"])
            for k in res.get("kinds") or []:
                ctx.stat("front_kind_" + k)
            if res["corr"]:
                breaks.append({"family": fam, "events": muts, "at": res["corr"], "event": seq[res["corr"]["index"]]})
            clauses = []
            for i, c in res["spec"]:
                if c not in clauses:
                    clauses.append(c)
            for c in clauses:
                ctx.stat("spec_failed_" + c)
                if reported.get(c, 0) >= 3:
                    continue
                reported[c] = reported.get(c, 0) + 1
                first = next(i for i, cc in res["spec"] if cc == c)
                # the shortest history that shows it: everything up to the first failing event, then shrunk
                small, impl = shrink(ctx, scn, seq[:first + 1], c)
                ctx.report("server:" + c, WHAT.get(c, c),
                           {"input": {"scenario": {"texts": scn["texts"], "disk": scn["disk"]}, "events": small},
                            "failing_event": small[-1] if small else None, "impl": impl[-1] if impl else None,
                            "found_in": {"family": fam, "length": len(seq), "first_failing_index": first}})
    ctx.stats["correspondence_breaks"] = len(breaks)
    if breaks and not ctx.violations:
        ctx.report("correspondence", "language-server model and implementation disagree; the specification holds on every explored history",
                   {"correspondence": "c18.check (Sys/Lsp.lean step) vs the real handlers", "first": breaks[0], "count": len(breaks)}, no_failing_input=True)
    elif breaks:
        ctx.stats["correspondence_first"] = {k: breaks[0][k] for k in ("family", "event")}


def replay(ctx, body):
    inp = body["input"]
    scn = {"texts": inp["scenario"]["texts"], "disk": inp["scenario"]["disk"]}
    root = ctx.tmp / "replay"
    lsp.setup(root)
    tb = lsp.front_table(root, scn, inp["events"])
    impl = lsp.run_sequence(root, scn, inp["events"])
    r = ctx.driver.one({"op": "c18.check", "configUri": lsp.config_uri(root), "front": tb,
                        "items": [{"events": lsp.model_events(root, inp["events"]), "impl": impl}]})
    buffer_ok = all(row["r"].get("buffer_ok", True) for row in tb)
    print(json.dumps({"impl_last": impl[-1] if impl else None, "check": r, "front_end_given_the_buffer": buffer_ok}, indent=1)[:3000])
    return "error" not in r and not r["results"][0]["spec"] and buffer_ok
