"""C18 — language-server answers always reflect the current text of each document.

Tie: correspondence between the Lean model of the server's bookkeeping (`Sys/Lsp.lean`: workspace + ast/type_def/hover/dependency
caches, `validate` with the exception classes it distinguishes, `to_hover_cache`, the query handlers, didClose, didChangeWatchedFiles)
and the real handlers driven in-process: per event the publications (uri, severity, range), the request's answer and the
number of exceptions swallowed by `error_logger`. The front end is an oracle for both sides' reference: for the model the
result of the real `api.parse` on the same text (fresh context), so only the server's bookkeeping is compared.

Inputs: every well-formed event sequence of depth <= 4 over 2 documents x 5 texts (valid, syntax error, unknown type, duplicate
type, deprecated use; the second document imports files that exist on disk) plus save / watched-files events — exhaustively in
the thorough tier, all of depth <= 2 plus a seeded sample in quick — each followed by a query battery (documentSymbol in both
modes; hover and definition at every column of the lines that hold references, both boundaries of every span included);
and seeded random sequences of length <= 60 over 3 documents with imports between documents, files on disk changing, and
queries on open, closed and never-opened documents. Documents are never written to disk.
Every family runs under a set of *namings* of its documents and disk files (`NAMINGS`): plain ASCII names, and names a client has to
percent-encode in the document URI — blanks, non-ASCII letters, `#`, `%`, `+`, `&`, a directory with such a name, names whose URI
percent-decodes to the URI of another document of the scenario — in three URI spellings (`Path.as_uri()`-style, lower-case hex,
minimal encoding). All depth <= 2 histories run under every naming; the sampled and the random ones rotate through them.

A *deprecation* family: one document shape with every kind of symbol (namespace, record, enum, flags, error domain, named function,
interface with static / plain method, property, callback) in which every declaration that can carry a comment has none / a doc comment /
`@deprecated` / `@deprecated <reason>` / both — all (spot, form) pairs occur —, toggled through didChange (every ordered triple of the
uniform texts, seeded walks over the pool on two documents), documentSymbol in both client modes after every step. A *half-typed* family:
valid documents with a junk / incomplete declaration inserted (the parser's recovered tree), typed into an open document and repaired.
`corpus/c18.json` (classes of inputs that were blind spots once) runs first.
The symbols the current text has to yield are stated in `lsp.expected_symbol` / `expected_flat_kind` / `is_deprecated` from the front end's
AST — never through `pydjinni_language_server.util` —: every returned symbol, children included, is compared in name, kind, ranges, detail,
`deprecated` (absent on fields / items / flags / error codes / parameters: the server lists them without it) and `tags`.
Which file a declaration / definition / import belongs to is stated by the harness too (`lsp.oracle.file_uri`): an editor buffer is the URI
its client sent, byte for byte, a disk file is pathlib's spelling — never `TextDocumentPath.as_uri()`, the server's own code (with it the
expectation followed any re-spelling of the URI there: under the namings `lower-hex` / `minimal-encoding` both sides dropped every declaration
and agreed on `[]`). So under EVERY naming documentSymbol of a valid text has to list exactly its top-level declarations.

Specification on the implementation's observations (`c18.check` -> Lean `specCheck`): after open/change exactly one publication,
equal to `diagsOf (front (current text))`; queries answer what a cache-free server would answer from the current text
(`null` for a document that is not open); close/save/queries publish nothing; no handler logs an internal error.
"""
from __future__ import annotations

import json
import random
from pathlib import Path

import common
import lsp

LEAN_MODULE = "PydjinniModel.Props.C18"
THEOREMS = [
    "Pydjinni.Sys.Lsp.validate_publishes_current",
    "Pydjinni.Sys.Lsp.step_inv",
    "Pydjinni.Sys.Lsp.run_inv",
    "Pydjinni.Sys.Lsp.queries_pure",
    "Pydjinni.Sys.Lsp.close_drops_state",
    "Pydjinni.Sys.Lsp.close_keeps_others",
    "Pydjinni.Sys.Lsp.no_internal_error",
    "Pydjinni.Sys.Lsp.lsp_refines_spec",
    "Pydjinni.Sys.Lsp.crash_leaves_stale_diagnostics",
    "Pydjinni.Sys.Lsp.hoverPinned_unopened_fails",
    "Pydjinni.Sys.Lsp.putCells_get",
]
LEVEL = "proof"
TRUSTED = ("pygls dispatch / transport and the asynchronous ordering of notifications are not modelled: handlers are called in-process, one at a time",
           "the front end is a parameter of the model; its results come from the real api.parse on the same text (C03-C06, C16 are about it)")

# ---- exhaustive family: two documents, five texts each --------------------------------------------------------------

DISK = {"lib.pydjinni": "# lib doc\nlibt = record { a: i8; }\n", "a.pydjinni": "disk_a = record { z: i8; }\n"}
TEXTS_A = [
    "# doc of foo\nfoo = record { x: i8; }\nbar = record { f: foo; g: list<foo>; }\n",          # valid
    "foo = record { x: i8 }\n",                                                                      # syntax error
    "# @deprecated\nold = enum { k; }\nr = record { x: nope; y: old; }\n",                          # unknown type (next to a deprecated use)
    "d = enum { p; }\nd = enum { q; }\n",                                                            # duplicate type
    "# @deprecated use bar\nold = enum { k; }\nr = record { f: old; g: map<string, old>; }\n",       # deprecated use
]
TEXTS_B = [
    '@import "lib.pydjinni"\nuse = record { f: libt; h: set<libt>; }\n',                             # valid, imports a file on disk
    '@import "lib.pydjinni"\nuse = record { f: libt }\n',                                            # syntax error
    '@import "a.pydjinni"\nuse = record { f: disk_a; g: gone; }\n',                                  # unknown type (+ depends on a's disk copy)
    'e = enum { p; }\n@import "a.pydjinni"\ne = enum { q; }\n',                                      # duplicate type
    '@import "a.pydjinni"\n# @deprecated\nold = record { z: disk_a; }\nuse = record { f: old; }\n',  # deprecated use
]
EXH = {"texts": TEXTS_A + TEXTS_B, "disk": DISK, "docs": {"a": [0, 1, 2, 3, 4], "b": [5, 6, 7, 8, 9]}}
EXTRA = [{"ev": "save", "u": "a"}, {"ev": "watched", "changes": ["lib.pydjinni"]}, {"ev": "watched", "changes": ["a.pydjinni"]},
         {"ev": "watched", "changes": ["<config>"]}]


# ---- namings: the same scenario with other file names / URI spellings -----------------------------------------------------------
# stems of the documents (a, b, c) and of the disk files (lib, missing, ext; `a.pydjinni` is the disk copy of document a, ...).
# A URI is an opaque key for the server: nothing it does may depend on how the client spelled it.
NAMINGS = [
    {"id": "plain", "style": "py", "stems": {}},
    {"id": "blank", "style": "py", "stems": {"a": "my a", "b": "b  two", "c": "c d", "lib": "my lib", "ext": "ext file"}},
    {"id": "non-ascii", "style": "py", "stems": {"a": "grüße", "b": "bär", "c": "çé日本", "lib": "bibliothèque", "missing": "fehlt ö"}},
    {"id": "reserved", "style": "py", "stems": {"a": "a#1", "b": "50%+b", "c": "c&d=e;f", "lib": "lib+x#y", "ext": "e%t"}},
    # the URI of `b` percent-decodes to the URI of `a`, that of `c` to the URI of `b`
    {"id": "decodes-to-sibling", "style": "py", "stems": {"a": "a b", "b": "a%20b", "c": "a%2520b", "lib": "lib%41"}},
    {"id": "lower-hex", "style": "lower", "stems": {"a": "my ä", "b": "b#ü", "c": "c d", "lib": "my lib"}},
    {"id": "minimal-encoding", "style": "min", "stems": {"a": "ü a", "b": "b+ß", "c": "c%d", "lib": "lib é"}},
    {"id": "directory", "style": "py", "stems": {"a": "d ü/a", "b": "d ü/b", "c": "d ü/c", "lib": "d ü/lib", "missing": "d ü/missing", "ext": "d ü/ext"}},
]


_IMPORT_LITERAL = None


def actual_name(stems, logical):
    stem, dot, ext = logical.rpartition(".")
    return stems.get(stem, stem) + dot + ext


def retext(stems, t):
    """import literals name the file relative to the importing file: all files of a naming share one directory"""
    global _IMPORT_LITERAL
    if _IMPORT_LITERAL is None:
        import re
        _IMPORT_LITERAL = re.compile(r'"([a-z]+\.(?:pydjinni|yaml))"')
    return None if t is None else _IMPORT_LITERAL.sub(lambda m: '"' + actual_name(stems, m.group(1)).rsplit("/", 1)[-1] + '"', t)


def apply_naming(scn, naming):
    """the scenario with its documents and files renamed: texts and disk contents import the new names"""
    stems = naming["stems"]
    return {"texts": [retext(stems, t) for t in scn["texts"]], "disk": {actual_name(stems, f): retext(stems, c) for f, c in scn["disk"].items()},
            "docs": scn["docs"], "names": {d: stems.get(d, d) for d in scn["docs"]}, "style": naming["style"], "naming": naming["id"], "stems": stems}


def rename_seq(named, seq):
    """disk and watched-files events of a history written in the family's logical file names, in the naming's names"""
    stems, out = named["stems"], []
    for ev in seq:
        if ev["ev"] == "disk":
            ev = {"ev": "disk", "files": {actual_name(stems, f): retext(stems, c) for f, c in ev["files"].items()}}
        elif ev["ev"] == "watched":
            ev = {"ev": "watched", "changes": [c if c == "<config>" else actual_name(stems, c) for c in ev["changes"]]}
        out.append(ev)
    return out


def replay_scenario(scn):
    return {k: scn[k] for k in ("texts", "disk", "names", "style", "naming") if k in scn}


def battery(scn, docs=None):
    out = []
    for d in (docs or scn["docs"]):
        texts = [scn["texts"][t] for t in scn["docs"][d]]
        nlines = max(t.count("\n") for t in texts)
        width = max(len(l) for t in texts for l in t.split("\n")) + 2
        out += [{"ev": "symbols", "u": d, "hier": True}, {"ev": "symbols", "u": d, "hier": False}]
        for line in range(nlines):
            if not any(":" in (t.split("\n") + [""] * nlines)[line] or "@import" in (t.split("\n") + [""] * nlines)[line] for t in texts):
                continue   # no text has a reference on this line
            for col in range(width):
                out.append({"ev": "hover", "u": d, "line": line, "col": col})
                out.append({"ev": "definition", "u": d, "line": line, "col": col})
    return out


def mutators(scn, open_docs):
    evs = []
    for d, ts in scn["docs"].items():
        if d in open_docs:
            evs += [{"ev": "change", "u": d, "t": t} for t in ts] + [{"ev": "close", "u": d}]
        else:
            evs += [{"ev": "open", "u": d, "t": t} for t in ts]
    return evs + EXTRA


def after(open_docs, ev):
    if ev["ev"] == "open":
        return open_docs | {ev["u"]}
    if ev["ev"] == "close":
        return open_docs - {ev["u"]}
    return open_docs


def all_sequences(scn, depth):
    out = []

    def go(prefix, open_docs):
        if prefix:
            out.append(list(prefix))
        if len(prefix) == depth:
            return
        for ev in mutators(scn, open_docs):
            prefix.append(ev)
            go(prefix, after(open_docs, ev))
            prefix.pop()
    go([], frozenset())
    return out


def sample_sequence(scn, r, depth):
    seq, open_docs = [], frozenset()
    for _ in range(depth):
        ev = r.choice(mutators(scn, open_docs))
        seq.append(ev)
        open_docs = after(open_docs, ev)
    return seq


# ---- random family: three documents, imports between them, disk changes ------------------------------------------------

RND_DISK0 = {"lib.pydjinni": "# lib doc\nlibt = record { a: i8; }\n", "a.pydjinni": "# disk a\nta = enum { k; }\n",
             "b.pydjinni": '@import "lib.pydjinni"\ntb = record { f: libt; }\n', "ext.yaml": None}
RND_DISK_POOL = {
    "lib.pydjinni": ["# lib doc\nlibt = record { a: i8; }\n", "# @deprecated gone soon\nlibt = enum { k; }\n", "libt = record { a: i8 }\n", None,
                     "other = enum { k; }\n"],
    "a.pydjinni": ["# disk a\nta = enum { k; }\n", "ta = enum { k; }\nta = enum { l; }\n", '@import "b.pydjinni"\nta = record { f: tb; }\n', None],
    "b.pydjinni": ['@import "lib.pydjinni"\ntb = record { f: libt; }\n', "tb = flags { x; y; }\n", '@import "a.pydjinni"\ntb = record { f: ta; }\n'],
}
RND_TEXTS = [
    "# doc of foo\nfoo = record { x: i8; }\nbar = record { f: foo; g: list<foo>; }\n",
    "foo = record { x: i8 }\n",
    "# @deprecated\nold = enum { k; }\nr = record { x: nope; y: list<nope>; z: old; }\n",
    "d = enum { p; }\nd = enum { q; }\n",
    "# @deprecated use bar\nold = enum { k; }\nr = record { f: old; g: map<string, old>; }\n",
    '@import "lib.pydjinni"\nuse = record { f: libt; h: set<libt>; }\n',
    '@import "a.pydjinni"\n@import "b.pydjinni"\nuse = record { f: ta; g: tb; }\n',
    '@import "b.pydjinni"\nx = interface { m(p: tb) -> list<\n  tb>; }\n',
    '@import "missing.pydjinni"\nx = enum { k; }\n',
    'namespace n.m {\n  # inner doc\n  inner = record { a: string; }\n}\nouter = record { f: n.m.inner; g: map<i32,\n list<n.m.inner>>; }\n',
    '@import "c.pydjinni"\nself = enum { k; }\n',
    'f = function (a: i32) -> bool;\ni = interface { cb(h: (x: i8) -> string); }\nlibt = enum { k; }\n@import "lib.pydjinni"\n',
    "",
    '@extern "ext.yaml"\nz = record { a: i8; }\n',
]
RND = {"texts": RND_TEXTS, "disk": RND_DISK0, "docs": {d: list(range(len(RND_TEXTS))) for d in ("a", "b", "c")}}


def random_sequence(r, length):
    scn = RND
    seq, open_docs, cur = [], {}, {}
    docs = list(scn["docs"])
    for _ in range(length):
        x = r.random()
        d = r.choice(docs)
        if x < 0.34:
            t = r.randrange(len(scn["texts"]))
            seq.append({"ev": "change" if d in open_docs else "open", "u": d, "t": t})
            open_docs[d] = t
        elif x < 0.42:
            if d in open_docs:
                seq.append({"ev": "close", "u": d})
                del open_docs[d]
        elif x < 0.72:
            text = scn["texts"][open_docs.get(d, r.randrange(len(scn["texts"])))]
            lines = text.split("\n")
            line = r.randrange(max(1, len(lines)))
            col = r.randrange(len(lines[line]) + 2) if line < len(lines) else 0
            seq.append({"ev": r.choice(["hover", "definition"]), "u": d, "line": line, "col": col})
        elif x < 0.80:
            seq.append({"ev": "symbols", "u": d, "hier": r.random() < 0.6})
        elif x < 0.89:
            seq.append({"ev": "watched", "changes": r.sample(["lib.pydjinni", "a.pydjinni", "b.pydjinni", "c.pydjinni", "<config>"], r.choice([1, 1, 2]))})
        elif x < 0.96:
            name = r.choice(list(RND_DISK_POOL))
            seq.append({"ev": "disk", "files": {name: r.choice(RND_DISK_POOL[name])}})
        else:
            seq.append({"ev": "save", "u": d})
    return seq


def final_battery(scn, seq):
    """hover/definition at every column of every line of the final text of each open document, symbols for all documents"""
    cur = {}
    for ev in seq:
        if ev["ev"] in ("open", "change"):
            cur[ev["u"]] = ev["t"]
        elif ev["ev"] == "close":
            cur.pop(ev["u"], None)
    out = []
    for d in scn["docs"]:
        out += [{"ev": "symbols", "u": d, "hier": True}, {"ev": "symbols", "u": d, "hier": False}]
        if d in cur:
            for line, l in enumerate(scn["texts"][cur[d]].split("\n")):
                for col in range(len(l) + 2):
                    out.append({"ev": "hover", "u": d, "line": line, "col": col})
                    out.append({"ev": "definition", "u": d, "line": line, "col": col})
        else:
            out += [{"ev": "hover", "u": d, "line": 1, "col": 3}, {"ev": "definition", "u": d, "line": 1, "col": 3}]
    return out


# ---- deprecation family: every kind of symbol, every declaration that can carry a comment, with / without `@deprecated [reason]` ----
# One document shape with a namespace, a record, an enum, flags, an error domain, a named function and an interface (static / plain
# method, a property, a callback parameter) and a record that uses them; every declaration the grammar gives a `comment?` is a *spot*
# whose comment takes one of the forms below. The symbol requests (hierarchical `DocumentSymbol` with children, flat `SymbolInformation`)
# must report the `deprecated` attribute / `tags` of EVERY symbol as the current text has it — bare `@deprecated` (front end: True) and
# `@deprecated <reason>` (front end: the reason text) alike — after every open / change that toggles a spot between the forms.
DEP_SPOTS = ["ns", "inner", "inner.a", "rec", "rec.f", "rec.g", "en", "en.k", "en.l", "fl", "fl.a", "fl.b", "fl.c", "err", "err.c1", "err.c2",
             "fn", "itf", "itf.m1", "itf.m2", "itf.pr", "use", "use.a"]
DEP_FORMS = {
    "none": lambda w: [],
    "doc": lambda w: [f"# about {w}"],
    "bare": lambda w: ["# @deprecated"],
    "reason": lambda w: [f"# @deprecated use new_{w.replace('.', '_')} instead"],
    "doc+bare": lambda w: [f"# about {w}", "# @deprecated"],
    "doc+reason": lambda w: [f"# about {w},", "# second line", f"# @deprecated since 2.0: {w} goes away"],
    "reason+doc": lambda w: ["# @deprecated: no longer needed", "#", f"# {w} was once useful"],
}
DEP_FORM_NAMES = list(DEP_FORMS)


def dep_text(st):
    """the document with the comment form `st[spot]` (default: none) in front of every declaration"""
    def c(spot, ind=""):
        return "".join(ind + l + "\n" for l in DEP_FORMS[st.get(spot, "none")](spot))
    return (c("ns") + "namespace n.m {\n" + c("inner", "  ") + "  inner = record {\n" + c("inner.a", "    ") + "    a: string;\n  }\n}\n"
            + c("rec") + "rec = record {\n" + c("rec.f", "  ") + "  f: i8;\n" + c("rec.g", "  ") + "  g: n.m.inner;\n}\n"
            + c("en") + "en = enum {\n" + c("en.k", "  ") + "  k;\n" + c("en.l", "  ") + "  l;\n}\n"
            + c("fl") + "fl = flags {\n" + c("fl.a", "  ") + "  a;\n" + c("fl.b", "  ") + "  b = all;\n" + c("fl.c", "  ") + "  c = none;\n}\n"
            + c("err") + "err = error {\n" + c("err.c1", "  ") + "  c1(p: i8 q: rec);\n" + c("err.c2", "  ") + "  c2;\n}\n"
            + c("fn") + "fn = function (a: i32) -> en;\n"
            + c("itf") + "itf = main interface +cpp {\n" + c("itf.m1", "  ") + "  static m1(p: rec) -> en;\n"
            + c("itf.m2", "  ") + "  m2(cb: (x: fl) -> string) throws err;\n" + c("itf.pr", "  ") + "  property pr: i8;\n}\n"
            + c("use") + "use = record {\n" + c("use.a", "  ") + "  a: rec; b: en; c: fl; d: fn; f: list<n.m.inner>;\n}\n")


def dep_scenario(seed, n_random):
    """texts 0-3: no comment at all / every spot bare / every spot with a reason / every spot documented but not deprecated;
    then seeded texts: each spot draws its form; every (spot, form) pair occurs in some text of the pool (round-robin base + shuffle)"""
    states = [{}, {w: "bare" for w in DEP_SPOTS}, {w: "reason" for w in DEP_SPOTS}, {w: "doc" for w in DEP_SPOTS}]
    for i in range(n_random):
        r = random.Random(f"{seed}/c18/dep/text/{i}")
        if i < len(DEP_FORM_NAMES):     # latin-square rows: spot j gets form (i + j) mod 7 -> every (spot, form) pair within the first 7 texts
            states.append({w: DEP_FORM_NAMES[(i + j) % len(DEP_FORM_NAMES)] for j, w in enumerate(DEP_SPOTS)})
        else:
            states.append({w: r.choice(DEP_FORM_NAMES) for w in DEP_SPOTS if r.random() < 0.8})
    texts = [dep_text(st) for st in states]
    return {"texts": texts, "disk": {"a.pydjinni": "disk_a = record { z: i8; }\n"}, "docs": {"a": list(range(len(texts))), "b": list(range(len(texts)))}}, states


def dep_queries(d):
    return [{"ev": "symbols", "u": d, "hier": True}, {"ev": "symbols", "u": d, "hier": False}]


def dep_toggles(n_texts):
    """every ordered triple of the four uniform texts (open i, change j, change k) on one document, symbols in both modes after each step"""
    out = []
    for i in range(4):
        for j in range(4):
            for k in range(4):
                seq = []
                for n, t in enumerate((i, j, k)):
                    seq += [{"ev": "change" if n else "open", "u": "a", "t": t}] + dep_queries("a")
                out.append(seq)
    return out


def dep_walk(r, n_texts, length):
    """random walk over the pool on two documents (open / change / close / re-open), symbols of both documents in both modes after
    every step, hover / definition on the last line block (the record that uses the deprecated types) at the end"""
    seq, cur = [], {}
    for _ in range(length):
        d = r.choice(["a", "a", "b"])
        if d in cur and r.random() < 0.15:
            seq.append({"ev": "close", "u": d})
            del cur[d]
        else:
            t = r.randrange(n_texts) if r.random() < 0.6 else r.randrange(min(4, n_texts))
            seq.append({"ev": "change" if d in cur else "open", "u": d, "t": t})
            cur[d] = t
        if r.random() < 0.1:
            seq.append({"ev": "save", "u": d})
        seq += dep_queries("a") + dep_queries("b")
    return seq, cur


def dep_final(scn, cur):
    out = []
    for d, t in cur.items():
        lines = scn["texts"][t].split("\n")
        for line in range(max(0, len(lines) - 4), len(lines)):
            for col in range(0, len(lines[line]) + 1, 2):
                out.append({"ev": "hover", "u": d, "line": line, "col": col})
                out.append({"ev": "definition", "u": d, "line": line, "col": col})
    return out


# ---- half-typed family: texts as they are while somebody types — a valid document with a junk / incomplete declaration in it -------
# The parser recovers from these and hands the server an error list together with whatever declarations it could build; validate()
# must publish the errors of the current text and rebuild its caches from the recovered declarations.
JUNK = ["foo bar\n", "x =\n", "x = rcord { a: i8; }\n", "r2 = record { main: i8; }\n", "}\n", "= enum { k; }\n", "y = interface +cpp { m(; }\n",
        "z = record { a: ; }\n", "@import\n", "w = function (a: i32) -> ;\n", "q = enum { k; } extra\n", "v = record { a: i8; b }\n", "static\n", "t = flags { a = ; }\n",
        "u = error { c(p: ) ; }\n", "namespace {\n", "n = interface { property : i8; }\n"]
JUNK_BASES = ["# doc of foo\nfoo = record { x: i8; }\n# @deprecated gone\nold = enum { k; }\nbar = record { f: foo; g: list<old>; }\n",
              "namespace n.m {\n  inner = record { a: string; }\n}\nouter = record { f: n.m.inner; }\n",
              "cb = function (a: i32) -> bool;\ni = interface +cpp { m(h: cb) -> i8; }\n"]


def junk_scenario(seed, n):
    texts = list(JUNK_BASES)
    for i in range(n):
        r = random.Random(f"{seed}/c18/junk/{i}")
        base = JUNK_BASES[i % len(JUNK_BASES)].splitlines(keepends=True)
        frag = JUNK[i % len(JUNK)] if i < len(JUNK) else r.choice(JUNK)
        # between top-level declarations (or inside one, when the draw lands there), at the start or at the end
        at = r.choice([0, len(base), r.randrange(len(base) + 1)])
        texts.append("".join(base[:at]) + frag + "".join(base[at:]))
    return {"texts": texts, "disk": {}, "docs": {"a": list(range(len(texts))), "b": list(range(len(texts)))}}


def junk_sequences(scn, seed, n):
    out, nb = [], len(JUNK_BASES)
    for t in range(nb, len(scn["texts"])):
        r = random.Random(f"{seed}/c18/junk/seq/{t}")
        lines = scn["texts"][t].split("\n")
        probes = []
        for _ in range(4):
            line = r.randrange(len(lines))
            probes += [{"ev": k, "u": "a", "line": line, "col": r.randrange(len(lines[line]) + 1)} for k in ("hover", "definition")]
        # typed into an open valid document, queried, repaired
        out.append([{"ev": "open", "u": "a", "t": t % nb}] + dep_queries("a") + [{"ev": "change", "u": "a", "t": t}] + dep_queries("a") + probes
                   + [{"ev": "change", "u": "a", "t": r.randrange(nb)}] + dep_queries("a"))
        if t % 3 == 0:      # opened in that state
            out.append([{"ev": "open", "u": "b", "t": t}] + dep_queries("b") + [{"ev": "close", "u": "b"}] + dep_queries("b"))
    return out[:n] if n else out


def load_corpus():
    """minimised witnesses of past blind spots (classes of inputs), run first: [{what, scenario: {texts, disk, docs}, events}]"""
    f = common.VERIF / "corpus" / "c18.json"
    return json.loads(f.read_text()) if f.exists() else []



# ---- evaluation (worker processes) -------------------------------------------------------------------------------------

def _worker(args):
    base, idx, scns, seqs, shared_table = args
    root = Path(base) / f"ws{idx}"
    lsp.setup(root)
    drv = common.Driver()
    results = []
    tables = {}
    batch, metas, batch_k = [], [], None

    def table_of(k):
        # no disk events in this family: one table per naming for all its sequences
        if k not in tables:
            scn = scns[k]
            used = {(e["u"], e["t"]) for _, k2, sq in seqs if k2 == k for e in sq if e["ev"] in ("open", "change")}    # (document, text) pairs this worker's histories reach
            pairs = [{"ev": "open", "u": d, "t": t} for d, ts in scn["docs"].items() for t in ts if (d, t) in used]
            tables[k] = lsp.front_table(root, scn, pairs)
        return tables[k]

    def flush():
        nonlocal batch, metas
        if not batch:
            return
        if shared_table:
            unq = lsp.unquote_table([u for it, _ in batch for u in it["_uris"]])
            res = drv.batch([{"op": "c18.check", "configUri": lsp.config_uri(root), "front": table_of(batch_k), "unq": unq,
                              "items": [{k: v for k, v in it.items() if k != "_uris"} for it, _ in batch]}], timeout=3000)[0]
            if "error" in res:
                raise RuntimeError("driver: " + res["error"])
            rs = res["results"]
        else:
            res = drv.batch([{"op": "c18.check", "configUri": lsp.config_uri(root), "front": tb, "unq": lsp.unquote_table(it["_uris"]),
                              "items": [{k: v for k, v in it.items() if k != "_uris"}]} for it, tb in batch], timeout=3000)
            for x in res:
                if "error" in x:
                    raise RuntimeError("driver: " + x["error"])
            rs = [x["results"][0] for x in res]
        for (sid, seq, impl, tb), r in zip(metas, rs):
            out = {"sid": sid, "corr": r["corr"], "spec": r["spec"], "n": len(seq)}
            if r["corr"] or r["spec"]:
                out["impl_at"] = {i: {k: v for k, v in impl[i].items()} for i in sorted({r["corr"]["index"]} if r["corr"] else set()) + [x[0] for x in r["spec"][:3]]}
            out["kinds"] = sorted({row["r"]["k"] for row in (tb or [])} | {"!buffer" for row in (tb or []) if not row["r"].get("buffer_ok", True)}) if tb else None
            out["nonnull"] = sum(1 for o in impl if o["answer"]["a"] not in ("none", "null"))
            out["pubs"] = sum(len(o["pubs"]) for o in impl)
            results.append(out)
        batch, metas = [], []

    def item(scn, seq, impl):
        evs = lsp.model_events(root, seq, scn)
        return {"events": evs, "impl": impl, "_uris": [e["u"] for e in evs if "u" in e] + [c for e in evs for c in e.get("changes", [])]}

    for sid, k, seq in sorted(seqs, key=lambda x: x[1]) if shared_table else seqs:
        scn = scns[k]
        if shared_table:
            if batch_k is not None and k != batch_k:
                flush()
            batch_k = k
            table_of(k)
            impl = lsp.run_sequence(root, scn, seq)
            batch.append((item(scn, seq, impl), None))
            metas.append((sid, seq, impl, None))
        else:
            tb = lsp.front_table(root, scn, seq)
            impl = lsp.run_sequence(root, scn, seq)
            batch.append((item(scn, seq, impl), tb))
            metas.append((sid, seq, impl, tb))
        if len(batch) >= 200:
            flush()
    flush()
    kinds = []
    for k, table0 in tables.items():
        kinds += sorted({row["r"]["k"] + (":" + row["r"]["cls"] if row["r"].get("cls") else "") for row in table0})
        kinds += sorted({"census:" + c for row in table0 for c in row["r"].get("census", {})})
        for row in table0:
            if not row["r"].get("buffer_ok", True):
                kinds.append("!buffer:" + str(k) + ":" + next((d for d in scns[k]["docs"] if lsp.uri_of(root, d, scns[k]) == row["u"]), "a") + ":" + str(row["t"]))
    return results, kinds


def evaluate(ctx, scns, seqs, shared_table, workers=14):
    """`seqs`: (id, index of the scenario in `scns`, events)"""
    import multiprocessing as mp
    if not seqs:
        return [], []
    lsp._shared_api()
    lsp._ls_module()
    # warm everything that is lazily initialised (ANTLR tables, pygls/lsprotocol converters) before forking
    warm = ctx.tmp / "warm"
    lsp.setup(warm)
    lsp.front_table(warm, {"texts": ["w = record { a: list<i8>; }\n"], "disk": {}}, [{"ev": "open", "u": "w", "t": 0}])
    lsp.run_sequence(warm, {"texts": ["w = record { a: list<i8>; }\n"], "disk": {}},
                     [{"ev": "open", "u": "w", "t": 0}, {"ev": "hover", "u": "w", "line": 0, "col": 16}, {"ev": "symbols", "u": "w", "hier": True}])
    workers = max(1, min(workers, len(seqs) // 4 or 1))
    chunks = [seqs[i::workers] for i in range(workers)]
    with mp.get_context("fork").Pool(workers) as pool:
        res = pool.map(_worker, [(str(ctx.tmp), i, scns, ch, shared_table) for i, ch in enumerate(chunks)])
    out, kinds = [], set()
    for r, k in res:
        out += r
        kinds |= set(k)
    return out, sorted(kinds)


WHAT = {
    "stale-diagnostics": "after an open/change nothing was published: the diagnostics of the previous text stay on screen",
    "wrong-diagnostics": "the publication after an open/change is not the front end's diagnostics for the current text",
    "handler-error": "a request/notification handler failed internally (exception swallowed and logged by error_logger)",
    "answer-not-from-current-text": "a hover/definition/documentSymbol answer differs from what the current text yields",
    "symbol-deprecated-not-from-current-text": "a documentSymbol answer has the right symbols (names, kinds, ranges, details) but the `deprecated` attribute / `tags` "
                                               "of a symbol is not what the current text says (`@deprecated` with or without a reason = deprecated)",
    "publication-on-close": "closing a document published diagnostics",
    "publication-on-query": "a query published diagnostics",
    "publication-on-save": "saving published diagnostics",
    "wrong-diagnostics-on-revalidation": "a publication triggered by a watched-files event is not the diagnostics of the document's current text",
}


def check_one(ctx, root, scn, s):
    tb = lsp.front_table(root, scn, s)
    impl = lsp.run_sequence(root, scn, s)
    r = ctx.driver.one({"op": "c18.check", "configUri": lsp.config_uri(root), "front": tb, "unq": lsp.model_unq(root, s, scn),
                        "items": [{"events": lsp.model_events(root, s, scn), "impl": impl}]})
    return tb, impl, r


def shrink(ctx, scn, seq, clause):
    """greedy removal of events while the same clause still fails (keeps well-formedness)"""
    root = ctx.tmp / "shrink"
    lsp.setup(root)

    def wellformed(s):
        o = set()
        for ev in s:
            if ev["ev"] == "open":
                if ev["u"] in o:
                    return False
                o.add(ev["u"])
            elif ev["ev"] == "change" and ev["u"] not in o:
                return False
            elif ev["ev"] == "close":
                if ev["u"] not in o:
                    return False
                o.discard(ev["u"])
        return True

    def fails(s):
        tb, impl, r = check_one(ctx, root, scn, s)
        return "error" not in r and any(c == clause for _, c in r["results"][0]["spec"]), impl
    cur = list(seq)
    # first the cheap big step: the failing event with the state-changing events before it, no other query
    last = cur[-1]
    cand = [e for e in cur[:-1] if e["ev"] not in ("hover", "definition", "symbols", "save")] + [last]
    if len(cand) < len(cur) and wellformed(cand) and fails(cand)[0]:
        cur = cand
    i = len(cur) - 2
    budget = 60
    while i >= 0 and budget > 0 and len(cur) <= 80:
        cand = cur[:i] + cur[i + 1:]
        budget -= 1
        if cand and wellformed(cand) and fails(cand)[0]:
            cur = cand
        i -= 1
    ok, impl = fails(cur)
    return cur, impl


def symbol_diff(root, scn, events, impl):
    """for a failing documentSymbol request: what the current text yields (fresh front-end run), the first differing symbol, and
    whether the difference is confined to the `deprecated` attribute / `tags`"""
    ev = events[-1]
    if ev.get("ev") != "symbols" or not impl or impl[-1]["answer"].get("a") != "symbols":
        return None
    cur = None
    for e in events[:-1]:
        if e.get("u") == ev["u"]:
            cur = e["t"] if e["ev"] in ("open", "change") else None if e["ev"] == "close" else cur
    if cur is None:
        return None
    o = lsp.oracle(lsp.uri_of(root, ev["u"], scn), scn["texts"][cur])       # the disk is in the state after the history (check_one ran it)
    exp = [a["sym"] for a in o.get("ast", []) if a["fileUri"] == lsp.uri_of(root, ev["u"], scn)] if ev["hier"] else \
          [a["info"] for a in o.get("defs", []) if a["info"] and a["fileUri"] == lsp.uri_of(root, ev["u"], scn)]
    got = impl[-1]["answer"]["l"]

    def mask(x, hier):
        x = json.loads(x)
        if not hier:
            return x[:3] + x[5:]
        def m(y):
            return y[:5] + [[m(c) for c in y[7]]]
        return m(x)

    def flat(x, path=""):
        x = json.loads(x) if isinstance(x, str) else x
        here = path + "/" + str(x[0])
        return [(here, {"deprecated": x[5], "tags": x[6]})] + [z for c in x[7] for z in flat(c, here)]
    out = {"text": scn["texts"][cur], "expected": exp[:6], "got": got[:6],
           "only_deprecation_differs": len(exp) == len(got) and exp != got and [mask(x, ev["hier"]) for x in exp] == [mask(x, ev["hier"]) for x in got]}
    if out["only_deprecation_differs"]:
        if ev["hier"]:
            e, g = [z for x in exp for z in flat(x)], [z for x in got for z in flat(x)]
            out["first_difference"] = next(({"symbol": a[0], "expected": a[1], "got": b[1]} for a, b in zip(e, g) if a != b), None)
        else:
            out["first_difference"] = next(({"symbol": json.loads(a)[0], "expected": json.loads(a)[3:5], "got": json.loads(b)[3:5]} for a, b in zip(exp, got) if a != b), None)
    return out


def run(ctx):
    ctx.coverage["rule"] = ("event sequences over open/change/close/save/watched-files on 2 documents x 5 texts: all of depth <= 2 (quick; <= 4 thorough) under "
                            "every naming of the documents and files (plain; blanks, non-ASCII letters, #, %, +, & in file or directory names; names whose URI "
                            "percent-decodes to a sibling's URI; three URI spellings) plus a seeded sample of depth 3-4 rotating through the namings (thorough: "
                            "all of depth <= 4 plain, all of depth <= 3 under every naming), each followed by documentSymbol (both modes) and hover/definition "
                            "at every column of the reference lines; "
                            "random sequences (<= 60 events, 3 documents, imports between documents, disk changes, queries on open/closed/unknown documents), "
                            "rotating through the namings; deprecation family (every symbol kind x comment form none / doc / @deprecated / @deprecated <reason>, "
                            "toggled by didChange, documentSymbol in both modes after every step); half-typed family (junk declarations in valid texts); distinct = distinct (naming, mutator sequence); non-trivial = at least two state-changing events")
    ctx.assumptions += [
        "protocol misuse that pygls itself rejects (change/close of a document that is not open, opening an open document) is outside the event alphabet",
        "generate_on_save is off; the configuration file does not exist (default configuration); code lenses are not queried",
        "the front end never ends in a non-ApplicationException (C06); if it does, the oracle says `crash` and the case is reported",
        "document URIs are well-formed `file:` URIs (reserved characters percent-encoded); `urllib.parse.unquote` is a parameter of the model",
    ]
    r = random.Random(f"{ctx.seed}/c18")
    named_ex = [apply_naming(EXH, nm) for nm in NAMINGS]
    named_rnd = [apply_naming(RND, nm) for nm in NAMINGS]
    # ---- exhaustive family
    plans = []      # (index of the naming, logical mutator sequence)
    if ctx.quick:
        base = all_sequences(EXH, 2)
        for k in range(len(NAMINGS)):
            plans += [(k, s) for s in base]
        seen = {json.dumps(s) for s in base}
        n = 0
        for i in range(ctx.n(1100, 0)):
            s = sample_sequence(EXH, random.Random(f"{ctx.seed}/c18/s/{i}"), 3 + i % 2)
            if json.dumps(s) not in seen:
                seen.add(json.dumps(s))
                plans.append(((n + ctx.seed) % len(NAMINGS), s))
                n += 1
    else:
        plans += [(0, s) for s in all_sequences(EXH, 4)]
        d3 = all_sequences(EXH, 3)
        for k in range(1, len(NAMINGS)):
            plans += [(k, s) for s in d3]
    import time
    t0 = time.time()
    bats = [{d: battery(scn, [d]) for d in scn["docs"]} for scn in named_ex]
    mini = {d: [{"ev": "symbols", "u": d, "hier": True}, {"ev": "symbols", "u": d, "hier": False},
                {"ev": "hover", "u": d, "line": 1, "col": 18}, {"ev": "definition", "u": d, "line": 1, "col": 18}] for d in EXH["docs"]}

    def with_battery(k, s):
        touched = {e["u"] for e in s if e["ev"] in ("open", "change", "close")}
        out = rename_seq(named_ex[k], s)
        for d in EXH["docs"]:
            out += bats[k][d] if d in touched else mini[d]   # a document the history never opened: a few probes (all must answer null)
        return out
    ex = [(i, k, with_battery(k, s)) for i, (k, s) in enumerate(plans)]
    res_ex, kinds = evaluate(ctx, named_ex, ex, shared_table=True)
    ctx.stats["exhaustive_sequences"] = len(ex)
    ctx.stats["battery_queries_per_document"] = {named_ex[k]["naming"]: {d: len(b) for d, b in bats[k].items()} for k in range(len(NAMINGS))}
    ctx.stats["t_exhaustive_s"] = round(time.time() - t0, 1)
    t0 = time.time()
    ctx.stats["front_kinds_exhaustive"] = [k for k in kinds if not k.startswith("!buffer") and not k.startswith("census:")]
    # ---- random family
    rnd = []
    for i in range(ctx.n(160, 800)):
        rr = random.Random(f"{ctx.seed}/c18/r/{i}")
        s = random_sequence(rr, rr.choice([8, 20, 40, 60]))
        k = (i + ctx.seed) % len(NAMINGS)
        rnd.append((i, k, rename_seq(named_rnd[k], s) + final_battery(named_rnd[k], s)))
    res_rnd, _ = evaluate(ctx, named_rnd, rnd, shared_table=False)
    ctx.stats["random_sequences"] = len(rnd)
    ctx.stats["t_random_s"] = round(time.time() - t0, 1)

    # ---- deprecation family: `@deprecated` with / without a reason on every kind of declaration, toggled by didChange
    t0 = time.time()
    dep_scn, dep_states = dep_scenario(ctx.seed, ctx.n(12, 40))
    named_dep = [apply_naming(dep_scn, nm) for nm in NAMINGS]
    dep = []
    for i, sq in enumerate(dep_toggles(len(dep_scn["texts"]))):
        dep.append((len(dep), 0 if i % 2 == 0 else (i // 2 + ctx.seed) % len(NAMINGS), sq))
    for i in range(ctx.n(36, 600)):
        rr = random.Random(f"{ctx.seed}/c18/dep/walk/{i}")
        sq, cur = dep_walk(rr, len(dep_scn["texts"]), rr.choice([3, 5, 8]))
        k = (i + ctx.seed) % len(NAMINGS)
        dep.append((len(dep), k, sq + dep_final(named_dep[k], cur)))
    res_dep, dep_kinds = evaluate(ctx, named_dep, dep, shared_table=True)
    census = sorted(k[len("census:"):] for k in dep_kinds if k.startswith("census:"))
    ctx.stats["deprecation_sequences"] = len(dep)
    ctx.stats["deprecation_texts"] = len(dep_scn["texts"])
    ctx.stats["deprecation_census"] = census      # (kind of declaration : form the front end stored) pairs present in the pool
    ctx.stats["deprecation_spot_forms"] = len({(w, st.get(w, "none")) for st in dep_states for w in DEP_SPOTS})
    ctx.stats["t_deprecation_s"] = round(time.time() - t0, 1)
    # the generator's own obligation: every kind that carries `deprecated` occurs bare, with a reason and not deprecated
    need = [f"{k}:{f}" for k in ("record", "enum", "flags", "error", "function", "interface", "method", "field", "item", "flag", "error-code")
            for f in ("none", "bare", "reason")]
    missing = [x for x in need if x not in census]
    ctx.obligation("c18_deprecation_pool_covers_every_kind_and_form", not missing, kind="generated",
                   detail="missing (kind:form) in the front end's results for the generated pool: " + ", ".join(missing) if missing else
                   f"{len(census)} (kind:form) pairs, {ctx.stats['deprecation_spot_forms']} (spot, comment form) pairs")
    # ---- half-typed family
    t0 = time.time()
    junk_scn = junk_scenario(ctx.seed, ctx.n(34, 170))
    named_junk = [apply_naming(junk_scn, nm) for nm in NAMINGS]
    junk = [(i, (i + ctx.seed) % len(NAMINGS) if i % 2 else 0, sq) for i, sq in enumerate(junk_sequences(junk_scn, ctx.seed, 0))]
    res_junk, junk_kinds = evaluate(ctx, named_junk, junk, shared_table=True)
    ctx.stats["half_typed_sequences"] = len(junk)
    ctx.stats["half_typed_front_kinds"] = [k for k in junk_kinds if not k.startswith("census:")]
    ctx.stats["t_half_typed_s"] = round(time.time() - t0, 1)
    # ---- corpus (classes of inputs that were blind spots once), every entry its own scenario
    corpus = load_corpus()
    named_corpus = [apply_naming({"texts": c["scenario"]["texts"], "disk": c["scenario"].get("disk", {}), "docs": c["scenario"]["docs"]},
                                 NAMINGS[(i + ctx.seed) % 2 * 2]) for i, c in enumerate(corpus)]
    cor = [(i, i, c["events"]) for i, c in enumerate(corpus)]
    res_cor, _ = evaluate(ctx, named_corpus, cor, shared_table=False)
    ctx.stats["corpus_sequences"] = len(cor)

    breaks, reported = [], {}
    # the tie's own premise: what the front end is given for an open document is the editor buffer, not the file of the same name
    stale_input = [k for k in kinds if k.startswith("!buffer")] + (["!buffer:random"] if any("!buffer" in (r.get("kinds") or []) for r in res_rnd) else [])
    if stale_input:
        _, k, name, t = (stale_input[0].split(":") + ["0", "a", "0"])[:4]
        scn0 = named_ex[int(k) if k.isdigit() else 0]
        ctx.report("server:front-end-input-not-the-buffer", "the text handed to the front end for an open document is not the editor buffer (a file of the same name exists on disk)",
                   {"input": {"scenario": replay_scenario(scn0), "events": [{"ev": "open", "u": name or "a", "t": int(t) if t.isdigit() else 0}]},
                    "observed": stale_input[:5]})
    for fam, scns, items, results in (("corpus", named_corpus, {i: (k, s) for i, k, s in cor}, res_cor),
                                      ("exhaustive", named_ex, {i: (k, s) for i, k, s in ex}, res_ex), ("random", named_rnd, {i: (k, s) for i, k, s in rnd}, res_rnd),
                                      ("deprecation", named_dep, {i: (k, s) for i, k, s in dep}, res_dep),
                                      ("half-typed", named_junk, {i: (k, s) for i, k, s in junk}, res_junk)):
        for res in results:
            k, seq = items[res["sid"]]
            scn = scns[k]
            muts = [e for e in seq if e["ev"] in ("open", "change", "close", "watched", "save", "disk")]
            nq = len(seq) - len(muts)
            ctx.count(key=fam + scn["naming"] + json.dumps(muts if fam in ("exhaustive", "deprecation", "half-typed") else res["sid"]), nontrivial=sum(1 for e in muts if e["ev"] in ("open", "change", "close")) >= 2,
                      sample={"family": fam, "naming": scn["naming"], "events": muts[:8], "queries": nq, "publications": res["pubs"], "non_null_answers": res["nonnull"]}, n=len(seq))
            ctx.stat(fam + "_publications", res["pubs"])
            ctx.stat(fam + "_non_null_answers", res["nonnull"])
            ctx.stat(fam + "_naming_" + scn["naming"])
            ctx.stat(fam + "_non_null_answers_naming_" + scn["naming"], res["nonnull"])
            ctx.stat(fam + "_publications_naming_" + scn["naming"], res["pubs"])
            for kk in res.get("kinds") or []:
                ctx.stat("front_kind_" + kk)
            if res["corr"]:
                breaks.append({"family": fam, "naming": scn["naming"], "events": muts, "at": res["corr"], "event": seq[res["corr"]["index"]]})
            clauses = []
            for i, c in res["spec"]:
                if c not in clauses:
                    clauses.append(c)
            for c in clauses:
                ctx.stat("spec_failed_" + c)
                ctx.stat("spec_failed_" + c + "_naming_" + scn["naming"])
                ctx.stat("spec_failed_" + c + "_family_" + fam)
                if reported.get(c, 0) >= 3:
                    continue
                reported[c] = reported.get(c, 0) + 1
                first = next(i for i, cc in res["spec"] if cc == c)
                # the shortest history that shows it: everything up to the first failing event, then shrunk
                small, impl = shrink(ctx, scn, seq[:first + 1], c)
                diff = symbol_diff(ctx.tmp / "shrink", scn, small, impl) if c == "answer-not-from-current-text" else None
                if diff and diff["only_deprecation_differs"]:
                    c = "symbol-deprecated-not-from-current-text"       # the shape: same symbols, wrong `deprecated` / `tags`
                ctx.report("server:" + c, WHAT.get(c, c),
                           {"input": {"scenario": replay_scenario(scn), "events": small}, **({"symbols": diff} if diff else {}),
                            "uris": {d: lsp.uri_of(Path("/ws"), d, scn) for d in scn["docs"]},
                            "failing_event": small[-1] if small else None, "impl": impl[-1] if impl else None,
                            "found_in": {"family": fam, "naming": scn["naming"], "length": len(seq), "first_failing_index": first}})
    ctx.stats["correspondence_breaks"] = len(breaks)
    if breaks and not ctx.violations:
        ctx.report("correspondence", "language-server model and implementation disagree; the specification holds on every explored history",
                   {"correspondence": "c18.check (Sys/Lsp.lean step) vs the real handlers", "first": breaks[0], "count": len(breaks)}, no_failing_input=True)
    elif breaks:
        ctx.stats["correspondence_first"] = {k: breaks[0][k] for k in ("family", "naming", "event")}


def replay(ctx, body):
    inp = body["input"]
    scn = dict(inp["scenario"])
    root = ctx.tmp / "replay"
    lsp.setup(root)
    tb, impl, r = check_one(ctx, root, scn, inp["events"])
    buffer_ok = all(row["r"].get("buffer_ok", True) for row in tb)
    print(json.dumps({"impl_last": impl[-1] if impl else None, "check": r, "front_end_given_the_buffer": buffer_ok}, indent=1)[:3000])
    return "error" not in r and not r["results"][0]["spec"] and buffer_ok
