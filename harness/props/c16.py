"""C16 — imports: each file is loaded once, cycles are diagnosed, search order is fixed.

Tie: correspondence between the Lean import model (`Front/Imports.lean`: candidate search, nested
parsers with the in-progress stack and the imported set, shared registry) and the real parser on
all import graphs over <= 3 files (quick; sampled graphs over 4 files; thorough: all over 4, sampled
over 5) x placements (root directory, sub directory, include directory) x shadowing copies.
Every real run happens in a worker process with a wall-clock bound (the pinned algorithm hung on
branching cycles). Specification on the implementation's observation, computed from the graph the
harness built: acyclic and complete -> accepted, every reachable file's declarations exactly once;
reachable cycle -> a circular-import diagnostic (no duplicate-type error, crash or hang); missing
file -> file-not-found at the directive; first candidate in (literal, importer directory, include
directories) order wins.
"""
from __future__ import annotations

import itertools
import json
import random

import front

LEAN_MODULE = "PydjinniModel.Props.C16ProgramPos"
THEOREMS = [
    "Pydjinni.Front.candidates_order",
    "Pydjinni.Front.findFile_first",
    "Pydjinni.Front.findFile_none_iff",
    "Pydjinni.Front.doLoads_cycle_reported",
    "Pydjinni.Front.doLoads_once",
    "Pydjinni.Front.doLoads_missing_reported",
    "Pydjinni.Front.parseOne_imported_mono",
    "Pydjinni.Front.parseOne_imported_nodup",
    "Pydjinni.Front.remaining_add",
    "Pydjinni.Front.parseOne_fuel_sufficient",
    "Pydjinni.Front.front_terminates",
    "Pydjinni.Front.parseOne_order",
    "Pydjinni.Front.parseOne_load_order",
    "Pydjinni.Front.parseOne_finish_order",
    "Pydjinni.Front.programInOrder_eq",
    "Pydjinni.Front.front_final_registry",
    "Pydjinni.Front.front_registry_is_regUpTo",
    "Pydjinni.Front.front_finishes_all",
    "Pydjinni.Front.rootOrder_nodup",
    "Pydjinni.Front.front_eq_programDiags",
    "Pydjinni.Front.front_duplicate_raised",
    "Pydjinni.Front.front_duplicate_position",
    "Pydjinni.Front.programCollision_none_iff",
    "Pydjinni.Front.front_missing_iff",
    "Pydjinni.Front.front_circular_iff_line",
    "Pydjinni.Front.front_cycle_iff",
    "Pydjinni.Front.front_ok_iff",
    "Pydjinni.Front.rootVisits_events",
    "Pydjinni.Front.programKeys_rootEvents",
    "Pydjinni.Front.front_eq_programDiags'",
    "Pydjinni.Front.front_duplicate_raised'",
    "Pydjinni.Front.front_eq_violationsOrdered'",
]
LEVEL = "proof"


def graphs(n, rng=None, sample=None):
    edges = [(i, j) for i in range(n) for j in range(n)]
    if sample is None:
        for bits in itertools.product([0, 1], repeat=len(edges)):
            yield [e for e, b in zip(edges, bits) if b]
    else:
        for _ in range(sample):
            p = rng.choice([0.15, 0.3, 0.5])
            yield [e for e in edges if rng.random() < p]


def reach(n, es, root=0):
    seen, todo = {root}, [root]
    while todo:
        u = todo.pop()
        for a, b in es:
            if a == u and b not in seen and b < n:
                seen.add(b)
                todo.append(b)
    return seen


def on_cycle(es, reachable):
    """is there a cycle inside the reachable part?"""
    adj = {u: [b for a, b in es if a == u and b in reachable] for u in reachable}
    color = {}

    def dfs(u):
        color[u] = 1
        for v in adj[u]:
            if color.get(v) == 1:
                return True
            if v not in color and dfs(v):
                return True
        color[u] = 2
        return False
    return any(u not in color and dfs(u) for u in reachable)


LAYOUTS = [
    # virtual paths of file i; literal used by importer a for b
    {"name": "flat", "path": lambda i: f"/w/f{i}.djinni", "lit": lambda a, b: f"f{b}.djinni", "inc": []},
    {"name": "subdirs", "path": lambda i: f"/w/d{i}/f{i}.djinni", "lit": lambda a, b: f"../d{b}/f{b}.djinni", "inc": []},
    {"name": "include", "path": lambda i: ("/w/f0.djinni" if i == 0 else f"/w/inc/f{i}.djinni"), "lit": lambda a, b: f"f{b}.djinni", "inc": ["inc"]},
    {"name": "cwd-relative", "path": lambda i: f"/w/sub/f{i}.djinni", "lit": lambda a, b: f"sub/f{b}.djinni", "inc": []},
    # file names that differ only in letter case are different files
    {"name": "letter-case", "path": lambda i: f"/w/{CASED[i]}.djinni", "lit": lambda a, b: f"{CASED[b]}.djinni", "inc": []},
]
CASED = ["main", "Shapes", "shapes", "SHAPES", "sHapes", "shapeS"]


# files reached through symbolic links: one file has several spellings that no textual normalisation identifies; a file is
# *one* file however it is reached (each file once, cycles diagnosed). The model's file system has no links, so this stream
# is judged by the graph-level specification only.
def link_layouts(parity):
    return [
        {"name": f"dir-link/{parity}", "path": lambda i: f"/w/real/f{i}.djinni", "inc": [],
         "lit": lambda a, b: f"../link/f{b}.djinni" if (a + b + parity) % 2 else f"f{b}.djinni",
         "extra": lambda n: {"/w/link": {"symlink": "real"}}},
        {"name": f"file-link/{parity}", "path": lambda i: f"/w/f{i}.djinni", "inc": [],
         "lit": lambda a, b: f"g{b}.djinni" if (a + b + parity) % 2 else f"f{b}.djinni",
         "extra": lambda n: {f"/w/g{i}.djinni": {"symlink": f"f{i}.djinni"} for i in range(n)}},
        {"name": f"link-chain/{parity}", "path": lambda i: f"/w/d/f{i}.djinni", "inc": ["inc"],
         "lit": lambda a, b: f"h{b}.djinni" if (a + b + parity) % 2 else f"../d/f{b}.djinni",
         "extra": lambda n: {**{f"/w/inc/h{i}.djinni": {"symlink": f"../alias/f{i}.djinni"} for i in range(n)}, "/w/alias": {"symlink": "d"}}},
    ]


def build(n, es, layout, missing=None):
    files = {}
    for i in range(n):
        heads = [f'@import "{layout["lit"](i, b)}"' for a, b in es if a == i]
        if missing is not None and missing[0] == i:
            heads.insert(missing[1] if missing[1] <= len(heads) else len(heads), '@import "not_there.djinni"')
        body = f"t{i} = record {{ }}\nu{i} = enum {{ k; }}"
        # every file also declares `item` in a namespace of its own: equal simple names in different files are different types
        body += f"\nnamespace n{i} {{ item = record {{ }} }}"
        # a reference to every directly imported file's type: imports really make declarations available
        refs = " ".join(f"r{b}: t{b};" for a, b in es if a == i and b != i)
        if refs:
            body += f"\nh{i} = record {{ {refs} }}"
        files[layout["path"](i)] = "\n".join(heads + [body])
    return files


def expected_decls(n, es, reachable):
    out = []
    for i in sorted(reachable):
        out += [f"t{i}", f"u{i}", f"n{i}.item"]
        if any(a == i and b != i for a, b in es):
            out.append(f"h{i}")
    return sorted(out)


def run(ctx):
    ctx.coverage["rule"] = ("all directed import graphs (self loops included) over <= 3 files x 4 placements, sampled graphs over 4 (5) files, "
                            "missing-leaf variants, shadowing copies for the search order; distinct = distinct (files, edge set, layout, variant); "
                            "non-trivial = at least one import")
    r = random.Random(f"{ctx.seed}/c16")
    todo = []

    def add(n, es, layout, variant, missing=None, extra=None, include=None):
        files = build(n, es, layout, missing)
        if extra:
            files.update(extra)
        todo.append({"files": files, "root": layout["path"](0), "include_dirs": include if include is not None else layout["inc"],
                     "meta": {"n": n, "edges": es, "layout": layout["name"], "variant": variant, "missing": missing}})

    for n in (1, 2, 3):
        for es in graphs(n):
            lays = LAYOUTS if (n < 3 or not ctx.quick) else [LAYOUTS[len(es) % len(LAYOUTS)]]
            for lay in lays:
                add(n, es, lay, "graph")
    for es in graphs(4, r, ctx.n(150, 0)) if ctx.quick else graphs(4):
        add(4, es, LAYOUTS[len(es) % len(LAYOUTS)] if ctx.quick else r.choice(LAYOUTS), "graph")
    if not ctx.quick:
        for es in graphs(5, r, 3000):
            add(5, es, r.choice(LAYOUTS), "graph")
    # missing leaves: acyclic graphs with one dangling import at every position
    for n in (1, 2, 3):
        seen = set()
        for es in graphs(n):
            es = [e for e in es if e[0] < e[1]]
            if tuple(es) in seen:
                continue
            seen.add(tuple(es))
            for i in range(n):
                for at in (0, 5):
                    add(n, es, LAYOUTS[(i + at) % len(LAYOUTS)], "missing", missing=(i, at))
    # search order: copies of f1 with distinguishable content at every candidate location
    locs = {"literal": "/w/x/f1.djinni", "importer-dir": "/w/main/x/f1.djinni", "inc1": "/w/i1/x/f1.djinni", "inc2": "/w/i2/x/f1.djinni"}
    order = ["literal", "importer-dir", "inc1", "inc2"]
    for present in itertools.product([0, 1], repeat=4):
        files = {"/w/main/f0.djinni": '@import "x/f1.djinni"\nt0 = record { }'}
        for name, on in zip(order, present):
            if on:
                files[locs[name]] = f"from_{name.replace('-', '_')} = enum {{ k; }}"
        for incs in (["i1", "i2"], ["i2", "i1"], ["/ABS/i1", "i2"]):
            todo.append({"files": files, "root": "/w/main/f0.djinni", "include_dirs": incs,
                         "meta": {"variant": "search-order", "present": [n for n, on in zip(order, present) if on], "incs": incs}})
    # two levels deep: the candidates are relative to the *importing* file; a copy next to an ancestor is not a candidate
    locs2 = {"literal": "/w/x/f2.djinni", "importer-dir": "/w/main/sub/x/f2.djinni", "inc1": "/w/i1/x/f2.djinni", "inc2": "/w/i2/x/f2.djinni",
             "ancestor-trap": "/w/main/x/f2.djinni"}
    order2 = ["literal", "importer-dir", "inc1", "inc2", "ancestor-trap"]
    for present in itertools.product([0, 1], repeat=5):
        files = {"/w/main/f0.djinni": '@import "sub/f1.djinni"\nt0 = record { }', "/w/main/sub/f1.djinni": '@import "x/f2.djinni"\nt1 = record { }'}
        for name, on in zip(order2, present):
            if on:
                files[locs2[name]] = f"from_{name.replace('-', '_')} = enum {{ k; }}"
        todo.append({"files": files, "root": "/w/main/f0.djinni", "include_dirs": ["i1", "i2"],
                     "meta": {"variant": "search-order-nested", "present": [n for n, on in zip(order2, present) if on]}})
    # a directory with the imported name shadows nothing (directories are skipped)
    todo.append({"files": {"/w/main/f0.djinni": '@import "x"\nt0 = record { }', "/w/x/inner.djinni": "z = enum { k; }", "/w/main/x": "y = enum { k; }"},
                 "root": "/w/main/f0.djinni", "include_dirs": [], "meta": {"variant": "directory-skipped"}})

    linked = []
    for n in (1, 2, 3):
        for es in graphs(n):
            for parity in ((0, 1) if (n < 3 or not ctx.quick) else (len(es) % 2,)):
                lays = link_layouts(parity)
                for lay in (lays if (n < 3 or not ctx.quick) else [lays[(len(es) // 2) % len(lays)]]):
                    files = build(n, es, lay)
                    files.update(lay["extra"](n))
                    linked.append({"files": files, "root": lay["path"](0), "include_dirs": lay["inc"],
                                   "meta": {"n": n, "edges": es, "layout": lay["name"], "variant": "graph", "missing": None}})
    for t, (impl, _req) in zip(linked, front.run_many(ctx.tmp, linked, per_input_timeout=10)):
        meta = t["meta"]
        ctx.count(key=json.dumps(meta, sort_keys=True), nontrivial=bool(meta.get("edges")), sample={"files": t["files"], "impl": impl["kind"]})
        ctx.stat("impl_" + impl["kind"])
        ctx.stat("variant_linked")
        for f in spec(meta, impl):
            ctx.report("imports:" + f["key"], f["what"] + " (files reached through symbolic links)",
                       {"input": {"files": t["files"], "root": t["root"], "include_dirs": t["include_dirs"]}, "meta": meta, "impl": strip(impl), "failure": f})

    results = front.run_many(ctx.tmp, todo, per_input_timeout=10)
    answers = ctx.driver.batch([{**req, "op": "c04.bindings"} for _, req in results])
    # the declarative whole-program specification (Front/SpecProgram.lean `programDiags`, equal to the model by
    # `front_eq_programDiags` whenever its decidable hypotheses hold) evaluated on the implementation's observation
    import props.c05 as c05
    progs = ctx.driver.batch([{**req, "op": "c11.prog", "impl": c05.impl_obs(impl)} for impl, req in results])
    breaks = []
    for t, (impl, req), m, pg in zip(todo, results, answers, progs):
        if "error" in m or "error" in pg:
            raise RuntimeError(f"driver error {m} {pg}")
        ctx.stat("programDiags_" + str(pg.get("verdict")))
        if pg.get("verdict") not in ("holds", "not-applicable") and impl["kind"] not in ("crash", "hang"):
            ctx.report("imports:" + pg["verdict"], "the diagnostics differ from the declarative whole-program specification (one diagnostic per missing file / cycle-closing "
                       "line / bad extern, each file's rules against what is finished no later than itself)",
                       {"input": {"files": t["files"], "root": t["root"], "include_dirs": t["include_dirs"]}, "meta": t["meta"], "impl": strip(impl),
                        "programDiags": pg.get("spec"), "hypotheses": pg.get("hypotheses")})
        meta = t["meta"]
        ctx.count(key=json.dumps(meta, sort_keys=True), nontrivial=bool(meta.get("edges")) or meta["variant"] != "graph",
                  sample={"files": t["files"], "impl": impl["kind"]})
        ctx.stat("impl_" + impl["kind"])
        ctx.stat("variant_" + meta["variant"])
        mo = front.canon_outcome(m["outcome"])
        io = front.canon_outcome(impl) if impl["kind"] != "hang" else ("hang",)
        same = mo == io and (impl["kind"] not in ("ok", "diags") or sorted(m["decls"]) == impl.get("decls"))
        if not same:
            breaks.append({"files": t["files"], "include_dirs": t["include_dirs"], "why": "outcome differs" if mo != io else "declarations differ",
                           "model": m, "impl": strip(impl)})
        # ---- specification on the implementation's observation --------------------------------
        fails = spec(meta, impl)
        for f in fails:
            ctx.report("imports:" + f["key"], f["what"],
                       {"input": {"files": t["files"], "root": t["root"], "include_dirs": t["include_dirs"]}, "meta": meta, "impl": strip(impl), "failure": f})
    ctx.stats["correspondence_breaks"] = len(breaks)
    if breaks and not ctx.violations:
        ctx.report("correspondence", "import model and implementation disagree; the import specification holds on every sampled graph",
                   {"correspondence": "c04.bindings (imports) vs ConfiguredContext.parse", "first": breaks[0], "count": len(breaks)}, no_failing_input=True)
    elif breaks:
        ctx.stats["correspondence_first"] = breaks[0]["why"]


def spec(meta, impl):
    fails = []
    if impl["kind"] in ("crash", "hang"):
        return [{"key": impl["kind"], "what": f"import processing ended in a {impl['kind']} (no diagnostic)"}]
    v = meta["variant"]
    if v in ("graph", "missing"):
        n, es = meta["n"], [tuple(e) for e in meta["edges"]]
        rs = reach(n, es)
        cyc = on_cycle(es, rs)
        miss = meta.get("missing")
        classes = [d["cls"] for d in impl.get("diags", [])] + ([impl["cls"]] if impl["kind"] == "raised" else [])
        msgs = " ".join(d.get("msg", "") for d in impl.get("diags", []))
        if impl["kind"] == "raised" and impl["cls"] == "TypeResolvingException":
            fails.append({"key": "duplicate-from-multipath" if not cyc else "cycle-reported-as-duplicate",
                          "what": "a file reachable along several import paths (or on a cycle) is loaded twice: duplicate-type error"})
            return fails
        if cyc:
            if not (impl["kind"] == "diags" and "ParsingException" in classes):
                fails.append({"key": "cycle-not-reported", "what": "a file imports itself (directly or indirectly) and no circular-import diagnostic is reported"})
        elif miss is not None and miss[0] in rs:
            if not (impl["kind"] == "diags" and "FileNotFoundException" in classes):
                fails.append({"key": "missing-not-reported", "what": "a missing imported file is not reported as file-not-found"})
            else:
                d = [d for d in impl["diags"] if d["cls"] == "FileNotFoundException"][0]
                if not d["file"].endswith(f"f{miss[0]}.djinni"):
                    fails.append({"key": "missing-wrong-place", "what": "file-not-found is not reported at the directive of the importing file"})
        else:
            if impl["kind"] != "ok":
                fails.append({"key": "acyclic-rejected", "what": "an acyclic, complete import graph is rejected"})
            elif impl.get("decls") != expected_decls(n, es, rs):
                fails.append({"key": "declarations-not-once", "what": "declarations available differ from 'every reachable file exactly once'",
                              "expected": expected_decls(n, es, rs), "got": impl.get("decls")})
    elif v == "search-order":
        present = meta["present"]
        inc_order = ["inc1", "inc2"] if meta["incs"][0].endswith("i1") else ["inc2", "inc1"]
        cands = ["literal", "importer-dir"] + inc_order
        if meta["incs"][0].startswith("/ABS"):
            cands = [c for c in cands if c != "inc1"]
        winner = next((c for c in cands if c in present), None)
        if winner is None:
            if not (impl["kind"] == "diags" and any(d["cls"] == "FileNotFoundException" for d in impl["diags"])):
                fails.append({"key": "missing-not-reported", "what": "no candidate exists and no file-not-found is reported"})
        else:
            want = "from_" + winner.replace("-", "_")
            if impl["kind"] != "ok" or want not in impl.get("decls", []):
                fails.append({"key": "search-order", "what": f"candidate search order violated: expected the copy at '{winner}'", "got": impl.get("decls")})
    elif v == "search-order-nested":
        present = meta["present"]
        winner = next((c for c in ["literal", "importer-dir", "inc1", "inc2"] if c in present), None)
        if winner is None:
            d = [d for d in impl.get("diags", []) if d["cls"] == "FileNotFoundException"] if impl["kind"] == "diags" else []
            if not d:
                fails.append({"key": "missing-not-reported", "what": "no candidate exists (only a copy next to an ancestor of the importer) and no file-not-found is reported", "got": impl.get("decls")})
            elif not d[0]["file"].endswith("sub/f1.djinni"):
                fails.append({"key": "missing-wrong-place", "what": "file-not-found is not reported at the directive of the importing file"})
        else:
            want = "from_" + winner.replace("-", "_")
            if impl["kind"] != "ok" or want not in impl.get("decls", []):
                fails.append({"key": "search-order", "what": f"candidate search order violated for a nested importer: expected the copy at '{winner}'", "got": impl.get("decls")})
    return fails


def strip(impl):
    return {k: v for k, v in impl.items() if k not in ("ast", "result", "bindings")}


def replay(ctx, body):
    inp = body["input"]
    (impl, _), = front.run_many(ctx.tmp, [{"files": inp["files"], "root": inp["root"], "include_dirs": inp.get("include_dirs", [])}], per_input_timeout=20)
    print(json.dumps(strip(impl), indent=1)[:3000])
    return not spec(body["meta"], impl)
