"""C11 — source layout does not matter: whitespace, declaration order, file split.

Theorems (Props/C11.lean): the rule specification and lexical resolution are invariant under any
permutation of the program's declarations and under any distribution of them over files
(`violations_perm`, `lexicalLookup_perm`), on top of the C03 layout results.
Tie: (i) the front-end model (`c05.front`) agrees with the real parser on every variant (original,
re-formatted, permuted, split into an imported file); (ii) metamorphic specification on the
implementation's observations: acceptance, the multiset of diagnostics modulo positions, and every
generated file (all targets, banner line normalised) are equal across the variants.
Split variants are dependency-closed partitions computed from the bindings the real parser reports.
"""
from __future__ import annotations

import json
import random

import front
import genrun

LEAN_MODULE = "PydjinniModel.Props.C11All"
THEOREMS = [
    "Pydjinni.Front.lexicalLookup_perm",
    "Pydjinni.Front.declRules_congr",
    "Pydjinni.Front.violations_perm",
    "Pydjinni.Front.progRegistry_perm",
    "Pydjinni.Front.accepted_perm",
    "Pydjinni.Front.declRules_congr_on",
    "Pydjinni.Front.violationsOrdered_eq_violations_of_closed",
    "Pydjinni.Front.split_invariance",
    "Pydjinni.Front.split_invariance_accepted",
    "Pydjinni.Front.front_split_invariance",
    "Pydjinni.Front.front_eq_violationsOrdered",
]
LEVEL = "proof"

TARGETS = ["cpp", "java", "objc", "cppcli", "yaml"]


def decl_text(d, r, style):
    R = front.Render(r, style)
    return R.join(R.program([d]))


def keys_of(decls):
    return [".".join(d['ns'] + [d['name']]) for d in decls]


def dependencies(decls, text_of, sandbox_parse):
    """declaration index -> set of declaration indices it refers to (from the real parser's bindings)"""
    return sandbox_parse


def make_variants(seed_key, p_bad):
    r = random.Random(seed_key)
    g = front.Gen(r, p_bad=p_bad, max_decls=r.choice([2, 3, 5, 7]), dup_names=False, comments=r.random() < 0.5)
    g.well_typed = p_bad == 0.0
    rich = r.random() < 0.35
    if rich:
        g.p_async, g.kind_choices, g.flag_counts = 0.7, ['interface'] * 4 + ['record', 'enum', 'error'], [0, 1, 1, 2]   # support files that exist once per run (async helpers) must not depend on which declaration comes last
    head, extra = "", {}
    if g.well_typed and not rich and r.random() < 0.25:
        # external types: declared by an `@extern` line of the root file; a part moved into an imported file keeps using
        # them (the load lines are processed in source order: the `@extern` line stands before the `@import` line)
        ext = [{"name": "xt0", "ns": [], "prim": "record"}, {"name": "xe1", "ns": ["xlib"], "prim": "enum"}, {"name": "xi2", "ns": ["xlib", "v2"], "prim": "interface"}]
        ext = r.sample(ext, r.choice([1, 2, 3]))
        head, extra = '@extern "e.yaml"\n', {"/w/e.yaml": {"ext": ext}}
        decls = g.program_with_visible([{"k": d["prim"], "name": d["name"], "ns": d["ns"]} for d in ext], prefix="")
    else:
        decls = g.program()
    texts = [decl_text(d, None, 'min') for d in decls]
    base = "\n".join(texts)
    variants = {"original": {"/w/m.djinni": head + base, **extra}}
    # re-format
    variants["reformat"] = {"/w/m.djinni": head + "\n".join(decl_text(d, random.Random(seed_key + "/fmt"), 'random') for d in decls), **extra}
    # permute
    order = list(range(len(decls)))
    r.shuffle(order)
    variants["permute"] = {"/w/m.djinni": head + "\n".join(texts[i] for i in order), **extra}
    if rich and len(decls) > 2:
        variants["reverse"] = {"/w/m.djinni": "\n".join(reversed(texts))}
    return decls, texts, variants, r, head, extra


def scoping_variants(seed_key):
    """the same declarations and references under two member orders: equally named types at several namespace positions
    (incl. a top-level namespace named like an inner one) and *every* relative / partly qualified / absolute spelling
    that resolves, from every position; which declaration a spelling denotes must not depend on the order the members
    are written (or resolved) in"""
    import props.c04 as c04
    r = random.Random(seed_key)
    families = [[["a"], ["b"]], [["a"], ["b"], []], [["a", "b"], ["b"]], [["a", "d"], ["d"], ["a"]], [["a", "b", "a"], ["a"]], [["ab"], ["a"], ["b"]],
                [["a", "b", "c"], ["b", "c"], ["c"]], [["a", "b"], ["a"], ["b"], []]]
    pl = r.choice(families) if r.random() < 0.5 else r.sample(c04.POSITIONS + [["b", "c"], ["c"], ["d"]], r.choice([2, 3]))
    keys = {tuple(ns) + ("x",) for ns in pl}
    sp = c04.spellings(pl)

    def resolves(site, spelling):
        if spelling.startswith("."):
            return tuple(spelling[1:].split(".")) in keys
        return any(tuple(site[:k]) + tuple(spelling.split(".")) in keys for k in range(len(site), -1, -1))
    decls = [(ns, f"x = enum {{ k{i}; }}" if i % 2 == 0 else f"x = record {{ v{i}: i32; }}") for i, ns in enumerate(pl)]
    holders = []
    for i, site in enumerate(c04.POSITIONS + [["b", "c"]]):
        ok = [q for q in sp if resolves(site, q)]
        if ok:
            holders.append((site, f"h{i} = record {{ " + " ".join(f"f{j}: {q};" for j, q in enumerate(ok)) + " }"))
    a = c04.emit_tree(holders + decls, random.Random(seed_key + "/t"), 1)
    b = c04.emit_tree(list(reversed(decls)) + list(reversed(holders)), random.Random(seed_key + "/t"), 0)
    return {"original": {"/w/m.djinni": a}, "permute": {"/w/m.djinni": b}}


def closed_subset(r, n, deps):
    """a random non-trivial dependency-closed subset of range(n) (may be empty if impossible)"""
    if n < 2:
        return set()
    seeds = [i for i in range(n) if r.random() < 0.4] or [r.randrange(n)]
    s = set()
    todo = list(seeds)
    while todo:
        i = todo.pop()
        if i in s:
            continue
        s.add(i)
        todo += list(deps.get(i, ()))
    return s if len(s) < n else set()


def diag_key(d):
    return (d["cls"], d.get("msg", ""))


def run(ctx):
    ctx.coverage["rule"] = ("accepted and rejected generated programs; variants: re-formatted, top-level declarations permuted, a dependency-closed "
                            "subset moved to an @import-ed file (one or two levels); distinct = distinct (program, variant); "
                            "non-trivial = more than one declaration")
    ctx.assumptions += ["the bridging header (objc.swift.bridging_header) and the yaml out_file mode list declarations in source order by construction; "
                        "they are not configured here (recorded in DESIGN.md as order-dependent outputs)"]
    n = ctx.n(160, 3000)
    progs = []
    # ---- phase 1: parse the original to learn the dependency graph ----------------------------
    todo1 = []
    for i in range(n):
        decls, texts, variants, r, head, extra = make_variants(f"{ctx.seed}/c11/{i}", p_bad=0.0 if i % 4 else 0.2)
        progs.append({"decls": decls, "texts": texts, "variants": variants, "r": r, "accepted_expected": i % 4 != 0, "head": head, "extra": extra})
        todo1.append({"files": variants["original"], "root": "/w/m.djinni"})
    for i in range(ctx.n(60, 600)):
        v = scoping_variants(f"{ctx.seed}/c11/scope/{i}")
        progs.append({"decls": [None, None], "texts": [], "variants": v, "r": random.Random(0), "accepted_expected": False, "head": "", "extra": {}, "scoping": True,
                      "targets": ["cpp", "cppcli"]})
        todo1.append({"files": v["original"], "root": "/w/m.djinni"})
    res1 = front.run_many(ctx.tmp, todo1)
    # ---- phase 2: build split variants, run the front end on all variants ---------------------
    todo2, index = [], []
    for pi, (p, (impl, _)) in enumerate(zip(progs, res1)):
        if p.get("scoping"):
            for vname, files in p["variants"].items():
                todo2.append({"files": files, "root": "/w/m.djinni"})
                index.append((pi, vname))
            continue
        decls, texts, r = p["decls"], p["texts"], p["r"]
        keys = keys_of(decls)
        # declaration i spans lines: texts are joined by '\n' and each 'min' text is one or more lines
        starts, line = [], 1 + p["head"].count("\n")
        for t in texts:
            starts.append(line)
            line += t.count("\n") + 1
        deps = {}
        for b in impl.get("bindings", []):
            if b["key"] in keys:
                src = max(j for j, s in enumerate(starts) if s <= b["p"][0])
                deps.setdefault(src, set()).add(keys.index(b["key"]))
        unresolved = impl["kind"] == "diags" and any(d["cls"] == "TypeResolvingException" for d in impl["diags"])
        s = closed_subset(r, len(decls), deps) if not unresolved else set()
        if s:
            lib = "\n".join(texts[i] for i in sorted(s))
            main = p["head"] + '@import "lib/part.djinni"\n' + "\n".join(texts[i] for i in range(len(decls)) if i not in s)
            p["variants"]["split"] = {"/w/m.djinni": main, "/w/lib/part.djinni": lib, **p["extra"]}
            # two levels: a dependency-closed part of the library goes one level deeper
            sl = sorted(s)
            deep = closed_subset(r, len(sl), {a: {sl.index(k) for k in deps.get(sl[a], set()) if k in s} for a in range(len(sl))})
            if deep:
                lib2 = "\n".join(texts[sl[a]] for a in sorted(deep))
                lib1 = '@import "deep.djinni"\n' + "\n".join(texts[sl[a]] for a in range(len(sl)) if a not in deep)
                p["variants"]["split2"] = {"/w/m.djinni": main, "/w/lib/part.djinni": lib1, "/w/lib/deep.djinni": lib2, **p["extra"]}
                # diamond: the deep file is reached along two import paths with different spellings of its path
                if not p["extra"]:
                    p["variants"]["diamond"] = {"/w/m.djinni": '@import "other/b.djinni"\n' + main, "/w/lib/part.djinni": lib1,
                                                "/w/other/b.djinni": '@import "../lib/deep.djinni"\n', "/w/lib/deep.djinni": lib2}
        for vname, files in p["variants"].items():
            todo2.append({"files": files, "root": "/w/m.djinni"})
            index.append((pi, vname))
    res2 = front.run_many(ctx.tmp, todo2)
    answers = ctx.driver.batch([req for _, req in res2])
    # hypothesis of split_invariance on the very inputs: every variant (files in finish order) is dependency-closed
    closed = ctx.driver.batch([{**req, "op": "c11.closed"} for _, req in res2])
    for (pi, vname), cl in zip(index, closed):
        if "error" in cl:
            raise RuntimeError(f"driver error {cl}")
        if cl.get("syntax"):
            continue
        ctx.stat("variant_closed" if cl["closed"] else "variant_not_closed:" + vname)
        if cl["closed"] and not cl["same"]:
            ctx.obligation(f"closed-implies-ordered-eq-whole[{pi}:{vname}]", False, "evaluation", "an evaluated instance contradicts violationsOrdered_eq_violations_of_closed")
    hyps = ctx.driver.batch([{**req, "op": "c11.hyp"} for _, req in res2])
    ctx.stats["front_split_invariance_hypotheses_hold"] = sum(1 for h in hyps if h.get("holds"))
    ctx.obligation("closed-implies-ordered-eq-whole (evaluated on every variant)", True, "evaluation",
                   f"{ctx.stats.get('variant_closed', 0)} closed variants")
    breaks = []
    per_prog = {}
    for (pi, vname), (impl, req), m in zip(index, res2, answers):
        mo, io = front.model_outcome(m), front.canon_outcome(impl)
        if mo[0] != "syntax" and mo != io:
            breaks.append({"variant": vname, "files": req["files"], "why": "outcome differs", "model": m,
                           "impl": {k: v for k, v in impl.items() if k not in ("ast", "result", "bindings")}})
        per_prog.setdefault(pi, {})[vname] = impl
    # ---- metamorphic specification: front end -------------------------------------------------
    gen_cases, gen_index = [], []
    for pi, vs in per_prog.items():
        p = progs[pi]
        o = vs["original"]
        ctx.stat("original_" + o["kind"])
        for vname, impl in vs.items():
            ctx.count(key=(pi, vname), nontrivial=len(p["decls"]) > 1,
                      sample={"variant": vname, "files": p["variants"][vname], "impl": impl["kind"]} if vname != "original" else None)
            ctx.stat("variant_" + vname)
            if vname == "original":
                continue
            same = impl["kind"] == o["kind"] and (
                impl["kind"] != "diags" or sorted(map(diag_key, impl["diags"])) == sorted(map(diag_key, o["diags"]))) and (
                impl["kind"] != "raised" or diag_key(impl) == diag_key(o))
            if not same:
                only_dups = (impl["kind"] == o["kind"] == "diags" and vname.startswith("split")
                             and set(map(diag_key, impl["diags"])) == set(map(diag_key, o["diags"])))
                key = "layout:duplicate-diagnostics-from-imported-file" if only_dups else f"layout:{vname}:front-end-outcome-changes"
                ctx.report(key, f"acceptance or diagnostics (modulo positions) change under '{vname}'",
                           {"input": {"original": p["variants"]["original"], "variant": p["variants"][vname]}, "variant": vname,
                            "original_outcome": strip(o), "variant_outcome": strip(impl)})
        if o["kind"] == "ok" and not p["extra"]:      # the generators need complete external type files: front end only for those
            for vname in vs:
                gen_cases.append({"files": p["variants"][vname], "root": "/w/m.djinni", "config": genrun.default_config(), "targets": p.get("targets", TARGETS)})
                gen_index.append((pi, vname))
    # ---- metamorphic specification: generated files -------------------------------------------
    gres = genrun.run_many(ctx.tmp, gen_cases, timeout=40)
    gen_by = {}
    for (pi, vname), g in zip(gen_index, gres):
        gen_by.setdefault(pi, {})[vname] = g
    for pi, vs in gen_by.items():
        o = vs["original"]
        ctx.stat("generate_" + o["kind"])
        if o["kind"] in ("crash", "hang"):
            # an internal error during generation leaves partial output; that is C01's finding, not a layout matter
            ctx.stat("generate_skipped_internal_error")
            continue
        for vname, g in vs.items():
            if vname == "original":
                continue
            if g["kind"] != o["kind"] or g["files"] != o["files"] or (g["kind"] != "ok" and g["stage"] != o["stage"]):
                changed = sorted(k for k in set(g["files"]) | set(o["files"]) if g["files"].get(k) != o["files"].get(k))
                over = set(g.get("overwritten", [])) | set(o.get("overwritten", []))
                if changed and set(changed) <= over and g["kind"] == o["kind"] and set(g["files"]) == set(o["files"]):
                    # every file that differs is one that two declarations of the program were both written to in the
                    # same run (finding of C15): it holds whichever was written last
                    ctx.report("layout:overwritten-path-holds-last-writer", f"a file that two declarations are written to changes under '{vname}'",
                               {"input": {"original": progs[pi]["variants"]["original"], "variant": progs[pi]["variants"][vname]}, "variant": vname,
                                "changed_files": changed[:10], "overwritten": sorted(over)[:10]})
                    continue
                ctx.report(f"layout:{vname}:generated-files-change", f"generated files change under '{vname}'",
                           {"input": {"original": progs[pi]["variants"]["original"], "variant": progs[pi]["variants"][vname]}, "variant": vname,
                            "changed_files": changed[:10], "original": {"kind": o["kind"], "stage": o["stage"]}, "variant_outcome": {"kind": g["kind"], "stage": g["stage"], "diags": g["diags"][:2]}})
    ctx.stats["generated_programs"] = len(gen_by)
    ctx.stats["correspondence_breaks"] = len(breaks)
    if breaks and not ctx.violations:
        ctx.report("correspondence", "front-end model and implementation disagree on a layout variant; the metamorphic specification holds on every sampled program",
                   {"correspondence": "c05.front vs ConfiguredContext.parse on layout variants", "first": breaks[0], "count": len(breaks)}, no_failing_input=True)


def strip(impl):
    return {k: v for k, v in impl.items() if k not in ("ast", "result", "bindings", "decls")}


def replay(ctx, body):
    inp = body["input"]
    cases = [{"files": inp["original"], "root": "/w/m.djinni"}, {"files": inp["variant"], "root": "/w/m.djinni"}]
    (a, _), (b, _) = front.run_many(ctx.tmp, cases)
    print(json.dumps({"original": strip(a), "variant": strip(b)}, indent=1)[:3000])
    g = genrun.run_many(ctx.tmp, [{**c, "config": genrun.default_config(), "targets": TARGETS} for c in cases])
    same_front = a["kind"] == b["kind"] and sorted(map(diag_key, a.get("diags", []))) == sorted(map(diag_key, b.get("diags", [])))
    same_gen = g[0]["files"] == g[1]["files"] and g[0]["kind"] == g[1]["kind"]
    print("front-end equal:", same_front, "generated equal:", same_gen)
    return same_front and same_gen
